#!/bin/bash
# MANIFEST.setup_cmd: offline build of both harness profiles against /repo's working tree.
set -e
cd "$(dirname "$0")"
export CARGO_NET_OFFLINE=true
export CARGO_TARGET_DIR="$PWD/target"
mkdir -p work evidence replays
cargo build --offline --quiet --profile checked --manifest-path harness/Cargo.toml --bin chk
cargo build --offline --quiet --release --manifest-path harness/Cargo.toml --bin chk
echo "setup ok"
