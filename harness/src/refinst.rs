//! R-inst: date-times as exact integers. A naive date-time is (CE day number, second of day,
//! fraction in ns where fraction >= 1e9 denotes a leap-second representation). The instant of a
//! non-leap value is an i128 nanosecond count from 0001-01-01T00:00:00 (day 1).

use crate::refcal as rc;
use chrono::{Datelike, NaiveDate, NaiveDateTime, NaiveTime, Timelike};

pub const NS: i128 = 1_000_000_000;
pub const DAY_NS: i128 = 86_400 * NS;

#[derive(Clone, Copy, Debug, PartialEq, Eq, PartialOrd, Ord, Hash)]
pub struct RDt {
    pub day: i64,
    pub secs: i64,
    pub frac: i64,
}

impl RDt {
    pub fn new(day: i64, secs: i64, frac: i64) -> RDt {
        RDt { day, secs, frac }
    }
    pub fn is_leap(&self) -> bool {
        self.frac >= 1_000_000_000
    }
    /// Read a chrono value through its accessors.
    pub fn of(dt: &NaiveDateTime) -> RDt {
        RDt {
            day: dt.date().num_days_from_ce() as i64,
            secs: dt.time().num_seconds_from_midnight() as i64,
            frac: dt.time().nanosecond() as i64,
        }
    }
    /// Build the chrono value (None if the day is outside NaiveDate's range or fields invalid).
    pub fn to_chrono(&self) -> Option<NaiveDateTime> {
        if self.day < i32::MIN as i64 || self.day > i32::MAX as i64 {
            return None;
        }
        let d = NaiveDate::from_num_days_from_ce_opt(self.day as i32)?;
        let t = NaiveTime::from_num_seconds_from_midnight_opt(self.secs as u32, self.frac as u32)?;
        Some(NaiveDateTime::new(d, t))
    }
    /// Exact ns count since 0001-01-01T00:00 (day 1). A leap representation counts as the
    /// nanoseconds of second 59 plus its fraction (i.e. up to 1 s into the following second).
    pub fn ns(&self) -> i128 {
        ((self.day - 1) as i128 * 86_400 + self.secs as i128) * NS + self.frac as i128
    }
    pub fn from_ns(ns: i128) -> RDt {
        let day0 = ns.div_euclid(DAY_NS);
        let rem = ns.rem_euclid(DAY_NS);
        RDt { day: day0 as i64 + 1, secs: (rem / NS) as i64, frac: (rem % NS) as i64 }
    }
    pub fn ymd(&self) -> (i64, i64, i64) {
        rc::civil_from_days(self.day)
    }
    pub fn hms(&self) -> (i64, i64, i64) {
        (self.secs / 3600, self.secs / 60 % 60, self.secs % 60)
    }
    /// Unix timestamp (seconds, floor) of this value read as UTC.
    pub fn unix_secs(&self) -> i64 {
        (self.day - rc::UNIX_EPOCH_DAY) * 86_400 + self.secs
    }
    pub fn in_range(&self) -> bool {
        rc::in_range_day(self.day)
    }
}

/// ns count of NaiveDateTime::MIN / MAX
pub fn min_ns() -> i128 {
    RDt::new(rc::min_day(), 0, 0).ns()
}
pub fn max_ns() -> i128 {
    RDt::new(rc::max_day(), 86_399, 999_999_999).ns()
}
/// ns count of the Unix epoch
pub fn epoch_ns() -> i128 {
    RDt::new(rc::UNIX_EPOCH_DAY, 0, 0).ns()
}

/// chrono value -> display string that never panics (for witnesses)
pub fn show(dt: &NaiveDateTime) -> String {
    format!("{:?}", dt)
}

/// TimeDelta as exact ns
pub fn td_ns(d: &chrono::TimeDelta) -> i128 {
    d.num_seconds() as i128 * NS + d.subsec_nanos() as i128
}
pub const TD_MAX_NS: i128 = i64::MAX as i128 * 1_000_000;
pub const TD_MIN_NS: i128 = -TD_MAX_NS;

/// Exact ns -> TimeDelta (None if outside the closed range)
pub fn td_from_ns(ns: i128) -> Option<chrono::TimeDelta> {
    if !(TD_MIN_NS..=TD_MAX_NS).contains(&ns) {
        return None;
    }
    let secs = ns.div_euclid(NS) as i64;
    let nanos = ns.rem_euclid(NS) as u32;
    chrono::TimeDelta::new(secs, nanos)
}

/// Is a `NaiveDate` chrono handed out internally consistent? Reads the calendar accessors under the
/// panic monitor and compares them with the reference calendar at the value's own day number. (A
/// value can carry the right day number and still be invalid — e.g. ordinal 366 of a common year —
/// in which case the table-driven accessors panic or disagree.)
pub fn date_defect(d: &NaiveDate) -> Option<String> {
    match crate::mon::guard(|| (d.num_days_from_ce() as i64, d.year() as i64, d.month() as i64, d.day() as i64, d.ordinal() as i64, d.weekday().num_days_from_monday() as i64)) {
        Err(p) => Some(format!("an accessor panics: {} at {}", p.msg, p.site())),
        Ok((n, y, m, dd, o, wd)) => {
            let (ry, rm, rd) = rc::civil_from_days(n);
            if (y, m, dd) != (ry, rm, rd) || o != rc::ordinal_of(ry, rm, rd) || wd != rc::weekday(n) {
                Some(format!("day number {} is {}-{}-{} (ordinal {}, weekday {}), accessors say {}-{}-{} (ordinal {}, weekday {})", n, ry, rm, rd, rc::ordinal_of(ry, rm, rd), rc::weekday(n), y, m, dd, o, wd))
            } else {
                None
            }
        }
    }
}

pub fn self_test() -> Result<(), String> {
    let e = NaiveDate::from_ymd_opt(1970, 1, 1).unwrap().and_hms_opt(0, 0, 0).unwrap();
    let r = RDt::of(&e);
    if r != RDt::new(719_163, 0, 0) || r.unix_secs() != 0 {
        return Err("refinst: epoch".into());
    }
    if RDt::from_ns(r.ns()) != r || RDt::from_ns(-1) != RDt::new(0, 86_399, 999_999_999) {
        return Err("refinst: from_ns".into());
    }
    if td_from_ns(TD_MAX_NS) != Some(chrono::TimeDelta::MAX) || td_from_ns(TD_MIN_NS) != Some(chrono::TimeDelta::MIN) {
        return Err("refinst: TimeDelta range".into());
    }
    if td_ns(&chrono::TimeDelta::MAX) != TD_MAX_NS || td_ns(&chrono::TimeDelta::MIN) != TD_MIN_NS || td_from_ns(TD_MAX_NS + 1).is_some() {
        return Err("refinst: td_ns".into());
    }
    let _ = e.year();
    Ok(())
}
