//! Counting global allocator: when armed on the current thread it tracks live bytes, the peak and
//! the largest single request made through the Rust allocator. Requests above `REFUSE_ABOVE`
//! while armed are refused (null), which aborts the process — such workloads run in child shards.

use std::alloc::{GlobalAlloc, Layout, System};
use std::cell::Cell;

pub struct CountingAlloc;

thread_local! {
    static ARMED: Cell<bool> = const { Cell::new(false) };
    static LIVE: Cell<isize> = const { Cell::new(0) };
    static PEAK: Cell<isize> = const { Cell::new(0) };
    static MAXREQ: Cell<usize> = const { Cell::new(0) };
    static COUNT: Cell<u64> = const { Cell::new(0) };
}

pub const REFUSE_ABOVE: usize = 1 << 30;

#[inline]
fn on_alloc(size: usize) -> bool {
    ARMED
        .try_with(|a| {
            if a.get() {
                let _ = MAXREQ.try_with(|m| m.set(m.get().max(size)));
                let _ = COUNT.try_with(|c| c.set(c.get() + 1));
                if size > REFUSE_ABOVE {
                    return false;
                }
                let _ = LIVE.try_with(|l| {
                    l.set(l.get() + size as isize);
                    let _ = PEAK.try_with(|p| p.set(p.get().max(l.get())));
                });
            }
            true
        })
        .unwrap_or(true)
}

#[inline]
fn on_free(size: usize) {
    let _ = ARMED.try_with(|a| {
        if a.get() {
            let _ = LIVE.try_with(|l| l.set(l.get() - size as isize));
        }
    });
}

unsafe impl GlobalAlloc for CountingAlloc {
    unsafe fn alloc(&self, layout: Layout) -> *mut u8 {
        if !on_alloc(layout.size()) {
            return std::ptr::null_mut();
        }
        System.alloc(layout)
    }
    unsafe fn alloc_zeroed(&self, layout: Layout) -> *mut u8 {
        if !on_alloc(layout.size()) {
            return std::ptr::null_mut();
        }
        System.alloc_zeroed(layout)
    }
    unsafe fn dealloc(&self, ptr: *mut u8, layout: Layout) {
        on_free(layout.size());
        System.dealloc(ptr, layout)
    }
    unsafe fn realloc(&self, ptr: *mut u8, layout: Layout, new_size: usize) -> *mut u8 {
        if !on_alloc(new_size) {
            return std::ptr::null_mut();
        }
        on_free(layout.size());
        System.realloc(ptr, layout, new_size)
    }
}

#[derive(Clone, Copy, Debug, Default)]
pub struct AllocStats {
    pub peak_live: isize,
    pub max_request: usize,
    pub allocations: u64,
}

/// Run `f` with the monitor armed on this thread; returns the statistics of exactly that call.
pub fn measure<T>(f: impl FnOnce() -> T) -> (T, AllocStats) {
    LIVE.with(|l| l.set(0));
    PEAK.with(|p| p.set(0));
    MAXREQ.with(|m| m.set(0));
    COUNT.with(|c| c.set(0));
    ARMED.with(|a| a.set(true));
    let r = f();
    ARMED.with(|a| a.set(false));
    let st = AllocStats { peak_live: PEAK.with(|p| p.get()), max_request: MAXREQ.with(|m| m.get()), allocations: COUNT.with(|c| c.get()) };
    (r, st)
}

/// Disarm (used after a caught panic unwound through `measure`).
pub fn disarm() {
    ARMED.with(|a| a.set(false));
}
