//! Deterministic PRNG (splitmix64-seeded xoshiro256**), seeded by (VERIF_SEED, property, shard).

#[derive(Clone)]
pub struct Rng {
    s: [u64; 4],
}

fn splitmix(x: &mut u64) -> u64 {
    *x = x.wrapping_add(0x9e3779b97f4a7c15);
    let mut z = *x;
    z = (z ^ (z >> 30)).wrapping_mul(0xbf58476d1ce4e5b9);
    z = (z ^ (z >> 27)).wrapping_mul(0x94d049bb133111eb);
    z ^ (z >> 31)
}

impl Rng {
    pub fn new(seed: u64, prop: &str, shard: u64) -> Rng {
        let mut x = seed ^ crate::mon::hstr(prop) ^ shard.wrapping_mul(0xd1342543de82ef95);
        let s = [splitmix(&mut x), splitmix(&mut x), splitmix(&mut x), splitmix(&mut x)];
        Rng { s }
    }
    #[inline]
    pub fn next(&mut self) -> u64 {
        let r = self.s[1].wrapping_mul(5).rotate_left(7).wrapping_mul(9);
        let t = self.s[1] << 17;
        self.s[2] ^= self.s[0];
        self.s[3] ^= self.s[1];
        self.s[1] ^= self.s[2];
        self.s[0] ^= self.s[3];
        self.s[2] ^= t;
        self.s[3] = self.s[3].rotate_left(45);
        r
    }
    /// uniform in 0..n (n > 0)
    #[inline]
    pub fn below(&mut self, n: u64) -> u64 {
        ((self.next() as u128 * n as u128) >> 64) as u64
    }
    /// uniform in lo..=hi
    #[inline]
    pub fn range(&mut self, lo: i64, hi: i64) -> i64 {
        debug_assert!(lo <= hi);
        let span = (hi as i128 - lo as i128 + 1) as u128;
        if span > u64::MAX as u128 {
            return self.next() as i64;
        }
        (lo as i128 + self.below(span as u64) as i128) as i64
    }
    #[inline]
    pub fn range128(&mut self, lo: i128, hi: i128) -> i128 {
        let span = (hi - lo + 1) as u128;
        let r = ((self.next() as u128) << 64) | self.next() as u128;
        lo + (r % span) as i128
    }
    #[inline]
    pub fn chance(&mut self, num: u64, den: u64) -> bool {
        self.below(den) < num
    }
    pub fn pick<'a, T>(&mut self, xs: &'a [T]) -> &'a T {
        &xs[self.below(xs.len() as u64) as usize]
    }
    /// log-uniform magnitude with random sign: |x| < 2^bits
    pub fn log_i64(&mut self, bits: u32) -> i64 {
        let b = self.below(bits as u64 + 1) as u32;
        let mag = if b == 0 { 0 } else { self.next() >> (64 - b) };
        let mag = mag as i64 & i64::MAX;
        if self.chance(1, 2) {
            mag.wrapping_neg()
        } else {
            mag
        }
    }
    pub fn log_u64(&mut self, bits: u32) -> u64 {
        let b = self.below(bits as u64 + 1) as u32;
        if b == 0 {
            0
        } else {
            self.next() >> (64 - b)
        }
    }
}
