//! Shared monitoring infrastructure: panic monitor, per-run report (evaluations, coverage
//! buckets, distinct-case bitmap, samples, violations), parallel sharding, evidence writer.

use serde_json::{json, Map, Value};
use std::cell::RefCell;
use std::collections::BTreeMap;
use std::panic::{self, AssertUnwindSafe};
use std::path::PathBuf;
use std::sync::atomic::{AtomicBool, AtomicU64, Ordering};
use std::sync::Mutex;
use std::time::Instant;

#[derive(Clone, Copy, Debug, PartialEq, Eq)]
pub enum Tier {
    Quick,
    Thorough,
}

impl Tier {
    pub fn name(self) -> &'static str {
        match self {
            Tier::Quick => "quick",
            Tier::Thorough => "thorough",
        }
    }
    /// pick by tier
    pub fn pick<T>(self, q: T, t: T) -> T {
        match self {
            Tier::Quick => q,
            Tier::Thorough => t,
        }
    }
}

/// `checked` = overflow-checks + debug-assertions; `plain` = ordinary release.
pub fn lane() -> &'static str {
    if cfg!(debug_assertions) {
        "checked"
    } else {
        "plain"
    }
}

#[derive(Clone, Debug)]
pub struct Ctx {
    pub prop: String,
    pub tier: Tier,
    pub seed: u64,
    pub threads: usize,
    pub work_dir: PathBuf,
    /// If set: only violations with this signature matter (replay mode).
    pub replay_sig: Option<String>,
    /// workload scale factor in percent (VERIF_SCALE, default 100)
    pub scale_pct: u64,
}

impl Ctx {
    /// Scale a workload size by VERIF_SCALE.
    pub fn n(&self, quick: u64, thorough: u64) -> u64 {
        let base = self.tier.pick(quick, thorough);
        (base.saturating_mul(self.scale_pct) / 100).max(1)
    }
}

// ------------------------------------------------------------------------------------------------
// Panic monitor
// ------------------------------------------------------------------------------------------------

#[derive(Clone, Debug)]
pub struct PanicInfo {
    pub msg: String,
    pub file: String,
    pub line: u32,
}

impl PanicInfo {
    pub fn to_json(&self) -> Value {
        json!({"message": self.msg, "file": self.file, "line": self.line})
    }
    pub fn site(&self) -> String {
        format!("{}:{}", self.file, self.line)
    }
}

thread_local! {
    static LAST_PANIC: RefCell<Option<PanicInfo>> = const { RefCell::new(None) };
    static IN_GUARD: RefCell<u32> = const { RefCell::new(0) };
}

static HOOK_INSTALLED: AtomicBool = AtomicBool::new(false);

/// Install the global panic hook: record message + location in a thread-local; print only when
/// the panic does not happen inside a `guard` (i.e. a harness error).
pub fn install_panic_hook() {
    if HOOK_INSTALLED.swap(true, Ordering::SeqCst) {
        return;
    }
    panic::set_hook(Box::new(|info| {
        let msg = if let Some(s) = info.payload().downcast_ref::<&str>() {
            (*s).to_string()
        } else if let Some(s) = info.payload().downcast_ref::<String>() {
            s.clone()
        } else {
            "<non-string panic payload>".to_string()
        };
        let (file, line) = match info.location() {
            Some(l) => (l.file().to_string(), l.line()),
            None => ("<unknown>".to_string(), 0),
        };
        let in_guard = IN_GUARD.with(|g| *g.borrow() > 0);
        if !in_guard {
            eprintln!("HARNESS-PANIC at {}:{}: {}", file, line, msg);
        }
        LAST_PANIC.with(|p| *p.borrow_mut() = Some(PanicInfo { msg, file, line }));
    }));
}

/// Run `f` (a call into chrono) under the panic monitor.
#[inline]
pub fn guard<T>(f: impl FnOnce() -> T) -> Result<T, PanicInfo> {
    IN_GUARD.with(|g| *g.borrow_mut() += 1);
    let r = panic::catch_unwind(AssertUnwindSafe(f));
    IN_GUARD.with(|g| *g.borrow_mut() -= 1);
    match r {
        Ok(v) => Ok(v),
        Err(_) => Err(LAST_PANIC.with(|p| p.borrow_mut().take()).unwrap_or(PanicInfo {
            msg: "<panic without info>".into(),
            file: "<unknown>".into(),
            line: 0,
        })),
    }
}

// ------------------------------------------------------------------------------------------------
// Report
// ------------------------------------------------------------------------------------------------

pub struct Violation {
    pub signature: String,
    pub count: u64,
    pub witness: Value,
}

pub struct Report {
    pub prop: String,
    pub bucket_names: Vec<&'static str>,
    /// buckets that must be observed (>0) or the run is inconclusive
    pub floor: Vec<&'static str>,
    evals: AtomicU64,
    nontrivial_evals: AtomicU64,
    buckets: Vec<AtomicU64>,
    bitmap: Vec<AtomicU64>,
    bitmap_mask: u64,
    samples: Mutex<Vec<Value>>,
    violations: Mutex<BTreeMap<String, Violation>>,
    extras: Mutex<Map<String, Value>>,
    harness_errors: Mutex<Vec<String>>,
    notes: Mutex<Vec<String>>,
    pub exhaustive: AtomicBool,
    pub start: Instant,
    max_samples: usize,
}

impl Report {
    pub fn new(prop: &str, bucket_names: &[&'static str], floor: &[&'static str]) -> Report {
        Self::with_bitmap_bits(prop, bucket_names, floor, 27)
    }

    pub fn with_bitmap_bits(
        prop: &str,
        bucket_names: &[&'static str],
        floor: &[&'static str],
        bits: u32,
    ) -> Report {
        for f in floor {
            assert!(bucket_names.contains(f), "floor bucket {} not declared", f);
        }
        let words = 1usize << (bits - 6);
        let mut bitmap = Vec::with_capacity(words);
        bitmap.resize_with(words, || AtomicU64::new(0));
        Report {
            prop: prop.to_string(),
            bucket_names: bucket_names.to_vec(),
            floor: floor.to_vec(),
            evals: AtomicU64::new(0),
            nontrivial_evals: AtomicU64::new(0),
            buckets: bucket_names.iter().map(|_| AtomicU64::new(0)).collect(),
            bitmap,
            bitmap_mask: (1u64 << bits) - 1,
            samples: Mutex::new(Vec::new()),
            violations: Mutex::new(BTreeMap::new()),
            extras: Mutex::new(Map::new()),
            harness_errors: Mutex::new(Vec::new()),
            notes: Mutex::new(Vec::new()),
            exhaustive: AtomicBool::new(false),
            start: Instant::now(),
            max_samples: 12,
        }
    }

    pub fn local(&self) -> Local<'_> {
        Local {
            rep: self,
            evals: 0,
            nontrivial: 0,
            buckets: vec![0; self.bucket_names.len()],
            samples_taken: 0,
        }
    }

    pub fn bucket_index(&self, name: &str) -> usize {
        self.bucket_names.iter().position(|n| *n == name).unwrap_or_else(|| panic!("unknown bucket {}", name))
    }

    pub fn set_extra(&self, key: &str, v: Value) {
        self.extras.lock().unwrap().insert(key.to_string(), v);
    }

    pub fn add_extra_count(&self, key: &str, n: u64) {
        let mut e = self.extras.lock().unwrap();
        let cur = e.get(key).and_then(|v| v.as_u64()).unwrap_or(0);
        e.insert(key.to_string(), json!(cur + n));
    }

    pub fn note(&self, s: impl Into<String>) {
        self.notes.lock().unwrap().push(s.into());
    }

    pub fn harness_error(&self, s: impl Into<String>) {
        let s = s.into();
        let mut h = self.harness_errors.lock().unwrap();
        if h.len() < 50 {
            h.push(s);
        }
    }

    pub fn violation(&self, signature: &str, witness: Value) {
        let mut v = self.violations.lock().unwrap();
        match v.get_mut(signature) {
            Some(e) => e.count += 1,
            None => {
                v.insert(
                    signature.to_string(),
                    Violation { signature: signature.to_string(), count: 1, witness },
                );
            }
        }
    }

    pub fn n_violation_signatures(&self) -> usize {
        self.violations.lock().unwrap().len()
    }

    pub fn evaluations(&self) -> u64 {
        self.evals.load(Ordering::Relaxed)
    }

    pub fn bucket_count(&self, name: &str) -> u64 {
        self.buckets[self.bucket_index(name)].load(Ordering::Relaxed)
    }

    fn distinct_count(&self) -> u64 {
        self.bitmap.iter().map(|w| w.load(Ordering::Relaxed).count_ones() as u64).sum()
    }

    fn mark(&self, h: u64) {
        let h = mix(h) & self.bitmap_mask;
        let (w, b) = ((h >> 6) as usize, h & 63);
        // avoid the RMW when already set
        if self.bitmap[w].load(Ordering::Relaxed) & (1 << b) == 0 {
            self.bitmap[w].fetch_or(1 << b, Ordering::Relaxed);
        }
    }

    /// Turn the report into the lane's partial evidence + verdict.
    pub fn finish(self, ctx: &Ctx, rule: &str, assumptions: &[&str]) -> Outcome {
        let wall = self.start.elapsed().as_secs_f64();
        let buckets: Map<String, Value> = self
            .bucket_names
            .iter()
            .zip(self.buckets.iter())
            .map(|(n, c)| (n.to_string(), json!(c.load(Ordering::Relaxed))))
            .collect();
        let mut missing_floor = Vec::new();
        for f in &self.floor {
            if self.bucket_count(f) == 0 {
                missing_floor.push(f.to_string());
            }
        }
        let violations = self.violations.into_inner().unwrap();
        let distinct: u64 = self.bitmap.iter().map(|w| w.load(Ordering::Relaxed).count_ones() as u64).sum();
        let mut coverage = Map::new();
        coverage.insert("evaluations".into(), json!(self.evals.load(Ordering::Relaxed)));
        coverage.insert("distinct_nontrivial".into(), json!(distinct));
        coverage.insert("nontrivial_evaluations".into(), json!(self.nontrivial_evals.load(Ordering::Relaxed)));
        coverage.insert("rule".into(), json!(rule));
        coverage.insert("samples".into(), Value::Array(self.samples.into_inner().unwrap()));
        coverage.insert("buckets".into(), Value::Object(buckets));
        coverage.insert("floor".into(), json!(self.floor));
        coverage.insert("floor_missing".into(), json!(missing_floor));
        if self.exhaustive.load(Ordering::Relaxed) {
            coverage.insert("exhaustive".into(), json!(true));
        }
        for (k, v) in self.extras.into_inner().unwrap() {
            coverage.insert(k, v);
        }
        let notes = self.notes.into_inner().unwrap();
        if !notes.is_empty() {
            coverage.insert("notes".into(), json!(notes));
        }
        Outcome {
            prop: self.prop,
            lane: lane().to_string(),
            tier: ctx.tier,
            seed: ctx.seed,
            wall_s: wall,
            coverage,
            assumptions: assumptions.iter().map(|s| s.to_string()).collect(),
            violations: violations.into_values().collect(),
            harness_errors: self.harness_errors.into_inner().unwrap(),
            missing_floor,
        }
    }
}

pub struct Outcome {
    pub prop: String,
    pub lane: String,
    pub tier: Tier,
    pub seed: u64,
    pub wall_s: f64,
    pub coverage: Map<String, Value>,
    pub assumptions: Vec<String>,
    pub violations: Vec<Violation>,
    pub harness_errors: Vec<String>,
    pub missing_floor: Vec<String>,
}

#[inline]
pub fn mix(mut x: u64) -> u64 {
    x ^= x >> 33;
    x = x.wrapping_mul(0xff51afd7ed558ccd);
    x ^= x >> 33;
    x = x.wrapping_mul(0xc4ceb9fe1a85ec53);
    x ^= x >> 33;
    x
}

/// Combine hashes
#[inline]
pub fn h2(a: u64, b: u64) -> u64 {
    mix(a ^ mix(b).rotate_left(23).wrapping_add(0x9e3779b97f4a7c15))
}

pub fn hstr(s: &str) -> u64 {
    let mut h = 0xcbf29ce484222325u64;
    for b in s.as_bytes() {
        h ^= *b as u64;
        h = h.wrapping_mul(0x100000001b3);
    }
    mix(h)
}

pub fn hbytes(s: &[u8]) -> u64 {
    let mut h = 0xcbf29ce484222325u64;
    for b in s {
        h ^= *b as u64;
        h = h.wrapping_mul(0x100000001b3);
    }
    mix(h)
}

/// Per-thread accumulator; merged into the report on drop.
pub struct Local<'a> {
    pub rep: &'a Report,
    evals: u64,
    nontrivial: u64,
    buckets: Vec<u64>,
    samples_taken: usize,
}

impl<'a> Local<'a> {
    /// count one evaluated case (a real call compared with the oracle)
    #[inline]
    pub fn eval(&mut self) {
        self.evals += 1;
    }
    #[inline]
    pub fn evals(&mut self, n: u64) {
        self.evals += n;
    }
    /// The current case falls in bucket `idx` (index into the report's bucket names).
    #[inline]
    pub fn bucket(&mut self, idx: usize) {
        self.buckets[idx] += 1;
    }
    /// The current case is non-trivial: record its identity hash in the distinct bitmap.
    #[inline]
    pub fn nontrivial(&mut self, case_hash: u64) {
        self.nontrivial += 1;
        self.rep.mark(case_hash);
    }
    pub fn sample(&mut self, f: impl FnOnce() -> Value) {
        if self.samples_taken >= 2 {
            return;
        }
        let mut s = self.rep.samples.lock().unwrap();
        if s.len() < self.rep.max_samples {
            s.push(f());
            self.samples_taken += 1;
        } else {
            self.samples_taken = usize::MAX / 2;
        }
    }
    pub fn violation(&mut self, signature: &str, witness: Value) {
        self.rep.violation(signature, witness);
    }
    /// Guarded call: a panic becomes a violation `<sig_prefix>/panic@file:line`.
    #[inline]
    pub fn call<T>(&mut self, entry: &str, input: impl FnOnce() -> Value, f: impl FnOnce() -> T) -> Option<T> {
        match guard(f) {
            Ok(v) => Some(v),
            Err(p) => {
                let sig = format!("{}/{}/panic@{}", self.rep.prop, entry, p.site());
                self.rep.violation(&sig, json!({"entry": entry, "input": input(), "panic": p.to_json()}));
                None
            }
        }
    }
    pub fn flush(&mut self) {
        self.rep.evals.fetch_add(self.evals, Ordering::Relaxed);
        self.rep.nontrivial_evals.fetch_add(self.nontrivial, Ordering::Relaxed);
        self.evals = 0;
        self.nontrivial = 0;
        for (i, b) in self.buckets.iter_mut().enumerate() {
            if *b > 0 {
                self.rep.buckets[i].fetch_add(*b, Ordering::Relaxed);
                *b = 0;
            }
        }
    }
}

impl Drop for Local<'_> {
    fn drop(&mut self) {
        self.flush();
    }
}

// ------------------------------------------------------------------------------------------------
// Parallel sharding
// ------------------------------------------------------------------------------------------------

/// Run `f(shard)` for shard in 0..n_shards on `threads` worker threads. A panic escaping a shard
/// (i.e. outside any `guard`) is a harness error.
pub fn par_shards(rep: &Report, threads: usize, n_shards: usize, f: impl Fn(usize) + Sync) {
    let next = AtomicU64::new(0);
    std::thread::scope(|s| {
        for _ in 0..threads.max(1).min(n_shards.max(1)) {
            s.spawn(|| loop {
                let i = next.fetch_add(1, Ordering::Relaxed) as usize;
                if i >= n_shards {
                    break;
                }
                let r = panic::catch_unwind(AssertUnwindSafe(|| f(i)));
                if r.is_err() {
                    let p = LAST_PANIC.with(|p| p.borrow_mut().take());
                    // A panic raised *inside chrono's sources* by a call the harness left unguarded: the
                    // harness only leaves a call unguarded when the API is documented not to panic for
                    // what it is given (accessors, `Debug`/`Display` and comparisons of values chrono
                    // itself returned, constructors on fields the reference calendar validated). So
                    // chrono handed out an internally invalid value, or a non-panicking API panicked:
                    // a violation (of the value's validity), not a harness error. Panics located in
                    // the harness, std or a dependency stay harness errors (inconclusive).
                    if let Some(pi) = p.as_ref() {
                        if let Some(pos) = pi.file.find("/repo/src/") {
                            let site = format!("{}:{}", &pi.file[pos + 6..], pi.line);
                            rep.violation(
                                &format!("{}/unguarded-non-panicking-api/panic-inside-chrono@{}", rep.prop, site),
                                json!({"shard": i, "panic": pi.to_json(), "note": "raised by an accessor, formatter, comparison or validated constructor applied to a value chrono returned; the shard's remaining cases were not evaluated"}),
                            );
                            continue;
                        }
                    }
                    rep.harness_error(format!(
                        "shard {} panicked outside a monitored call: {:?}",
                        i,
                        p.map(|p| format!("{} at {}:{}", p.msg, p.file, p.line))
                    ));
                }
            });
        }
    });
}

// ------------------------------------------------------------------------------------------------
// Known findings
// ------------------------------------------------------------------------------------------------

pub struct Known {
    pub entries: Vec<(String, String, String)>, // property, signature, description
}

impl Known {
    pub fn load(path: &std::path::Path) -> Known {
        let mut entries = Vec::new();
        if let Ok(s) = std::fs::read_to_string(path) {
            if let Ok(v) = serde_json::from_str::<Value>(&s) {
                if let Some(a) = v.get("known").and_then(|k| k.as_array()) {
                    for e in a {
                        let g = |k: &str| e.get(k).and_then(|x| x.as_str()).unwrap_or("").to_string();
                        entries.push((g("property"), g("signature"), g("description")));
                    }
                }
            }
        }
        Known { entries }
    }
    pub fn matches(&self, prop: &str, sig: &str) -> Option<&str> {
        self.entries.iter().find(|(p, s, _)| p == prop && s == sig).map(|(_, _, d)| d.as_str())
    }
}
