//! User-defined zones built on chrono's public `TimeZone` trait, shared by the monitors that need
//! an offset that varies with the instant (with `FixedOffset`/`Utc` alone, code that forgets to
//! re-resolve the offset in the zone is indistinguishable from correct code).

use chrono::{FixedOffset, MappedLocalTime, NaiveDate, NaiveDateTime, NaiveTime, Offset, TimeZone};
use std::fmt;

/// A zone whose offset changes (through the public `TimeZone` trait): +01:00 before
/// 2021-03-28T01:00Z, +02:00 until 2021-10-31T01:00Z, +01:00 afterwards. Stepping and field
/// replacement must act on the wall clock and re-resolve it in the zone; with `FixedOffset` alone an
/// implementation that steps the UTC value and re-derives the offset is indistinguishable.
#[derive(Clone, Copy, Debug)]
pub struct StepTz;
pub const STEP_T0: i64 = 1_616_893_200; // 2021-03-28T01:00:00Z  (gap: wall 02:00..03:00 skipped)
pub const STEP_T1: i64 = 1_635_642_000; // 2021-10-31T01:00:00Z  (fold: wall 02:00..03:00 twice)
pub fn step_off(u: i64) -> i32 {
    if (STEP_T0..STEP_T1).contains(&u) {
        7200
    } else {
        3600
    }
}
pub fn step_candidates(l: i64) -> Vec<i32> {
    let mut c: Vec<i32> = [3600, 7200].into_iter().filter(|o| step_off(l - *o as i64) == *o).collect();
    c.sort_by_key(|o| l - *o as i64);
    c
}
impl TimeZone for StepTz {
    type Offset = FixedOffset;
    fn from_offset(_: &FixedOffset) -> Self {
        StepTz
    }
    #[allow(deprecated)]
    fn offset_from_local_date(&self, local: &chrono::NaiveDate) -> MappedLocalTime<FixedOffset> {
        self.offset_from_local_datetime(&local.and_time(NaiveTime::MIN))
    }
    fn offset_from_local_datetime(&self, local: &chrono::NaiveDateTime) -> MappedLocalTime<FixedOffset> {
        let c = step_candidates(local.and_utc().timestamp());
        let fo = |o: i32| FixedOffset::east_opt(o).unwrap();
        match c.len() {
            0 => MappedLocalTime::None,
            1 => MappedLocalTime::Single(fo(c[0])),
            _ => MappedLocalTime::Ambiguous(fo(c[0]), fo(c[1])),
        }
    }
    #[allow(deprecated)]
    fn offset_from_utc_date(&self, utc: &chrono::NaiveDate) -> FixedOffset {
        self.offset_from_utc_datetime(&utc.and_time(NaiveTime::MIN))
    }
    fn offset_from_utc_datetime(&self, utc: &chrono::NaiveDateTime) -> FixedOffset {
        FixedOffset::east_opt(step_off(utc.and_utc().timestamp())).unwrap()
    }
}


/// A constant-offset zone whose offset type is *not* `FixedOffset` and displays a zone name: what
/// `%Z` prints is the `Display` of the zone's own offset value, which only a user-defined zone (or
/// `Utc`) makes different from the numeric offset.
#[derive(Clone, Copy, Debug, PartialEq, Eq)]
pub struct NamedOff(pub i32);
pub const ZONE_NAME: &str = "NPT";
impl Offset for NamedOff {
    fn fix(&self) -> FixedOffset {
        FixedOffset::east_opt(self.0).expect("NamedOff in range")
    }
}
impl fmt::Display for NamedOff {
    fn fmt(&self, f: &mut fmt::Formatter) -> fmt::Result {
        f.write_str(ZONE_NAME)
    }
}
#[derive(Clone, Copy, Debug)]
pub struct NamedTz(pub i32);
impl TimeZone for NamedTz {
    type Offset = NamedOff;
    fn from_offset(o: &NamedOff) -> Self {
        NamedTz(o.0)
    }
    fn offset_from_local_date(&self, _: &NaiveDate) -> MappedLocalTime<NamedOff> {
        MappedLocalTime::Single(NamedOff(self.0))
    }
    fn offset_from_local_datetime(&self, _: &NaiveDateTime) -> MappedLocalTime<NamedOff> {
        MappedLocalTime::Single(NamedOff(self.0))
    }
    fn offset_from_utc_date(&self, _: &NaiveDate) -> NamedOff {
        NamedOff(self.0)
    }
    fn offset_from_utc_datetime(&self, _: &NaiveDateTime) -> NamedOff {
        NamedOff(self.0)
    }
}
