//! Boundary catalogues derived from the specification + random value generators.

use crate::refcal as rc;
use crate::refinst::RDt;
use crate::rng::Rng;

/// Interesting CE day numbers: range ends, year ends, Feb 28/29/Mar 1, the 14 year classes,
/// cycle edges, year 0/-1/1, ISO spill days, the epoch, i64-ns window ends, 0..=9999 window ends.
pub fn catalogue_days() -> Vec<i64> {
    let mut v = Vec::new();
    let mut years: Vec<i64> = vec![
        rc::MIN_YEAR, rc::MIN_YEAR + 1, rc::MAX_YEAR - 1, rc::MAX_YEAR, -10000, -9999, -1000, -401, -400, -399, -101, -100, -99, -5,
        -4, -3, -1, 0, 1, 2, 3, 4, 5, 99, 100, 101, 399, 400, 401, 999, 1000, 1582, 1600, 1677, 1678, 1699, 1700, 1799, 1800, 1899,
        1900, 1901, 1968, 1969, 1970, 1971, 1972, 1999, 2000, 2001, 2004, 2005, 2008, 2009, 2010, 2015, 2016, 2020, 2021, 2024,
        2026, 2037, 2038, 2069, 2070, 2099, 2100, 2101, 2261, 2262, 2263, 2400, 9998, 9999, 10000, 10001, 99999, 100000,
    ];
    // make sure all 14 year classes appear (Jan 1 weekday x leap), around 2000
    for y in 1990..2030 {
        years.push(y);
    }
    years.sort();
    years.dedup();
    for &y in &years {
        let leap = rc::is_leap(y);
        let mut mds: Vec<(i64, i64)> = vec![(1, 1), (1, 2), (1, 3), (1, 4), (1, 31), (2, 1), (2, 28), (3, 1), (3, 31), (4, 30), (6, 30), (7, 1), (8, 31), (12, 28), (12, 29), (12, 30), (12, 31)];
        if leap {
            mds.push((2, 29));
        }
        for (m, d) in mds {
            v.push(rc::day_number(y, m, d));
        }
    }
    for n in [rc::min_day(), rc::min_day() + 1, rc::min_day() + 2, rc::max_day() - 2, rc::max_day() - 1, rc::max_day(), 0, 1, rc::UNIX_EPOCH_DAY - 1, rc::UNIX_EPOCH_DAY, rc::UNIX_EPOCH_DAY + 1] {
        v.push(n);
    }
    // i64-ns window: 1677-09-21 .. 2262-04-11
    for (y, m, d) in [(1677, 9, 20), (1677, 9, 21), (1677, 9, 22), (2262, 4, 10), (2262, 4, 11), (2262, 4, 12)] {
        v.push(rc::day_number(y, m, d));
    }
    v.sort();
    v.dedup();
    v.retain(|n| rc::in_range_day(*n));
    v
}

/// Interesting seconds of day.
pub fn catalogue_secs() -> Vec<i64> {
    vec![0, 1, 59, 60, 61, 3599, 3600, 3601, 43199, 43200, 43201, 46799, 46800, 82799, 82800, 86339, 86340, 86341, 86398, 86399]
}

/// Interesting fractions (non-leap)
pub fn catalogue_fracs() -> Vec<i64> {
    vec![0, 1, 999, 1000, 1001, 999_999, 1_000_000, 1_000_001, 123_456_789, 500_000_000, 999_000_000, 999_999_000, 999_999_998, 999_999_999]
}

/// Offsets in seconds: 0, ±1, ±30, ±59/60/61, quarter hours, whole hours, ±86399
pub fn catalogue_offsets() -> Vec<i64> {
    let mut v = vec![0i64];
    for x in [1, 29, 30, 31, 59, 60, 61, 900, 1800, 2700, 3599, 3600, 3601, 5400, 12600, 16200, 19800, 20700, 28800, 34200, 37800, 43200, 45900, 46800, 50400, 64800, 86340, 86398, 86399] {
        v.push(x);
        v.push(-x);
    }
    v.sort();
    v
}

pub fn catalogue_i64() -> Vec<i64> {
    let mut v = vec![0, 1, -1, 2, -2, 7, -7, 59, 60, 61, 999, 1000, 1001, 86399, 86400, 86401, i64::MAX, i64::MAX - 1, i64::MIN, i64::MIN + 1];
    for p in [7, 8, 15, 16, 31, 32, 53, 62] {
        for k in -1..=1i64 {
            v.push((1i64 << p) + k);
            v.push(-(1i64 << p) + k);
        }
    }
    for t in [1_000i64, 1_000_000, 1_000_000_000, 1_000_000_000_000, 1_000_000_000_000_000, 1_000_000_000_000_000_000] {
        for k in -1..=1i64 {
            v.push(t + k);
            v.push(-t + k);
        }
    }
    for x in [i32::MAX as i64, i32::MIN as i64, u32::MAX as i64] {
        for k in -1..=1i64 {
            v.push(x + k);
        }
    }
    v.sort();
    v.dedup();
    v
}

/// Random in-range day number: half uniform over the whole range, rest near catalogue values /
/// modern years.
pub fn random_day(rng: &mut Rng, cat: &[i64]) -> i64 {
    match rng.below(10) {
        0..=3 => rng.range(rc::min_day(), rc::max_day()),
        4..=5 => (*rng.pick(cat) + rng.range(-3, 3)).clamp(rc::min_day(), rc::max_day()),
        6 => *rng.pick(cat),
        7 => rng.range(rc::day_number(1, 1, 1), rc::day_number(9999, 12, 31)),
        _ => rng.range(rc::day_number(1900, 1, 1), rc::day_number(2100, 12, 31)),
    }
}

pub fn random_secs(rng: &mut Rng) -> i64 {
    match rng.below(4) {
        0 => *rng.pick(&catalogue_secs_static()),
        _ => rng.range(0, 86_399),
    }
}

fn catalogue_secs_static() -> [i64; 20] {
    [0, 1, 59, 60, 61, 3599, 3600, 3601, 43199, 43200, 43201, 46799, 46800, 82799, 82800, 86339, 86340, 86341, 86398, 86399]
}

pub fn random_frac(rng: &mut Rng) -> i64 {
    match rng.below(6) {
        0 => 0,
        1 => *rng.pick(&[0i64, 1, 999, 1000, 999_999, 1_000_000, 500_000_000, 999_000_000, 999_999_000, 999_999_999]),
        2 => rng.range(0, 999) * 1_000_000,
        3 => rng.range(0, 999_999) * 1000,
        _ => rng.range(0, 999_999_999),
    }
}

/// Random non-leap in-range date-time
pub fn random_rdt(rng: &mut Rng, cat: &[i64]) -> RDt {
    RDt::new(random_day(rng, cat), random_secs(rng), random_frac(rng))
}

/// Random date-time; with probability 1/8 a leap-second representation (on any second whose
/// second-of-minute is 59 when `only_59`, else on any second).
pub fn random_rdt_leap(rng: &mut Rng, cat: &[i64], only_59: bool) -> RDt {
    let mut r = random_rdt(rng, cat);
    if rng.chance(1, 8) {
        if only_59 {
            r.secs = r.secs - r.secs % 60 + 59;
        }
        r.frac += 1_000_000_000;
    }
    r
}

pub fn random_offset(rng: &mut Rng, cat: &[i64]) -> i64 {
    match rng.below(4) {
        0 => *rng.pick(cat),
        1 => rng.range(-1439, 1439) * 60,
        _ => rng.range(-86_399, 86_399),
    }
}

/// Arbitrary (mostly valid) UTF-8 strings for hostile-input tests.
pub fn random_unicode(rng: &mut Rng, max_chars: usize) -> String {
    let n = rng.below(max_chars as u64 + 1) as usize;
    let mut s = String::new();
    for _ in 0..n {
        let c = match rng.below(12) {
            0..=4 => (0x20 + rng.below(0x5f) as u32) as u8 as char,
            5 => *rng.pick(&['0', '1', '2', '5', '9', ':', '-', '+', '.', ' ', 'T', 'Z', '%', '/', ',']),
            6 => *rng.pick(&['\u{2212}', '\u{a0}', '\u{ff11}', '\u{0660}', '\u{301}', '\u{200b}', '\u{feff}', '\t', '\n', '\r', '\0']),
            7 => char::from_u32(0x80 + rng.below(0x780) as u32).unwrap_or('?'),
            8 => char::from_u32(0x800 + rng.below(0xd000) as u32).unwrap_or('?'),
            9 => char::from_u32(0x10000 + rng.below(0xfffff) as u32).unwrap_or('?'),
            _ => (rng.below(128) as u8) as char,
        };
        s.push(c);
    }
    s
}

/// One character (two for the 2-byte leads) per possible UTF-8 lead byte 0xC2..=0xF4: text readers
/// that compare bytes with a wrong mask, or slice at a byte count, meet every lead byte this way.
pub fn lead_byte_chars() -> Vec<char> {
    let mut v = Vec::new();
    for lead in 0xC2u32..=0xDF {
        for low in [0x05u32, 0x3F] {
            v.extend(char::from_u32((lead & 0x1F) << 6 | low));
        }
    }
    for lead in 0xE0u32..=0xEF {
        let second = if lead == 0xE0 { 0x20 } else { 0x00 };
        v.extend(char::from_u32((lead & 0x0F) << 12 | second << 6 | 0x01));
    }
    for cp in [0x1_0000u32, 0x4_0000, 0x8_0000, 0xC_0000, 0x10_0000] {
        v.extend(char::from_u32(cp));
    }
    v
}
