//! R-cal: proleptic Gregorian reference calendar written from the specification, in i64,
//! using none of chrono's tables. Day numbers: 0001-01-01 = day 1 (so 0000-12-31 = day 0).
//! Weekday: 0 = Monday … 6 = Sunday.

pub const MIN_YEAR: i64 = -262143;
pub const MAX_YEAR: i64 = 262142;

pub fn is_leap(y: i64) -> bool {
    y.rem_euclid(4) == 0 && (y.rem_euclid(100) != 0 || y.rem_euclid(400) == 0)
}

pub fn days_in_year(y: i64) -> i64 {
    if is_leap(y) {
        366
    } else {
        365
    }
}

pub fn days_in_month(y: i64, m: i64) -> i64 {
    match m {
        1 | 3 | 5 | 7 | 8 | 10 | 12 => 31,
        4 | 6 | 9 | 11 => 30,
        2 => {
            if is_leap(y) {
                29
            } else {
                28
            }
        }
        _ => panic!("refcal: bad month {}", m),
    }
}

/// Number of days in all years before year y, counted from 0001-01-01 (may be negative).
pub fn days_before_year(y: i64) -> i64 {
    let p = y - 1;
    365 * p + p.div_euclid(4) - p.div_euclid(100) + p.div_euclid(400)
}

/// Does (y, m, d) denote a date of the proleptic Gregorian calendar?
pub fn valid_ymd(y: i64, m: i64, d: i64) -> bool {
    (1..=12).contains(&m) && d >= 1 && d <= days_in_month(y, m)
}

pub fn ordinal_of(y: i64, m: i64, d: i64) -> i64 {
    let mut o = d;
    for mm in 1..m {
        o += days_in_month(y, mm);
    }
    o
}

pub fn day_number(y: i64, m: i64, d: i64) -> i64 {
    days_before_year(y) + ordinal_of(y, m, d)
}

pub fn day_number_yo(y: i64, o: i64) -> i64 {
    days_before_year(y) + o
}

pub fn md_from_ordinal(y: i64, o: i64) -> (i64, i64) {
    let mut m = 1;
    let mut rest = o;
    loop {
        let dim = days_in_month(y, m);
        if rest <= dim {
            return (m, rest);
        }
        rest -= dim;
        m += 1;
    }
}

/// (year, ordinal) of a day number.
pub fn yo_from_days(n: i64) -> (i64, i64) {
    // estimate, then correct by stepping
    let mut y = (n as f64 / 365.2425).floor() as i64 + 1;
    while days_before_year(y) >= n {
        y -= 1;
    }
    while days_before_year(y + 1) < n {
        y += 1;
    }
    (y, n - days_before_year(y))
}

pub fn civil_from_days(n: i64) -> (i64, i64, i64) {
    let (y, o) = yo_from_days(n);
    let (m, d) = md_from_ordinal(y, o);
    (y, m, d)
}

/// 0 = Monday … 6 = Sunday. 0001-01-01 (day 1) is a Monday.
pub fn weekday(n: i64) -> i64 {
    (n - 1).rem_euclid(7)
}

/// ISO week date (iso_year, week, weekday 0=Mon) of day n: the Thursday of the same week decides
/// the ISO year; week number = (ordinal of that Thursday - 1) / 7 + 1.
pub fn iso_from_days(n: i64) -> (i64, i64, i64) {
    let wd = weekday(n);
    let thursday = n - wd + 3;
    let (iy, to) = yo_from_days(thursday);
    (iy, (to - 1) / 7 + 1, wd)
}

/// Number of ISO weeks of ISO year y: 53 iff Jan 1 is a Thursday, or a Wednesday in a leap year.
pub fn iso_weeks_in_year(y: i64) -> i64 {
    let jan1 = weekday(days_before_year(y) + 1);
    if jan1 == 3 || (jan1 == 2 && is_leap(y)) {
        53
    } else {
        52
    }
}

/// Day number of ISO (y, w, wd) if the week exists in that ISO year.
pub fn days_from_iso(y: i64, w: i64, wd: i64) -> Option<i64> {
    if w < 1 || w > iso_weeks_in_year(y) || !(0..=6).contains(&wd) {
        return None;
    }
    // Monday of week 1 = Monday of the week containing Jan 4
    let jan4 = days_before_year(y) + 4;
    let mon1 = jan4 - weekday(jan4);
    Some(mon1 + (w - 1) * 7 + wd)
}

pub fn min_day() -> i64 {
    day_number(MIN_YEAR, 1, 1)
}
pub fn max_day() -> i64 {
    day_number(MAX_YEAR, 12, 31)
}
pub fn in_range_day(n: i64) -> bool {
    n >= min_day() && n <= max_day()
}

pub const UNIX_EPOCH_DAY: i64 = 719_163;

/// Incremental walker: (y, m, d, ordinal, weekday, day number); `next()` is "+1 day" with
/// month/year roll-over. Independent of the closed forms above (cross-checked at run time).
#[derive(Clone, Copy, Debug, PartialEq, Eq)]
pub struct Walker {
    pub y: i64,
    pub m: i64,
    pub d: i64,
    pub o: i64,
    pub wd: i64,
    pub n: i64,
}

impl Walker {
    pub fn at_day(n: i64) -> Walker {
        let (y, o) = yo_from_days(n);
        let (m, d) = md_from_ordinal(y, o);
        Walker { y, m, d, o, wd: weekday(n), n }
    }
    pub fn next(&mut self) {
        self.n += 1;
        self.wd = (self.wd + 1) % 7;
        if self.d < days_in_month(self.y, self.m) {
            self.d += 1;
            self.o += 1;
        } else if self.m < 12 {
            self.m += 1;
            self.d = 1;
            self.o += 1;
        } else {
            self.y += 1;
            self.m = 1;
            self.d = 1;
            self.o = 1;
        }
    }
}

/// Oracle self-test: anchors + walker vs closed form. Returns Err(description) on failure.
pub fn self_test() -> Result<(), String> {
    let chk = |c: bool, s: &str| if c { Ok(()) } else { Err(format!("refcal self-test failed: {}", s)) };
    chk(day_number(1970, 1, 1) == 719_163, "1970-01-01 = 719163")?;
    chk(weekday(719_163) == 3, "1970-01-01 is a Thursday")?;
    chk(day_number(0, 12, 31) == 0, "0000-12-31 = day 0")?;
    chk(day_number(1, 1, 1) == 1 && weekday(1) == 0, "0001-01-01 = day 1, Monday")?;
    chk(weekday(day_number(2000, 3, 1)) == 2, "2000-03-01 is a Wednesday")?;
    chk(weekday(day_number(2024, 2, 29)) == 3, "2024-02-29 is a Thursday")?;
    chk(is_leap(2000) && !is_leap(1900) && is_leap(0) && !is_leap(-100) && is_leap(-400) && is_leap(-4), "leap rules")?;
    chk(iso_from_days(day_number(2005, 1, 1)) == (2004, 53, 5), "2005-01-01 = 2004-W53-6")?;
    chk(iso_from_days(day_number(2008, 12, 29)) == (2009, 1, 0), "2008-12-29 = 2009-W01-1")?;
    chk(iso_from_days(day_number(2010, 1, 3)) == (2009, 53, 6), "2010-01-03 = 2009-W53-7")?;
    chk(iso_weeks_in_year(2020) == 53 && iso_weeks_in_year(2021) == 52 && iso_weeks_in_year(2015) == 53, "53-week years")?;
    chk(civil_from_days(719_163) == (1970, 1, 1), "civil_from_days epoch")?;
    chk(civil_from_days(0) == (0, 12, 31), "civil_from_days 0")?;
    chk(civil_from_days(-365) == (0, 1, 1), "civil_from_days -365 (year 0 is leap)")?;
    // walker vs closed form over a few windows
    for start in [min_day(), -800_000, -400, 700_000, 730_000, max_day() - 3000] {
        let mut w = Walker::at_day(start);
        for _ in 0..3000 {
            let n = w.n;
            if n > max_day() + 10 {
                break;
            }
            let (y, m, d) = civil_from_days(n);
            chk((y, m, d) == (w.y, w.m, w.d), "walker == civil_from_days")?;
            chk(day_number(y, m, d) == n && ordinal_of(y, m, d) == w.o && weekday(n) == w.wd, "walker == closed form")?;
            let (iy, iw, iwd) = iso_from_days(n);
            chk(days_from_iso(iy, iw, iwd) == Some(n), "iso inverse")?;
            w.next();
        }
    }
    Ok(())
}
