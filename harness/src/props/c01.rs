//! C01 — calendar, ordinal, ISO-week and day-count forms of a date agree (exhaustive walk +
//! negative space of the four constructors), oracle: R-cal.

use crate::mon::{guard, h2, par_shards, Ctx, Local, Outcome, Report, Tier};
use crate::refcal as rc;
use crate::rng::Rng;
use chrono::{Datelike, NaiveDate, NaiveTime, TimeZone, Utc, Weekday};
use serde_json::json;
use std::collections::hash_map::DefaultHasher;
use std::hash::{Hash, Hasher};

const B: &[&str] = &[
    "class_A", "class_B", "class_C", "class_D", "class_E", "class_F", "class_G",
    "class_AG", "class_BA", "class_CB", "class_DC", "class_ED", "class_FE", "class_GF",
    "iso_weeks_53", "iso_weeks_52", "iso_spill_prev_year", "iso_spill_next_year",
    "negative_year", "year_zero", "range_min_end", "range_max_end", "leap_day",
    "none_month0", "none_month13", "none_day0", "none_day32", "none_feb29_common",
    "none_ord0", "none_ord366_common", "none_week0", "none_week53_of_52", "none_week54",
    "none_below_range", "none_above_range", "some_iso_year_outside_range",
    "daynum_below", "daynum_above", "datelike_via_datetime", "random_tuple_valid", "random_tuple_invalid", "deprecated_panicking_twins",
];
const FLOOR: &[&str] = &[
    "class_A", "class_B", "class_C", "class_D", "class_E", "class_F", "class_G",
    "class_AG", "class_BA", "class_CB", "class_DC", "class_ED", "class_FE", "class_GF",
    "iso_weeks_53", "iso_weeks_52", "iso_spill_prev_year", "iso_spill_next_year",
    "negative_year", "year_zero", "range_min_end", "range_max_end", "leap_day",
    "none_month0", "none_month13", "none_day0", "none_day32", "none_feb29_common",
    "none_ord0", "none_ord366_common", "none_week0", "none_week53_of_52", "none_week54",
    "none_below_range", "none_above_range", "some_iso_year_outside_range",
    "daynum_below", "daynum_above", "datelike_via_datetime", "random_tuple_valid", "random_tuple_invalid",
];

fn bi(name: &str) -> usize {
    B.iter().position(|n| *n == name).unwrap()
}

pub fn wd_of(i: i64) -> Weekday {
    match i {
        0 => Weekday::Mon,
        1 => Weekday::Tue,
        2 => Weekday::Wed,
        3 => Weekday::Thu,
        4 => Weekday::Fri,
        5 => Weekday::Sat,
        _ => Weekday::Sun,
    }
}

fn hash_of<T: Hash>(t: &T) -> u64 {
    let mut h = DefaultHasher::new();
    t.hash(&mut h);
    h.finish()
}

struct Idx {
    class0: usize,
    w53: usize,
    w52: usize,
    spill_prev: usize,
    spill_next: usize,
    neg: usize,
    zero: usize,
    min_end: usize,
    max_end: usize,
    leap_day: usize,
    via_dt: usize,
}

pub fn run(ctx: &Ctx) -> Outcome {
    let rep = Report::with_bitmap_bits("C01", B, FLOOR, 28);
    if let Err(e) = rc::self_test() {
        rep.harness_error(e);
        return rep.finish(ctx, "self-test failed", &[]);
    }
    walk_all_dates(ctx, &rep);
    negative_space(ctx, &rep);
    day_numbers_outside(ctx, &rep);
    random_tuples(ctx, &rep);
    deprecated_twins(ctx, &rep);
    rep.exhaustive.store(true, std::sync::atomic::Ordering::Relaxed);
    rep.set_extra("exhaustive_domain", json!("all 191,491,529 representable dates (day-number walk); constructor argument tuples are sampled (boundary cells per year + random)"));
    rep.finish(
        ctx,
        "every day number in [MIN,MAX] is visited by an incremental R-cal walker and compared with chrono's accessors and four constructors; per year the constructor cells (month,day)/(ordinal)/(week,weekday) are enumerated (boundary cells in quick, all in thorough) plus random i32/u32 tuples; a date is non-trivial if it is a month end/start, Feb 28/29, in an ISO spill week or within 400 days of a range end; distinct = distinct such dates/tuples (hashed bitmap, collisions under-count)",
        &["R-cal (harness/src/refcal.rs) is correct: self-tested against fixed anchors and walker-vs-closed-form at start of every run"],
    )
}

/// The deprecated panicking twins (`from_ymd`, `from_yo`, `from_isoywd`, `from_num_days_from_ce`,
/// `succ`, `pred`): the same date as the `_opt` form where that gives one, a panic where it gives none.
#[allow(deprecated)]
fn deprecated_twins(ctx: &Ctx, rep: &Report) {
    let bk = bi("deprecated_panicking_twins");
    let cat = crate::gen::catalogue_days();
    let n_shards = 64usize;
    let per = ctx.n(40_000, 4_000_000) / n_shards as u64;
    par_shards(rep, ctx.threads, n_shards, |shard| {
        let mut rng = Rng::new(ctx.seed, "C01/deprecated", shard as u64);
        let mut loc = rep.local();
        for _ in 0..per {
            let n = crate::gen::random_day(&mut rng, &cat);
            let Some(d) = NaiveDate::from_num_days_from_ce_opt(n as i32) else { continue };
            let (y, m, dd) = rc::civil_from_days(n);
            let o = rc::ordinal_of(y, m, dd);
            let (iy, iw, wd) = rc::iso_from_days(n);
            loc.eval();
            loc.bucket(bk);
            type Twin<'a> = (&'static str, Box<dyn Fn() -> NaiveDate + 'a>, Option<NaiveDate>);
            let mut twins: Vec<Twin> = vec![
                ("from_ymd", Box::new(move || NaiveDate::from_ymd(y as i32, m as u32, dd as u32)), Some(d)),
                ("from_yo", Box::new(move || NaiveDate::from_yo(y as i32, o as u32)), Some(d)),
                ("from_num_days_from_ce", Box::new(move || NaiveDate::from_num_days_from_ce(n as i32)), Some(d)),
                ("succ", Box::new(move || d.succ()), d.succ_opt()),
                ("pred", Box::new(move || d.pred()), d.pred_opt()),
            ];
            if i32::try_from(iy).is_ok() {
                twins.push(("from_isoywd", Box::new(move || NaiveDate::from_isoywd(iy as i32, iw as u32, wd_of(wd))), Some(d)));
            }
            // a neighbouring tuple that denotes no date must panic, not produce one
            let (bm, bd) = match rng.below(4) {
                0 => (m, rc::days_in_month(y, m) + 1),
                1 => (13, dd),
                2 => (m, 0),
                _ => (0, dd),
            };
            twins.push(("from_ymd", Box::new(move || NaiveDate::from_ymd(y as i32, bm as u32, bd as u32)), None));
            for (name, f, exp) in twins {
                let got = guard(|| f()).ok();
                if got != exp {
                    loc.violation(
                        &format!("C01/deprecated-{}/differs-from-the-opt-form", name),
                        json!({"date": [y, m, dd], "day_number": n, "expected": exp.map(|e| e.to_string()), "observed": got.map(|e| e.to_string()).unwrap_or_else(|| "panic".into())}),
                    );
                }
            }
            // the deprecated zone-aware date type `Date<Tz>` is a date too: its order and equality are
            // those of the day numbers, its accessors and successor those of the date it wraps
            {
                use chrono::{Datelike, FixedOffset, TimeZone, Utc};
                let n2 = if rng.below(2) == 0 { n + rng.below(5) as i64 - 2 } else { crate::gen::random_day(&mut rng, &cat) };
                if let Some(d2) = NaiveDate::from_num_days_from_ce_opt(n2 as i32) {
                    let got = guard(|| {
                        let (a, b) = (Utc.from_utc_date(&d), Utc.from_utc_date(&d2));
                        let fo = FixedOffset::east_opt(3600).unwrap();
                        let (fa, fb) = (fo.from_utc_date(&d), fo.from_utc_date(&d2));
                        (
                            [a.cmp(&b), fa.cmp(&fb), a.partial_cmp(&b).unwrap(), fa.partial_cmp(&fb).unwrap()],
                            [a == b, fa == fb, a == fb],
                            [a < b, a > b, a <= b, a >= b],
                            (a.year(), a.month(), a.day(), a.ordinal(), a.weekday(), a.iso_week(), a.num_days_from_ce()),
                            (a.succ_opt().map(|x| x.naive_utc()), a.pred_opt().map(|x| x.naive_utc()), fa.naive_utc()),
                        )
                    });
                    loc.eval();
                    match got {
                        Err(p) => loc.violation(&format!("C01/deprecated-Date<Tz>/panic@{}", p.site()), json!({"dates": [d.to_string(), d2.to_string()]})),
                        Ok((ords, eqs, rel, acc, nb)) => {
                            let e = n.cmp(&n2);
                            let ok = ords.iter().all(|o| *o == e)
                                && eqs.iter().all(|q| *q == (n == n2))
                                && rel == [n < n2, n > n2, n <= n2, n >= n2]
                                && acc == (d.year(), d.month(), d.day(), d.ordinal(), d.weekday(), d.iso_week(), d.num_days_from_ce())
                                && nb == (d.succ_opt(), d.pred_opt(), d);
                            if !ok {
                                loc.violation(
                                    "C01/deprecated-Date<Tz>/order-or-accessors-differ-from-the-date",
                                    json!({"dates": [d.to_string(), d2.to_string()], "day_numbers": [n, n2], "observed_order": format!("{:?}", ords), "observed_eq": format!("{:?}", eqs), "observed_relations": format!("{:?}", rel)}),
                                );
                            }
                        }
                    }
                }
            }
            loc.nontrivial(crate::mon::h2(77, n as u64));
        }
    });
}

fn walk_all_dates(ctx: &Ctx, rep: &Report) {
    let min = rc::min_day();
    let max = rc::max_day();
    let total = max - min + 1;
    let n_shards = 512usize;
    let per = (total + n_shards as i64 - 1) / n_shards as i64;
    let idx = Idx {
        class0: bi("class_A"),
        w53: bi("iso_weeks_53"),
        w52: bi("iso_weeks_52"),
        spill_prev: bi("iso_spill_prev_year"),
        spill_next: bi("iso_spill_next_year"),
        neg: bi("negative_year"),
        zero: bi("year_zero"),
        min_end: bi("range_min_end"),
        max_end: bi("range_max_end"),
        leap_day: bi("leap_day"),
        via_dt: bi("datelike_via_datetime"),
    };
    let visited = std::sync::atomic::AtomicU64::new(0);
    par_shards(rep, ctx.threads, n_shards, |shard| {
        let lo = min + per * shard as i64;
        let hi = (lo + per - 1).min(max);
        if lo > hi {
            return;
        }
        let mut loc = rep.local();
        let mut w = rc::Walker::at_day(lo);
        // cross-check walker start against the closed form
        if rc::day_number(w.y, w.m, w.d) != lo {
            rep.harness_error("walker start mismatch");
            return;
        }
        let mut dby = rc::days_before_year(w.y);
        let mut dby_next = rc::days_before_year(w.y + 1);
        let mut prev: Option<NaiveDate> = if lo > min { NaiveDate::from_num_days_from_ce_opt((lo - 1) as i32) } else { None };
        let mut count = 0u64;
        loop {
            let n = w.n;
            // ISO week date from the walker state (Thursday rule)
            let thursday = n - w.wd + 3;
            let iso_year = if thursday <= dby {
                w.y - 1
            } else if thursday > dby_next {
                w.y + 1
            } else {
                w.y
            };
            let iso_dby = if iso_year == w.y {
                dby
            } else if iso_year == w.y + 1 {
                dby_next
            } else {
                dby - rc::days_in_year(w.y - 1)
            };
            let iso_week = (thursday - iso_dby - 1) / 7 + 1;
            let r = guard(|| check_date(&mut loc, &idx, &w, iso_year, iso_week, prev, min, max));
            match r {
                Ok(d) => prev = d,
                Err(p) => {
                    loc.violation(
                        &format!("C01/walk/panic@{}", p.site()),
                        json!({"entry": "accessors/constructors of one date", "day_number": n, "ymd": [w.y, w.m, w.d], "panic": p.to_json()}),
                    );
                    prev = None;
                }
            }
            count += 1;
            if n == hi {
                break;
            }
            let y_before = w.y;
            w.next();
            if w.y != y_before {
                dby = dby_next;
                dby_next = dby + rc::days_in_year(w.y);
            }
        }
        // cross-check walker end against closed form (oracle self-check)
        if rc::civil_from_days(hi) != (w.y, w.m, w.d) || rc::weekday(hi) != w.wd {
            rep.harness_error(format!("walker end mismatch at {}", hi));
        }
        visited.fetch_add(count, std::sync::atomic::Ordering::Relaxed);
    });
    let v = visited.load(std::sync::atomic::Ordering::Relaxed);
    rep.set_extra("dates_walked", json!(v));
    if v != total as u64 {
        rep.harness_error(format!("walk visited {} of {} dates", v, total));
    }
    let _ = Tier::Quick;
}

#[allow(clippy::too_many_arguments)]
#[inline]
fn check_date(
    loc: &mut Local,
    idx: &Idx,
    w: &rc::Walker,
    iso_year: i64,
    iso_week: i64,
    prev: Option<NaiveDate>,
    min: i64,
    max: i64,
) -> Option<NaiveDate> {
    let n = w.n;
    loc.eval();
    let d = match NaiveDate::from_num_days_from_ce_opt(n as i32) {
        Some(d) => d,
        None => {
            loc.violation("C01/from_num_days_from_ce_opt/none-in-range", json!({"input": n, "expected": [w.y, w.m, w.d]}));
            return None;
        }
    };
    let iw = d.iso_week();
    let ok = d.year() as i64 == w.y
        && d.month() as i64 == w.m
        && d.day() as i64 == w.d
        && d.ordinal() as i64 == w.o
        && d.month0() as i64 == w.m - 1
        && d.day0() as i64 == w.d - 1
        && d.ordinal0() as i64 == w.o - 1
        && d.weekday().num_days_from_monday() as i64 == w.wd
        && d.num_days_from_ce() as i64 == n
        && iw.year() as i64 == iso_year
        && iw.week() as i64 == iso_week
        && iw.week0() as i64 == iso_week - 1
        && d.leap_year() == rc::is_leap(w.y)
        && d.year_ce() == if w.y >= 1 { (true, w.y as u32) } else { (false, (1 - w.y) as u32) };
    if !ok {
        loc.violation(
            "C01/accessors/mismatch",
            json!({"day_number": n, "expected": {"ymd": [w.y, w.m, w.d], "ordinal": w.o, "weekday_from_mon": w.wd, "iso": [iso_year, iso_week]},
                   "observed": {"ymd": [d.year(), d.month(), d.day()], "ordinal": d.ordinal(), "weekday": format!("{:?}", d.weekday()), "iso": [iw.year() as i64, iw.week() as i64], "num_days_from_ce": d.num_days_from_ce(), "leap": d.leap_year()}}),
        );
    }
    // the three other constructors on the reference tuples
    let a = NaiveDate::from_ymd_opt(w.y as i32, w.m as u32, w.d as u32);
    let b = NaiveDate::from_yo_opt(w.y as i32, w.o as u32);
    let c = NaiveDate::from_isoywd_opt(iso_year as i32, iso_week as u32, wd_of(w.wd));
    if a != Some(d) {
        loc.violation("C01/from_ymd_opt/wrong-date", json!({"input": [w.y, w.m, w.d], "expected_day_number": n, "observed": format!("{:?}", a)}));
    }
    if b != Some(d) {
        loc.violation("C01/from_yo_opt/wrong-date", json!({"input": [w.y, w.o], "expected_day_number": n, "observed": format!("{:?}", b)}));
    }
    if c != Some(d) {
        loc.violation("C01/from_isoywd_opt/wrong-date", json!({"input": [iso_year, iso_week, w.wd], "expected_day_number": n, "observed": format!("{:?}", c)}));
    }
    // order, succession
    if let Some(p) = prev {
        let piw = p.iso_week();
        let same_week = w.wd != 0; // Monday starts a new ISO week
        let ord_ok = p < d && d > p && p != d && p.cmp(&d) == std::cmp::Ordering::Less;
        let iso_ok = if same_week { piw == iw && piw.cmp(&iw) == std::cmp::Ordering::Equal } else { piw < iw };
        if !ord_ok || !iso_ok {
            loc.violation("C01/order/mismatch", json!({"day_number": n, "prev": p.to_string(), "this": d.to_string(), "date_order_ok": ord_ok, "iso_week_order_ok": iso_ok}));
        }
        if p.succ_opt() != Some(d) || d.pred_opt() != Some(p) || p.weekday().succ() != d.weekday() {
            loc.violation("C01/succ_pred/mismatch", json!({"day_number": n, "prev": p.to_string(), "prev.succ": format!("{:?}", p.succ_opt()), "this.pred": format!("{:?}", d.pred_opt())}));
        }
    }
    if n == min && d.pred_opt().is_some() {
        loc.violation("C01/pred_opt/some-at-min", json!({"day_number": n}));
    }
    if n == max && d.succ_opt().is_some() {
        loc.violation("C01/succ_opt/some-at-max", json!({"day_number": n}));
    }
    if n == min && d != NaiveDate::MIN || n == max && d != NaiveDate::MAX {
        loc.violation("C01/MIN_MAX/mismatch", json!({"day_number": n}));
    }
    // buckets / non-trivial
    let dim = rc::days_in_month(w.y, w.m);
    let spill = iso_year != w.y;
    let near_end = n - min < 400 || max - n < 400;
    let nontrivial = w.d == 1 || w.d == dim || (w.m == 2 && w.d >= 28) || spill || near_end;
    if nontrivial {
        loc.nontrivial(n as u64);
    }
    if w.o == 1 {
        // year class: weekday of Jan 1 x leap
        loc.bucket(idx.class0 + w.wd as usize + if rc::is_leap(w.y) { 7 } else { 0 });
        if rc::iso_weeks_in_year(w.y) == 53 {
            loc.bucket(idx.w53)
        } else {
            loc.bucket(idx.w52)
        }
        if w.y < 0 {
            loc.bucket(idx.neg)
        }
        if w.y == 0 {
            loc.bucket(idx.zero)
        }
    }
    if spill {
        loc.bucket(if iso_year < w.y { idx.spill_prev } else { idx.spill_next });
    }
    if n == min {
        loc.bucket(idx.min_end)
    }
    if n == max {
        loc.bucket(idx.max_end)
    }
    if w.m == 2 && w.d == 29 {
        loc.bucket(idx.leap_day)
    }
    // Eq/Hash consistency and the Datelike route through NaiveDateTime / DateTime<Utc> (sampled)
    if n % 997 == 0 || nontrivial && n % 13 == 0 {
        loc.bucket(idx.via_dt);
        if let Some(a) = a {
            if hash_of(&a) != hash_of(&d) {
                loc.violation("C01/hash/mismatch", json!({"day_number": n}));
            }
        }
        let ndt = d.and_time(NaiveTime::from_hms_opt(13, 14, 15).unwrap());
        let udt = Utc.from_utc_datetime(&ndt);
        let qexp = ((w.m - 1) / 3 + 1) as u32;
        let t_ok = |y: i32, m: u32, dd: u32, o: u32, wd: Weekday, iwk: chrono::IsoWeek, ndays: i32, yce: (bool, u32), q: u32| {
            y as i64 == w.y && m as i64 == w.m && dd as i64 == w.d && o as i64 == w.o && wd == wd_of(w.wd) && iwk == iw && ndays as i64 == n
                && yce == if w.y >= 1 { (true, w.y as u32) } else { (false, (1 - w.y) as u32) } && q == qexp
        };
        if !t_ok(ndt.year(), ndt.month(), ndt.day(), ndt.ordinal(), ndt.weekday(), ndt.iso_week(), ndt.num_days_from_ce(), ndt.year_ce(), ndt.quarter()) {
            loc.violation("C01/Datelike-for-NaiveDateTime/mismatch", json!({"day_number": n, "value": ndt.to_string()}));
        }
        if !t_ok(udt.year(), udt.month(), udt.day(), udt.ordinal(), udt.weekday(), udt.iso_week(), udt.num_days_from_ce(), udt.year_ce(), udt.quarter()) {
            loc.violation("C01/Datelike-for-DateTime<Utc>/mismatch", json!({"day_number": n, "value": udt.to_string()}));
        }
        if d.quarter() != qexp {
            loc.violation("C01/quarter/mismatch", json!({"day_number": n}));
        }
        loc.sample(|| json!({"day_number": n, "ymd": [w.y, w.m, w.d], "ordinal": w.o, "weekday_from_monday": w.wd, "iso": [iso_year, iso_week], "chrono": d.to_string()}));
    }
    Some(d)
}

/// Expected result of from_ymd_opt per R-cal: Some(day number) iff the tuple denotes a date in range.
fn exp_ymd(y: i64, m: i64, d: i64) -> Option<i64> {
    if y < rc::MIN_YEAR || y > rc::MAX_YEAR || !rc::valid_ymd(y, m, d) {
        None
    } else {
        Some(rc::day_number(y, m, d))
    }
}
fn exp_yo(y: i64, o: i64) -> Option<i64> {
    if y < rc::MIN_YEAR || y > rc::MAX_YEAR || o < 1 || o > rc::days_in_year(y) {
        None
    } else {
        Some(rc::day_number_yo(y, o))
    }
}
fn exp_iso(y: i64, w: i64, wd: i64) -> Option<i64> {
    // the ISO year may be one outside the range and still reach into it
    if y < rc::MIN_YEAR - 1 || y > rc::MAX_YEAR + 1 {
        return None;
    }
    rc::days_from_iso(y, w, wd).filter(|n| rc::in_range_day(*n))
}

fn cmp_ctor(loc: &mut Local, entry: &str, input: serde_json::Value, got: Option<NaiveDate>, exp: Option<i64>) {
    loc.eval();
    let got_n = got.map(|d| d.num_days_from_ce() as i64);
    // cross-check the returned date through the day-number constructor too
    let consistent = match (got, exp) {
        (Some(d), Some(n)) => NaiveDate::from_num_days_from_ce_opt(n as i32) == Some(d),
        _ => true,
    };
    if got_n != exp || !consistent {
        let kind = match (got_n, exp) {
            (Some(_), None) => "some-for-nonexistent-or-out-of-range",
            (None, Some(_)) => "none-for-valid",
            _ => "wrong-date",
        };
        loc.violation(
            &format!("C01/{}/{}", entry, kind),
            json!({"entry": entry, "input": input, "expected_day_number": exp, "observed": got.map(|d| d.to_string()), "observed_day_number": got_n}),
        );
    }
}

fn negative_space(ctx: &Ctx, rep: &Report) {
    let full = ctx.tier == Tier::Thorough;
    let months: Vec<i64> = if full { (0..=13).collect() } else { vec![0, 1, 2, 12, 13] };
    let days: Vec<i64> = if full { (0..=32).collect() } else { vec![0, 1, 28, 29, 30, 31, 32] };
    let ords: Vec<i64> = if full { (0..=367).collect() } else { vec![0, 1, 59, 60, 61, 365, 366, 367] };
    let weeks: Vec<i64> = if full { (0..=54).collect() } else { vec![0, 1, 52, 53, 54] };
    let y_lo = rc::MIN_YEAR - 3;
    let y_hi = rc::MAX_YEAR + 3;
    let n_years = y_hi - y_lo + 1;
    let n_shards = 256usize;
    let per = (n_years + n_shards as i64 - 1) / n_shards as i64;
    let (b_m0, b_m13, b_d0, b_d32, b_f29, b_o0, b_o366, b_w0, b_w53, b_w54, b_below, b_above, b_isoout) = (
        bi("none_month0"), bi("none_month13"), bi("none_day0"), bi("none_day32"), bi("none_feb29_common"), bi("none_ord0"),
        bi("none_ord366_common"), bi("none_week0"), bi("none_week53_of_52"), bi("none_week54"), bi("none_below_range"),
        bi("none_above_range"), bi("some_iso_year_outside_range"),
    );
    par_shards(rep, ctx.threads, n_shards, |shard| {
        let mut loc = rep.local();
        let lo = y_lo + per * shard as i64;
        let hi = (lo + per - 1).min(y_hi);
        for y in lo..=hi {
            let yi = y as i32;
            let leap = rc::is_leap(y);
            let below = y < rc::MIN_YEAR;
            let above = y > rc::MAX_YEAR;
            for &m in &months {
                for &d in &days {
                    let exp = exp_ymd(y, m, d);
                    let got = guard(|| NaiveDate::from_ymd_opt(yi, m as u32, d as u32));
                    match got {
                        Ok(g) => cmp_ctor(&mut loc, "from_ymd_opt", json!([y, m, d]), g, exp),
                        Err(p) => loc.violation(&format!("C01/from_ymd_opt/panic@{}", p.site()), json!({"input": [y, m, d], "panic": p.to_json()})),
                    }
                    if exp.is_none() {
                        if below {
                            loc.bucket(b_below)
                        } else if above {
                            loc.bucket(b_above)
                        } else if m == 0 {
                            loc.bucket(b_m0)
                        } else if m == 13 {
                            loc.bucket(b_m13)
                        } else if d == 0 {
                            loc.bucket(b_d0)
                        } else if d == 32 {
                            loc.bucket(b_d32)
                        } else if m == 2 && d == 29 && !leap {
                            loc.bucket(b_f29)
                        }
                        loc.nontrivial(h2(1, h2(y as u64, (m * 64 + d) as u64)));
                    }
                }
            }
            for &o in &ords {
                let exp = exp_yo(y, o);
                match guard(|| NaiveDate::from_yo_opt(yi, o as u32)) {
                    Ok(g) => cmp_ctor(&mut loc, "from_yo_opt", json!([y, o]), g, exp),
                    Err(p) => loc.violation(&format!("C01/from_yo_opt/panic@{}", p.site()), json!({"input": [y, o], "panic": p.to_json()})),
                }
                if exp.is_none() {
                    if o == 0 {
                        loc.bucket(b_o0)
                    } else if o == 366 && !leap && !below && !above {
                        loc.bucket(b_o366)
                    }
                    loc.nontrivial(h2(2, h2(y as u64, o as u64)));
                }
            }
            let nw = rc::iso_weeks_in_year(y);
            for &wk in &weeks {
                for wd in 0..7 {
                    let exp = exp_iso(y, wk, wd);
                    match guard(|| NaiveDate::from_isoywd_opt(yi, wk as u32, wd_of(wd))) {
                        Ok(g) => cmp_ctor(&mut loc, "from_isoywd_opt", json!([y, wk, wd]), g, exp),
                        Err(p) => loc.violation(&format!("C01/from_isoywd_opt/panic@{}", p.site()), json!({"input": [y, wk, wd], "panic": p.to_json()})),
                    }
                    if exp.is_none() {
                        if wk == 0 {
                            loc.bucket(b_w0)
                        } else if wk == 53 && nw == 52 && !below && !above {
                            loc.bucket(b_w53)
                        } else if wk == 54 {
                            loc.bucket(b_w54)
                        }
                        loc.nontrivial(h2(3, h2(y as u64, (wk * 8 + wd) as u64)));
                    } else if below || above {
                        loc.bucket(b_isoout);
                        loc.nontrivial(h2(3, h2(y as u64, (wk * 8 + wd) as u64)));
                    }
                }
            }
        }
    });
}

fn day_numbers_outside(_ctx: &Ctx, rep: &Report) {
    let mut loc = rep.local();
    let min = rc::min_day();
    let max = rc::max_day();
    let (b_lo, b_hi) = (bi("daynum_below"), bi("daynum_above"));
    let mut cands: Vec<i64> = Vec::new();
    cands.extend(min - 2000..min);
    cands.extend(max + 1..=max + 2000);
    for k in 0..2000i64 {
        cands.push(i32::MIN as i64 + k);
        cands.push(i32::MAX as i64 - k);
    }
    for p in 27..31 {
        for k in -2..=2i64 {
            cands.push((1i64 << p) + k);
            cands.push(-(1i64 << p) + k);
        }
    }
    for n in cands {
        if n < i32::MIN as i64 || n > i32::MAX as i64 {
            continue;
        }
        let exp = if rc::in_range_day(n) { Some(n) } else { None };
        match guard(|| NaiveDate::from_num_days_from_ce_opt(n as i32)) {
            Ok(g) => cmp_ctor(&mut loc, "from_num_days_from_ce_opt", json!(n), g, exp),
            Err(p) => loc.violation(&format!("C01/from_num_days_from_ce_opt/panic@{}", p.site()), json!({"input": n, "panic": p.to_json()})),
        }
        if exp.is_none() {
            loc.bucket(if n < min { b_lo } else { b_hi });
            loc.nontrivial(h2(4, n as u64));
        }
    }
}

fn random_tuples(ctx: &Ctx, rep: &Report) {
    let total = ctx.n(2_000_000, 40_000_000);
    let n_shards = 64usize;
    let per = total / n_shards as u64;
    let (b_valid, b_invalid) = (bi("random_tuple_valid"), bi("random_tuple_invalid"));
    let i32s: [i64; 14] = [
        i32::MIN as i64, i32::MIN as i64 + 1, i32::MIN as i64 + 2, -262145, -262144, -262143, -1, 0, 1, 262142, 262143, 262144,
        i32::MAX as i64 - 1, i32::MAX as i64,
    ];
    let u32s: [i64; 12] = [0, 1, 2, 12, 13, 28, 31, 32, 255, 256, u32::MAX as i64 - 1, u32::MAX as i64];
    par_shards(rep, ctx.threads, n_shards, |shard| {
        let mut rng = Rng::new(ctx.seed, "C01/random", shard as u64);
        let mut loc = rep.local();
        let year = |rng: &mut Rng| -> i64 {
            match rng.below(10) {
                0..=2 => *rng.pick(&i32s),
                3..=5 => rng.range(rc::MIN_YEAR - 5, rc::MAX_YEAR + 5),
                6 => rng.range(-3, 10000),
                7 => *rng.pick(&i32s) + rng.range(-3, 3),
                _ => rng.next() as i32 as i64,
            }
        };
        let small = |rng: &mut Rng, hi: i64| -> i64 {
            match rng.below(10) {
                0..=1 => *rng.pick(&u32s),
                2..=7 => rng.range(0, hi + 2),
                8 => (1i64 << 32) - 1 - rng.range(0, 40),
                _ => rng.next() as u32 as i64,
            }
        };
        for _ in 0..per {
            let y = year(&mut rng).clamp(i32::MIN as i64, i32::MAX as i64);
            match rng.below(4) {
                0 => {
                    let (m, d) = (small(&mut rng, 12), small(&mut rng, 31));
                    let exp = exp_ymd(y, m, d);
                    match guard(|| NaiveDate::from_ymd_opt(y as i32, m as u32, d as u32)) {
                        Ok(g) => cmp_ctor(&mut loc, "from_ymd_opt", json!([y, m, d]), g, exp),
                        Err(p) => loc.violation(&format!("C01/from_ymd_opt/panic@{}", p.site()), json!({"input": [y, m, d], "panic": p.to_json()})),
                    }
                    loc.bucket(if exp.is_some() { b_valid } else { b_invalid });
                    loc.nontrivial(h2(5, h2(y as u64, h2(m as u64, d as u64))));
                }
                1 => {
                    let o = small(&mut rng, 366);
                    let exp = exp_yo(y, o);
                    match guard(|| NaiveDate::from_yo_opt(y as i32, o as u32)) {
                        Ok(g) => cmp_ctor(&mut loc, "from_yo_opt", json!([y, o]), g, exp),
                        Err(p) => loc.violation(&format!("C01/from_yo_opt/panic@{}", p.site()), json!({"input": [y, o], "panic": p.to_json()})),
                    }
                    loc.bucket(if exp.is_some() { b_valid } else { b_invalid });
                    loc.nontrivial(h2(6, h2(y as u64, o as u64)));
                }
                2 => {
                    let wk = small(&mut rng, 53);
                    let wd = rng.range(0, 6);
                    let exp = exp_iso(y, wk, wd);
                    match guard(|| NaiveDate::from_isoywd_opt(y as i32, wk as u32, wd_of(wd))) {
                        Ok(g) => cmp_ctor(&mut loc, "from_isoywd_opt", json!([y, wk, wd]), g, exp),
                        Err(p) => loc.violation(&format!("C01/from_isoywd_opt/panic@{}", p.site()), json!({"input": [y, wk, wd], "panic": p.to_json()})),
                    }
                    loc.bucket(if exp.is_some() { b_valid } else { b_invalid });
                    loc.nontrivial(h2(7, h2(y as u64, h2(wk as u64, wd as u64))));
                }
                _ => {
                    let n = match rng.below(3) {
                        0 => rng.range(rc::min_day() - 5000, rc::max_day() + 5000),
                        1 => rng.next() as i32 as i64,
                        _ => y,
                    };
                    let exp = if rc::in_range_day(n) { Some(n) } else { None };
                    match guard(|| NaiveDate::from_num_days_from_ce_opt(n as i32)) {
                        Ok(g) => cmp_ctor(&mut loc, "from_num_days_from_ce_opt", json!(n), g, exp),
                        Err(p) => loc.violation(&format!("C01/from_num_days_from_ce_opt/panic@{}", p.site()), json!({"input": n, "panic": p.to_json()})),
                    }
                    loc.bucket(if exp.is_some() { b_valid } else { b_invalid });
                    loc.nontrivial(h2(8, n as u64));
                }
            }
        }
    });
}
