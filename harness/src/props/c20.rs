//! C20 — serialized forms deserialize to the same value (serde feature): identity of every
//! serializable type through serde_json (self-describing) and bincode (positional); the sixteen
//! timestamp helper modules write the exact floor count (i128 oracle), read integers back through
//! visit_i64 / visit_u64 at the module's precision and reject out-of-range integers by value.
//! Oracles: R-cal / R-inst (i128 nanoseconds), nothing taken from chrono's own conversions.

use crate::gen;
use crate::mon::{guard, h2, par_shards, Ctx, Local as Loc, Outcome, Report};
use crate::refcal as rc;
use crate::refinst::{self as ri, RDt};
use crate::rng::Rng;
use chrono::{DateTime, FixedOffset, Local, Month, NaiveDate, NaiveDateTime, NaiveTime, TimeDelta, TimeZone, Utc, Weekday};
use serde::de::{self, DeserializeOwned, Deserializer, Visitor};
use serde::{Deserialize, Serialize};
use serde_json::{json, Value};

const B: &[&str] = &[
    "weekday", "month",
    "date_year_0_9999", "date_neg_year", "date_big_year", "date_range_end",
    "time_whole_second", "time_frac_ms", "time_frac_us", "time_frac_ns", "time_leap",
    "ndt_plain", "ndt_leap", "ndt_neg_year", "ndt_big_year", "ndt_range_end",
    "dtu", "dtu_to_fixed", "dtf_zero_offset", "dtf_whole_minute", "dtf_sub_minute", "dtf_to_utc",
    "dtf_wall_outside_range", "dtf_headroom_inside", "dt_leap", "dt_range_end_exact", "dt_all_whole_minute_offsets",
    "local",
    "td_zero", "td_negative_fraction", "td_range_end", "td_random", "td_pair_in_range", "td_pair_out_of_range",
    "td_pair_bad_nanos", "td_pair_range_edge",
    "ts_ser_s", "ts_ser_ms", "ts_ser_us", "ts_ser_ns", "ts_ser_pre_epoch_fraction", "ts_ser_ns_outside_i64_window",
    "ts_ser_ns_window_edge", "ts_ser_range_end", "ts_ser_leap", "ts_ser_none", "ts_ser_json", "ts_ser_bincode",
    "ts_ser_naive", "ts_ser_utc", "ts_ser_option",
    "feed_s_i64", "feed_s_u64", "feed_ms_i64", "feed_ms_u64", "feed_us_i64", "feed_us_u64", "feed_ns_i64", "feed_ns_u64",
    "feed_in_range_negative", "feed_in_range_nonnegative", "feed_below_range", "feed_above_range",
    "feed_negative_nonmultiple", "feed_range_end_exact", "feed_range_end_outside_by_one", "feed_u64_above_i64_max",
    "feed_ns_u64_above_i64_max_in_range", "feed_json", "feed_bincode", "feed_direct", "feed_none", "feed_option_some",
    "feed_naive", "feed_utc", "local_zone_not_utc",
];
// every bucket is reached by the deterministic (catalogue) part of the workload
const FLOOR: &[&str] = B;

fn bi(name: &str) -> usize {
    B.iter().position(|n| *n == name).unwrap_or_else(|| panic!("c20: unknown bucket {}", name))
}

// ------------------------------------------------------------------------------------------------
// formats
// ------------------------------------------------------------------------------------------------

#[derive(Clone, Copy, PartialEq, Eq, Debug)]
enum Fmt {
    Json,
    Bin,
}
const FMTS: [Fmt; 2] = [Fmt::Json, Fmt::Bin];

impl Fmt {
    fn name(self) -> &'static str {
        match self {
            Fmt::Json => "serde_json",
            Fmt::Bin => "bincode",
        }
    }
}

#[derive(Clone, PartialEq, Eq, Debug)]
enum Enc {
    Json(String),
    Bin(Vec<u8>),
}

impl Enc {
    fn show(&self) -> Value {
        match self {
            Enc::Json(s) => json!(s),
            Enc::Bin(b) => {
                let hex: String = b.iter().map(|x| format!("{:02x}", x)).collect();
                // bincode strings: 8-byte length + utf-8; show the text too when it is one
                let text = if b.len() >= 8 { std::str::from_utf8(&b[8..]).ok().filter(|t| t.chars().all(|c| !c.is_control())) } else { None };
                json!({"hex": hex, "text_after_length_prefix": text})
            }
        }
    }
}

fn encode<T: Serialize>(f: Fmt, v: &T) -> Result<Enc, String> {
    match f {
        Fmt::Json => serde_json::to_string(v).map(Enc::Json).map_err(|e| e.to_string()),
        Fmt::Bin => bincode::serialize(v).map(Enc::Bin).map_err(|e| e.to_string()),
    }
}

fn decode<U: DeserializeOwned>(e: &Enc) -> Result<U, String> {
    match e {
        Enc::Json(s) => serde_json::from_str::<U>(s).map_err(|e| e.to_string()),
        Enc::Bin(b) => bincode::deserialize::<U>(b).map_err(|e| e.to_string()),
    }
}


thread_local! {
    static SEEN: std::cell::RefCell<std::collections::HashMap<String, u32>> = std::cell::RefCell::new(std::collections::HashMap::new());
}

/// Report a violation; the witness is only built the first few times a thread sees the signature
/// (the report keeps the first witness per signature anyway; occurrence counts stay exact).
fn viol(loc: &mut Loc, sig: &str, witness: impl FnOnce() -> Value) {
    let n = SEEN.with(|s| {
        let mut s = s.borrow_mut();
        match s.get_mut(sig) {
            Some(c) => {
                *c = c.saturating_add(1);
                *c
            }
            None => {
                s.insert(sig.to_string(), 1);
                1
            }
        }
    });
    if n <= 2 {
        loc.violation(sig, witness());
    } else {
        loc.violation(sig, Value::Null);
    }
}

/// Serialize under the panic monitor. `ty` names the type, `class` is an input-class suffix of
/// the signature ("" or "/<class>").
fn ser_guard<T: Serialize>(loc: &mut Loc, ty: &str, class: &str, f: Fmt, v: &T, show: &dyn Fn() -> Value) -> Option<Enc> {
    match guard(|| encode(f, v)) {
        Err(p) => {
            viol(loc, &format!("C20/{}/serialize/panic@{}", ty, p.site()), || json!({"type": ty, "format": f.name(), "input": show(), "panic": p.to_json()}));
            None
        }
        Ok(Err(e)) => {
            viol(loc, &format!("C20/{}/serialize-error{}", ty, class), || json!({"type": ty, "format": f.name(), "input": show(), "error": e, "expected": "Ok(serialized form)"}));
            None
        }
        Ok(Ok(enc)) => Some(enc),
    }
}

/// Deserialize under the panic monitor; `ty` names source (and target) type.
fn de_guard<U: DeserializeOwned>(loc: &mut Loc, ty: &str, class: &str, f: Fmt, enc: &Enc, show: &dyn Fn() -> Value) -> Option<U> {
    match guard(|| decode::<U>(enc)) {
        Err(p) => {
            viol(loc, &format!("C20/{}/deserialize/panic@{}", ty, p.site()), || json!({"type": ty, "format": f.name(), "input": show(), "serialized": enc.show(), "panic": p.to_json()}));
            None
        }
        Ok(Err(e)) => {
            viol(loc, &format!("C20/{}/deserialize-error{}", ty, class), || json!({"type": ty, "format": f.name(), "input": show(), "serialized": enc.show(), "error": e, "expected": "Ok(original value)"}));
            None
        }
        Ok(Ok(u)) => {
            // the same bytes through deserializers that cannot lend the input (reader, Value tree, a JSON
            // string with an escape, bincode from a reader): they must succeed too
            ALT_TICK.with(|t| {
                let n = t.get();
                t.set(n.wrapping_add(1));
                if n % 8 == 0 {
                    for (route, r) in decode_alt::<U>(enc) {
                        match r {
                            Ok(Ok(())) => {}
                            Ok(Err(e)) => viol(loc, &format!("C20/{}/deserialize-error-through-{}{}", ty, route, class), || json!({"type": ty, "format": f.name(), "route": route, "input": show(), "serialized": enc.show(), "error": e, "expected": "Ok, as through from_str / deserialize(&[u8])"})),
                            Err(p) => viol(loc, &format!("C20/{}/deserialize/panic@{}", ty, p.site()), || json!({"type": ty, "route": route, "input": show(), "panic": p.to_json()})),
                        }
                    }
                }
            });
            Some(u)
        }
    }
}

thread_local! {
    static ALT_TICK: std::cell::Cell<u32> = const { std::cell::Cell::new(0) };
}

type AltResult = Result<Result<(), String>, crate::mon::PanicInfo>;

fn decode_alt<U: DeserializeOwned>(e: &Enc) -> Vec<(&'static str, AltResult)> {
    let mut out: Vec<(&'static str, AltResult)> = Vec::new();
    match e {
        Enc::Json(s) => {
            out.push(("serde_json::from_reader", guard(|| serde_json::from_reader::<_, U>(s.as_bytes()).map(|_| ()).map_err(|e| e.to_string()))));
            out.push(("serde_json::from_slice", guard(|| serde_json::from_slice::<U>(s.as_bytes()).map(|_| ()).map_err(|e| e.to_string()))));
            out.push(("serde_json::from_value", guard(|| serde_json::from_str::<Value>(s).and_then(serde_json::from_value::<U>).map(|_| ()).map_err(|e| e.to_string()))));
            if s.len() > 2 && s.starts_with('"') && s.is_ascii() {
                // the first character of the string literal written as a \u escape: same string, not borrowable
                let esc = format!("\"\\u{:04x}{}", s.as_bytes()[1] as u32, &s[2..]);
                out.push(("serde_json::from_str(with an escape)", guard(|| serde_json::from_str::<U>(&esc).map(|_| ()).map_err(|e| e.to_string()))));
            }
        }
        Enc::Bin(b) => {
            out.push(("bincode::deserialize_from", guard(|| bincode::deserialize_from::<_, U>(&b[..]).map(|_| ()).map_err(|e| e.to_string()))));
        }
    }
    out
}

/// One serialize + deserialize (one evaluation).
fn round_trip<T: Serialize, U: DeserializeOwned>(
    loc: &mut Loc,
    ty: &str,
    class: &str,
    f: Fmt,
    v: &T,
    show: &dyn Fn() -> Value,
) -> Option<(U, Enc)> {
    loc.eval();
    let enc = ser_guard(loc, ty, class, f, v, show)?;
    let u = de_guard::<U>(loc, ty, class, f, &enc, show)?;
    Some((u, enc))
}

fn h_rdt(tag: u64, r: &RDt) -> u64 {
    h2(tag, h2(r.day as u64, h2(r.secs as u64, r.frac as u64)))
}

fn show_rdt(r: &RDt) -> Value {
    let (y, m, d) = r.ymd();
    let (hh, mm, ss) = r.hms();
    json!({"ymd": [y, m, d], "hms": [hh, mm, ss], "frac_ns": r.frac, "ce_day": r.day})
}

// ------------------------------------------------------------------------------------------------
// integer deserializer: drives a visitor's visit_i64 / visit_u64 / visit_none / visit_unit directly
// ------------------------------------------------------------------------------------------------

#[derive(Clone, Copy, Debug, PartialEq, Eq)]
enum IntIn {
    I64(i64),
    U64(u64),
    None,
    Unit,
}

#[derive(Clone, Copy)]
struct IntDe(IntIn);

impl<'de> Deserializer<'de> for IntDe {
    type Error = de::value::Error;
    fn deserialize_any<V: Visitor<'de>>(self, v: V) -> Result<V::Value, Self::Error> {
        match self.0 {
            IntIn::I64(x) => v.visit_i64(x),
            IntIn::U64(x) => v.visit_u64(x),
            IntIn::None => v.visit_none(),
            IntIn::Unit => v.visit_unit(),
        }
    }
    fn deserialize_option<V: Visitor<'de>>(self, v: V) -> Result<V::Value, Self::Error> {
        match self.0 {
            IntIn::None => v.visit_none(),
            IntIn::Unit => v.visit_unit(),
            _ => v.visit_some(self),
        }
    }
    serde::forward_to_deserialize_any! {
        bool i8 i16 i32 i64 i128 u8 u16 u32 u64 u128 f32 f64 char str string bytes byte_buf unit unit_struct
        newtype_struct seq tuple tuple_struct map struct enum identifier ignored_any
    }
}

// ------------------------------------------------------------------------------------------------
// the sixteen timestamp helper modules behind one interface
// ------------------------------------------------------------------------------------------------

trait TsMod {
    const LABEL: &'static str;
    /// nanoseconds per unit of the module
    const UNIT: i128;
    /// 0 = s, 1 = ms, 2 = us, 3 = ns
    const UNIT_IDX: usize;
    const OPT: bool;
    const NAIVE: bool;
    type W: Serialize + DeserializeOwned;
    /// value as naive UTC date-time; `None` only for the option modules
    fn wrap(v: Option<NaiveDateTime>) -> Self::W;
    fn unwrap(w: Self::W) -> Option<NaiveDateTime>;
    /// the module's `deserialize` function on the integer deserializer
    fn direct(d: IntDe) -> Result<Option<NaiveDateTime>, de::value::Error>;
}

macro_rules! ts_utc {
    ($M:ident, $W:ident, $with:literal, $m:ident, $label:literal, $unit:expr, $ui:expr) => {
        #[derive(Serialize, Deserialize)]
        struct $W(#[serde(with = $with)] DateTime<Utc>);
        struct $M;
        impl TsMod for $M {
            const LABEL: &'static str = $label;
            const UNIT: i128 = $unit;
            const UNIT_IDX: usize = $ui;
            const OPT: bool = false;
            const NAIVE: bool = false;
            type W = $W;
            fn wrap(v: Option<NaiveDateTime>) -> $W {
                $W(v.expect("c20: non-option module needs a value").and_utc())
            }
            fn unwrap(w: $W) -> Option<NaiveDateTime> {
                Some(w.0.naive_utc())
            }
            fn direct(d: IntDe) -> Result<Option<NaiveDateTime>, de::value::Error> {
                chrono::serde::$m::deserialize(d).map(|x| Some(x.naive_utc()))
            }
        }
    };
}
macro_rules! ts_utc_opt {
    ($M:ident, $W:ident, $with:literal, $m:ident, $label:literal, $unit:expr, $ui:expr) => {
        #[derive(Serialize, Deserialize)]
        struct $W(#[serde(with = $with)] Option<DateTime<Utc>>);
        struct $M;
        impl TsMod for $M {
            const LABEL: &'static str = $label;
            const UNIT: i128 = $unit;
            const UNIT_IDX: usize = $ui;
            const OPT: bool = true;
            const NAIVE: bool = false;
            type W = $W;
            fn wrap(v: Option<NaiveDateTime>) -> $W {
                $W(v.map(|x| x.and_utc()))
            }
            fn unwrap(w: $W) -> Option<NaiveDateTime> {
                w.0.map(|x| x.naive_utc())
            }
            fn direct(d: IntDe) -> Result<Option<NaiveDateTime>, de::value::Error> {
                chrono::serde::$m::deserialize(d).map(|o| o.map(|x| x.naive_utc()))
            }
        }
    };
}
macro_rules! ts_naive {
    ($M:ident, $W:ident, $with:literal, $m:ident, $label:literal, $unit:expr, $ui:expr) => {
        #[derive(Serialize, Deserialize)]
        struct $W(#[serde(with = $with)] NaiveDateTime);
        struct $M;
        impl TsMod for $M {
            const LABEL: &'static str = $label;
            const UNIT: i128 = $unit;
            const UNIT_IDX: usize = $ui;
            const OPT: bool = false;
            const NAIVE: bool = true;
            type W = $W;
            fn wrap(v: Option<NaiveDateTime>) -> $W {
                $W(v.expect("c20: non-option module needs a value"))
            }
            fn unwrap(w: $W) -> Option<NaiveDateTime> {
                Some(w.0)
            }
            fn direct(d: IntDe) -> Result<Option<NaiveDateTime>, de::value::Error> {
                chrono::naive::serde::$m::deserialize(d).map(Some)
            }
        }
    };
}
macro_rules! ts_naive_opt {
    ($M:ident, $W:ident, $with:literal, $m:ident, $label:literal, $unit:expr, $ui:expr) => {
        #[derive(Serialize, Deserialize)]
        struct $W(#[serde(with = $with)] Option<NaiveDateTime>);
        struct $M;
        impl TsMod for $M {
            const LABEL: &'static str = $label;
            const UNIT: i128 = $unit;
            const UNIT_IDX: usize = $ui;
            const OPT: bool = true;
            const NAIVE: bool = true;
            type W = $W;
            fn wrap(v: Option<NaiveDateTime>) -> $W {
                $W(v)
            }
            fn unwrap(w: $W) -> Option<NaiveDateTime> {
                w.0
            }
            fn direct(d: IntDe) -> Result<Option<NaiveDateTime>, de::value::Error> {
                chrono::naive::serde::$m::deserialize(d)
            }
        }
    };
}

ts_utc!(US, WUS, "chrono::serde::ts_seconds", ts_seconds, "serde::ts_seconds", 1_000_000_000, 0);
ts_utc!(UMs, WUMs, "chrono::serde::ts_milliseconds", ts_milliseconds, "serde::ts_milliseconds", 1_000_000, 1);
ts_utc!(UUs, WUUs, "chrono::serde::ts_microseconds", ts_microseconds, "serde::ts_microseconds", 1_000, 2);
ts_utc!(UNs, WUNs, "chrono::serde::ts_nanoseconds", ts_nanoseconds, "serde::ts_nanoseconds", 1, 3);
ts_utc_opt!(USO, WUSO, "chrono::serde::ts_seconds_option", ts_seconds_option, "serde::ts_seconds_option", 1_000_000_000, 0);
ts_utc_opt!(UMsO, WUMsO, "chrono::serde::ts_milliseconds_option", ts_milliseconds_option, "serde::ts_milliseconds_option", 1_000_000, 1);
ts_utc_opt!(UUsO, WUUsO, "chrono::serde::ts_microseconds_option", ts_microseconds_option, "serde::ts_microseconds_option", 1_000, 2);
ts_utc_opt!(UNsO, WUNsO, "chrono::serde::ts_nanoseconds_option", ts_nanoseconds_option, "serde::ts_nanoseconds_option", 1, 3);
ts_naive!(NS, WNS, "chrono::naive::serde::ts_seconds", ts_seconds, "naive::serde::ts_seconds", 1_000_000_000, 0);
ts_naive!(NMs, WNMs, "chrono::naive::serde::ts_milliseconds", ts_milliseconds, "naive::serde::ts_milliseconds", 1_000_000, 1);
ts_naive!(NUs, WNUs, "chrono::naive::serde::ts_microseconds", ts_microseconds, "naive::serde::ts_microseconds", 1_000, 2);
ts_naive!(NNs, WNNs, "chrono::naive::serde::ts_nanoseconds", ts_nanoseconds, "naive::serde::ts_nanoseconds", 1, 3);
ts_naive_opt!(NSO, WNSO, "chrono::naive::serde::ts_seconds_option", ts_seconds_option, "naive::serde::ts_seconds_option", 1_000_000_000, 0);
ts_naive_opt!(NMsO, WNMsO, "chrono::naive::serde::ts_milliseconds_option", ts_milliseconds_option, "naive::serde::ts_milliseconds_option", 1_000_000, 1);
ts_naive_opt!(NUsO, WNUsO, "chrono::naive::serde::ts_microseconds_option", ts_microseconds_option, "naive::serde::ts_microseconds_option", 1_000, 2);
ts_naive_opt!(NNsO, WNNsO, "chrono::naive::serde::ts_nanoseconds_option", ts_nanoseconds_option, "naive::serde::ts_nanoseconds_option", 1, 3);

/// call a generic function once per module
macro_rules! for_mods {
    ($f:ident ( $($a:expr),* )) => {
        $f::<US>($($a),*); $f::<UMs>($($a),*); $f::<UUs>($($a),*); $f::<UNs>($($a),*);
        $f::<USO>($($a),*); $f::<UMsO>($($a),*); $f::<UUsO>($($a),*); $f::<UNsO>($($a),*);
        $f::<NS>($($a),*); $f::<NMs>($($a),*); $f::<NUs>($($a),*); $f::<NNs>($($a),*);
        $f::<NSO>($($a),*); $f::<NMsO>($($a),*); $f::<NUsO>($($a),*); $f::<NNsO>($($a),*);
    };
}

// ------------------------------------------------------------------------------------------------
// run
// ------------------------------------------------------------------------------------------------

/// `DateTime<Local>` in a process whose local zone is not UTC (child processes with TZ set): its JSON
/// and bincode forms, and the forms of the same instant written from other zones, read back as the
/// instant shown with the local zone's offset.
fn local_child(ctx: &Ctx, rep: &Report) {
    use crate::props::tzchild::{self, Ans};
    let mut loc = rep.local();
    let bk = bi("local_zone_not_utc");
    for (zi, tz) in ["JST-9", "NST3:30NDT,M3.2.0,M11.1.0", "NZST-12NZDT,M9.5.0,M4.1.0/3"].iter().enumerate() {
        let mut rng = Rng::new(ctx.seed, "C20/local-child", zi as u64);
        let q: Vec<(char, i64)> = (0..ctx.n(200, 10_000))
            .map(|_| {
                ('P', match rng.below(3) {
                    0 => rng.range(1_600_000_000, 1_700_000_000),
                    1 => rng.range(-62_135_596_800, 253_402_300_799),
                    _ => *rng.pick(&[1_615_705_200i64, 1_636_264_800, 1_632_578_400, 1_617_458_400]) + rng.range(-90_000, 90_000),
                })
            })
            .collect();
        match tzchild::run_child(&ctx.work_dir, &format!("c20-{}", zi), Some(tz), &q) {
            Ok(ans) => {
                for ((_, u), a) in q.iter().zip(ans.iter()) {
                    loc.eval();
                    loc.bucket(bk);
                    match a {
                        Ans::Single(_) => {}
                        Ans::Panic(msg) if msg.starts_with(tzchild::GLUE) => loc.violation("C20/DateTime<Local>/child-with-TZ/does-not-read-back-as-the-value", json!({"TZ": tz, "unix": u, "message": msg})),
                        other => loc.violation("C20/DateTime<Local>/child-with-TZ/panic-or-error", json!({"TZ": tz, "unix": u, "observed": other.print()})),
                    }
                    loc.nontrivial(h2(95, h2(zi as u64, *u as u64)));
                }
            }
            Err(e) => rep.harness_error(format!("C20 local-zone child: {}", e)),
        }
    }
}

pub fn run(ctx: &Ctx) -> Outcome {
    // thorough marks several 10^8 distinct cases: a wider bitmap keeps the under-count small
    let rep = Report::with_bitmap_bits("C20", B, FLOOR, ctx.tier.pick(27, 30));
    let mut failed = false;
    for r in [rc::self_test(), ri::self_test(), self_test()] {
        if let Err(e) = r {
            rep.harness_error(e);
            failed = true;
        }
    }
    if failed {
        return rep.finish(ctx, "self-test failed", &[]);
    }
    enums(&rep);
    dates(ctx, &rep);
    times(ctx, &rep);
    naive_datetimes(ctx, &rep);
    zoned(ctx, &rep);
    local(ctx, &rep);
    durations(ctx, &rep);
    ts_serialize(ctx, &rep);
    ts_feed(ctx, &rep);
    type_mismatch(&rep);
    local_child(ctx, &rep);
    rep.finish(
        ctx,
        "values: boundary catalogues of R-cal/R-inst (range ends, year classes, fractions, all 2879 whole-minute offsets, \
         headroom instants within a day of the range ends, i64-nanosecond window edges, TimeDelta range ends) with \
         neighbourhoods, a strided walk over all dates and seconds of day, plus seeded random values; each value goes \
         through serde_json and bincode (one evaluation per value x format x target type). integers: per unit the \
         catalogue (i64/u64 extremes, representable-range ends +-3, unit/second/day multiples +-1, powers of two) plus \
         random (uniform around the range, log-uniform, raw 64-bit) fed to each of the 16 modules through its own \
         deserialize function (visit_i64, visit_u64), JSON text and bincode bytes (one evaluation per integer x module x \
         route). a case is non-trivial unless it is a whole-second value of years 1..=9999 with zero offset; distinct = \
         distinct (kind, value, format/route) hashes (bitmap, collisions under-count)",
        &[
            "R-cal / R-inst (harness/src/refcal.rs, refinst.rs) are correct: self-tested at the start of every run",
            "serde_json 1.x and bincode 1.3 (fixint, little endian) behave as documented: newtype structs are transparent, JSON non-negative integers reach visit_u64, negative ones visit_i64, bincode i64 reaches visit_i64",
            "leap-second representations are generated on second 59 only (the only ones the constructors accept); zone-aware leap seconds only with whole-minute offsets",
            "DateTime<Local> is exercised in-process with the zone as found (UTC here) and, for instant and offset, in child processes with TZ set to three rule zones",
        ],
    )
}

/// Input of the wrong JSON type (or a malformed value) for every deserializer: must be an `Err`
/// that can be displayed (this drives the visitors' `expecting` texts), never a panic.
fn type_mismatch(rep: &Report) {
    const BAD: &[&str] = &[
        "\"abc\"", "true", "false", "1.5", "-2.5e300", "[1]", "[]", "{}", "{\"a\":1}", "\"\"", "18446744073709551616", "-9223372036854775809", "1e400", "\"2015-09-05\"",
        "\"23:56:04\"", "[1,2,3]", "[\"a\",1]", "[1]", "[-1,1000000000]", "[9223372036854775807,999999999]", "\"Mon\\u0000\"", "\"\\ud800\"", "nul", "", " ", "[1,", "\"2015-09-05T23:56:04",
    ];
    fn one<T: serde::de::DeserializeOwned>(loc: &mut Loc, what: &str, null_is_ok: bool) {
        for b in BAD.iter().copied().chain(std::iter::once("null")) {
            loc.eval();
            let r = guard(|| serde_json::from_str::<T>(b).map(|_| ()).map_err(|e| e.to_string()));
            match r {
                Ok(Ok(())) => {
                    // a few inputs are legitimately accepted by some targets ([secs, nanos] pairs for TimeDelta, null for options)
                    let fine = (b == "null" && null_is_ok) || what == "TimeDelta" && b.starts_with('[');
                    if !fine && !(b.starts_with('"') && (what == "NaiveDate" || what == "NaiveTime")) {
                        loc.violation(&format!("C20/{}/deserialize/accepts-input-of-the-wrong-type", what), json!({"input": b}));
                    }
                }
                Ok(Err(msg)) => {
                    if msg.is_empty() {
                        loc.violation(&format!("C20/{}/deserialize/empty-error-message", what), json!({"input": b}));
                    }
                }
                Err(p) => loc.violation(&format!("C20/{}/deserialize/panic@{}/wrong-type-input", what, p.site()), json!({"input": b, "panic": p.to_json()})),
            }
            loc.nontrivial(h2(crate::mon::hstr(what), crate::mon::hstr(b)));
        }
    }
    fn per_mod<M: TsMod>(loc: &mut Loc) {
        one::<M::W>(loc, M::LABEL, M::OPT);
    }
    let mut loc = rep.local();
    one::<NaiveDate>(&mut loc, "NaiveDate", false);
    one::<NaiveTime>(&mut loc, "NaiveTime", false);
    one::<NaiveDateTime>(&mut loc, "NaiveDateTime", false);
    one::<DateTime<Utc>>(&mut loc, "DateTime<Utc>", false);
    one::<DateTime<FixedOffset>>(&mut loc, "DateTime<FixedOffset>", false);
    one::<DateTime<Local>>(&mut loc, "DateTime<Local>", false);
    one::<TimeDelta>(&mut loc, "TimeDelta", false);
    one::<Weekday>(&mut loc, "Weekday", false);
    one::<Month>(&mut loc, "Month", false);
    for_mods!(per_mod(&mut loc));
}

fn floor_div(a: i128, b: i128) -> i128 {
    a.div_euclid(b)
}
fn ceil_div(a: i128, b: i128) -> i128 {
    -((-a).div_euclid(b))
}

/// Oracle / harness self-test (a failure makes the run inconclusive).
fn self_test() -> Result<(), String> {
    let chk = |c: bool, s: &str| if c { Ok(()) } else { Err(format!("c20 self-test failed: {}", s)) };
    chk(floor_div(-1, 1000) == -1 && floor_div(-1000, 1000) == -1 && floor_div(999, 1000) == 0, "floor_div")?;
    chk(ceil_div(-1, 1000) == 0 && ceil_div(1, 1000) == 1 && ceil_div(-1001, 1000) == -1 && ceil_div(2000, 1000) == 2, "ceil_div")?;
    // rustdoc examples of the helper modules: 2018-05-17T02:04:59.918355733Z
    let r = RDt::new(rc::day_number(2018, 5, 17), 2 * 3600 + 4 * 60 + 59, 918_355_733);
    let d = r.ns() - ri::epoch_ns();
    chk(floor_div(d, 1_000_000_000) == 1526522699, "ts_seconds rustdoc example")?;
    chk(floor_div(d, 1_000_000) == 1526522699918, "ts_milliseconds rustdoc example")?;
    chk(floor_div(d, 1_000) == 1526522699918355, "ts_microseconds rustdoc example")?;
    chk(d == 1526522699918355733, "ts_nanoseconds rustdoc example")?;
    chk(exp_feed(1_000_000_000, 0) == Some(RDt::new(rc::UNIX_EPOCH_DAY, 0, 0)), "epoch feed")?;
    chk(exp_feed(1_000_000, -1) == Some(RDt::new(rc::UNIX_EPOCH_DAY - 1, 86_399, 999_000_000)), "-1 ms")?;
    chk(exp_feed(1_000_000_000, i64::MAX as i128).is_none() && exp_feed(1, u64::MAX as i128).is_some(), "range of feeds")?;
    // the integer deserializer drives the visitor methods it claims to
    chk(i64::deserialize(IntDe(IntIn::I64(-5))) == Ok(-5), "IntDe visit_i64")?;
    chk(u64::deserialize(IntDe(IntIn::U64(u64::MAX))) == Ok(u64::MAX), "IntDe visit_u64")?;
    chk(i64::deserialize(IntDe(IntIn::U64(u64::MAX))).is_err(), "IntDe visit_u64 is not visit_i64")?;
    chk(Option::<i64>::deserialize(IntDe(IntIn::None)) == Ok(None), "IntDe visit_none")?;
    chk(Option::<i64>::deserialize(IntDe(IntIn::I64(7))) == Ok(Some(7)), "IntDe visit_some")?;
    chk(<()>::deserialize(IntDe(IntIn::Unit)) == Ok(()), "IntDe visit_unit")?;
    // format assumptions
    chk(bincode::serialize(&-2i64).ok() == Some((-2i64).to_le_bytes().to_vec()), "bincode i64 = 8 bytes LE")?;
    chk(bincode::serialize(&Some(3i64)).ok().map(|b| b.len()) == Some(9) && bincode::serialize(&None::<i64>).ok() == Some(vec![0]), "bincode option tag")?;
    chk(bincode::serialize(&(1i64, 2i32)).ok().map(|b| b.len()) == Some(12), "bincode (i64, i32) = 12 bytes")?;
    Ok(())
}

// ------------------------------------------------------------------------------------------------
// Weekday, Month (exhaustive)
// ------------------------------------------------------------------------------------------------

fn enums(rep: &Report) {
    let mut loc = rep.local();
    let (b_wd, b_mo) = (bi("weekday"), bi("month"));
    let wds = [Weekday::Mon, Weekday::Tue, Weekday::Wed, Weekday::Thu, Weekday::Fri, Weekday::Sat, Weekday::Sun];
    let mos = [
        Month::January, Month::February, Month::March, Month::April, Month::May, Month::June, Month::July, Month::August,
        Month::September, Month::October, Month::November, Month::December,
    ];
    for f in FMTS {
        for (i, w) in wds.iter().enumerate() {
            loc.bucket(b_wd);
            loc.nontrivial(h2(1, h2(i as u64, f as u64)));
            if let Some((back, enc)) = round_trip::<Weekday, Weekday>(&mut loc, "Weekday", "", f, w, &|| json!(format!("{:?}", w))) {
                if back != *w {
                    loc.violation("C20/Weekday/value-changed", json!({"format": f.name(), "input": format!("{:?}", w), "serialized": enc.show(), "observed": format!("{:?}", back)}));
                }
            }
        }
        for (i, m) in mos.iter().enumerate() {
            loc.bucket(b_mo);
            loc.nontrivial(h2(2, h2(i as u64, f as u64)));
            if let Some((back, enc)) = round_trip::<Month, Month>(&mut loc, "Month", "", f, m, &|| json!(format!("{:?}", m))) {
                if back != *m {
                    loc.violation("C20/Month/value-changed", json!({"format": f.name(), "input": format!("{:?}", m), "serialized": enc.show(), "observed": format!("{:?}", back)}));
                }
            }
        }
    }
}

// ------------------------------------------------------------------------------------------------
// NaiveDate
// ------------------------------------------------------------------------------------------------

fn check_date(loc: &mut Loc, bk: &[usize; 4], n: i64) {
    let d = match NaiveDate::from_num_days_from_ce_opt(n as i32) {
        Some(d) => d,
        None => {
            loc.rep.harness_error(format!("c20: day number {} not constructible", n));
            return;
        }
    };
    let (y, _, _) = rc::civil_from_days(n);
    for f in FMTS {
        loc.bucket(if y < 0 { bk[1] } else if y > 9999 { bk[2] } else { bk[0] });
        if n == rc::min_day() || n == rc::max_day() {
            loc.bucket(bk[3]);
        }
        if !(1..=9999).contains(&y) {
            loc.nontrivial(h2(3, h2(n as u64, f as u64)));
        }
        if let Some((back, enc)) = round_trip::<NaiveDate, NaiveDate>(loc, "NaiveDate", "", f, &d, &|| json!({"ce_day": n, "ymd": rc::civil_from_days(n)})) {
            use chrono::Datelike;
            if back != d || back.num_days_from_ce() as i64 != n {
                loc.violation(
                    "C20/NaiveDate/value-changed",
                    json!({"format": f.name(), "input": {"ce_day": n, "ymd": rc::civil_from_days(n)}, "serialized": enc.show(), "observed_ce_day": back.num_days_from_ce()}),
                );
            }
            loc.sample(|| json!({"type": "NaiveDate", "format": f.name(), "ce_day": n, "serialized": enc.show()}));
        }
    }
}

fn dates(ctx: &Ctx, rep: &Report) {
    let bk = [bi("date_year_0_9999"), bi("date_neg_year"), bi("date_big_year"), bi("date_range_end")];
    let cat = gen::catalogue_days();
    let (min, max) = (rc::min_day(), rc::max_day());
    // catalogue with neighbourhood
    let mut det: Vec<i64> = Vec::new();
    for &c in &cat {
        for k in -2..=2 {
            if rc::in_range_day(c + k) {
                det.push(c + k);
            }
        }
    }
    det.sort();
    det.dedup();
    let n_shards = 64usize;
    // strided walk over all dates: stride chosen so that the walk visits about `walk` dates
    let walk = ctx.n(600_000, 48_000_000) as i64;
    let stride = ((max - min + 1) / walk).max(1);
    let phase = Rng::new(ctx.seed, "C20/date-walk-phase", 0).range(0, stride - 1);
    let n_random = ctx.n(200_000, 8_000_000);
    par_shards(rep, ctx.threads, n_shards, |shard| {
        let mut loc = rep.local();
        for (i, &n) in det.iter().enumerate() {
            if i % n_shards == shard {
                check_date(&mut loc, &bk, n);
            }
        }
        let total_steps = (max - min - phase) / stride + 1;
        let per = (total_steps + n_shards as i64 - 1) / n_shards as i64;
        let lo = per * shard as i64;
        let hi = (lo + per).min(total_steps);
        for s in lo..hi {
            check_date(&mut loc, &bk, min + phase + s * stride);
        }
        let mut rng = Rng::new(ctx.seed, "C20/dates", shard as u64);
        for _ in 0..n_random / n_shards as u64 {
            let n = gen::random_day(&mut rng, &cat);
            check_date(&mut loc, &bk, n);
        }
    });
}

// ------------------------------------------------------------------------------------------------
// NaiveTime
// ------------------------------------------------------------------------------------------------

fn check_time(loc: &mut Loc, bk: &[usize; 5], secs: i64, frac: i64) {
    let t = match NaiveTime::from_num_seconds_from_midnight_opt(secs as u32, frac as u32) {
        Some(t) => t,
        None => {
            loc.rep.harness_error(format!("c20: time ({}, {}) not constructible", secs, frac));
            return;
        }
    };
    for f in FMTS {
        let sub = frac % 1_000_000_000;
        loc.bucket(if frac >= 1_000_000_000 {
            bk[4]
        } else if sub == 0 {
            bk[0]
        } else if sub % 1_000_000 == 0 {
            bk[1]
        } else if sub % 1_000 == 0 {
            bk[2]
        } else {
            bk[3]
        });
        if frac != 0 {
            loc.nontrivial(h2(4, h2(secs as u64, h2(frac as u64, f as u64))));
        }
        if let Some((back, enc)) = round_trip::<NaiveTime, NaiveTime>(loc, "NaiveTime", "", f, &t, &|| json!({"secs_of_day": secs, "frac_ns": frac})) {
            use chrono::Timelike;
            if back != t || back.num_seconds_from_midnight() as i64 != secs || back.nanosecond() as i64 != frac {
                loc.violation(
                    "C20/NaiveTime/value-changed",
                    json!({"format": f.name(), "input": {"secs_of_day": secs, "frac_ns": frac}, "serialized": enc.show(),
                           "observed": {"secs_of_day": back.num_seconds_from_midnight(), "frac_ns": back.nanosecond()}}),
                );
            }
            loc.sample(|| json!({"type": "NaiveTime", "format": f.name(), "secs_of_day": secs, "frac_ns": frac, "serialized": enc.show()}));
        }
    }
}

fn times(ctx: &Ctx, rep: &Report) {
    let bk = [bi("time_whole_second"), bi("time_frac_ms"), bi("time_frac_us"), bi("time_frac_ns"), bi("time_leap")];
    let fracs = gen::catalogue_fracs();
    let csecs = gen::catalogue_secs();
    let n_shards = 64usize;
    let all_fracs = ctx.tier == crate::mon::Tier::Thorough;
    let n_random = ctx.n(240_000, 12_000_000);
    par_shards(rep, ctx.threads, n_shards, |shard| {
        let mut loc = rep.local();
        // every second of the day (thorough: x every catalogue fraction; quick: fractions in rotation)
        for secs in (shard as i64..86_400).step_by(n_shards) {
            if all_fracs {
                for &fr in &fracs {
                    check_time(&mut loc, &bk, secs, fr);
                }
            } else {
                check_time(&mut loc, &bk, secs, fracs[(secs as usize) % fracs.len()]);
            }
            // leap-second representation on every minute's second 59
            if secs % 60 == 59 {
                for &fr in &fracs {
                    if all_fracs || fr % 7 < 4 || secs == 86_399 {
                        check_time(&mut loc, &bk, secs, 1_000_000_000 + fr);
                    }
                }
            }
        }
        if shard == 0 {
            for &s in &csecs {
                for &fr in &fracs {
                    check_time(&mut loc, &bk, s, fr);
                }
            }
        }
        let mut rng = Rng::new(ctx.seed, "C20/times", shard as u64);
        for _ in 0..n_random / n_shards as u64 {
            let mut secs = gen::random_secs(&mut rng);
            let mut fr = gen::random_frac(&mut rng);
            if rng.chance(1, 8) {
                secs = secs - secs % 60 + 59;
                fr += 1_000_000_000;
            }
            check_time(&mut loc, &bk, secs, fr);
        }
    });
}

// ------------------------------------------------------------------------------------------------
// NaiveDateTime
// ------------------------------------------------------------------------------------------------

fn check_ndt(loc: &mut Loc, bk: &[usize; 5], r: RDt) {
    let v = match r.to_chrono() {
        Some(v) => v,
        None => {
            loc.rep.harness_error(format!("c20: {:?} not constructible", r));
            return;
        }
    };
    let (y, _, _) = r.ymd();
    for f in FMTS {
        loc.bucket(if r.is_leap() { bk[1] } else { bk[0] });
        if y < 0 {
            loc.bucket(bk[2]);
        }
        if y > 9999 {
            loc.bucket(bk[3]);
        }
        if r.day == rc::min_day() || r.day == rc::max_day() {
            loc.bucket(bk[4]);
        }
        if !(1..=9999).contains(&y) || r.frac != 0 {
            loc.nontrivial(h2(f as u64, h_rdt(5, &r)));
        }
        if let Some((back, enc)) = round_trip::<NaiveDateTime, NaiveDateTime>(loc, "NaiveDateTime", "", f, &v, &|| show_rdt(&r)) {
            if back != v || RDt::of(&back) != r {
                loc.violation(
                    "C20/NaiveDateTime/value-changed",
                    json!({"format": f.name(), "input": show_rdt(&r), "serialized": enc.show(), "observed": show_rdt(&RDt::of(&back))}),
                );
            }
            loc.sample(|| json!({"type": "NaiveDateTime", "format": f.name(), "input": show_rdt(&r), "serialized": enc.show()}));
        }
    }
}

fn naive_datetimes(ctx: &Ctx, rep: &Report) {
    let bk = [bi("ndt_plain"), bi("ndt_leap"), bi("ndt_neg_year"), bi("ndt_big_year"), bi("ndt_range_end")];
    let cat = gen::catalogue_days();
    let csecs = gen::catalogue_secs();
    let fracs = gen::catalogue_fracs();
    let n_shards = 64usize;
    let n_random = ctx.n(600_000, 32_000_000);
    par_shards(rep, ctx.threads, n_shards, |shard| {
        let mut loc = rep.local();
        for (i, &day) in cat.iter().enumerate() {
            if i % n_shards != shard {
                continue;
            }
            for (j, &s) in csecs.iter().enumerate() {
                let fr = fracs[(i + j) % fracs.len()];
                check_ndt(&mut loc, &bk, RDt::new(day, s, fr));
                if s % 60 == 59 && (i + j) % 3 == 0 {
                    check_ndt(&mut loc, &bk, RDt::new(day, s, 1_000_000_000 + fr));
                }
            }
        }
        if shard == 0 {
            for day in [rc::min_day(), rc::max_day()] {
                for &fr in &fracs {
                    check_ndt(&mut loc, &bk, RDt::new(day, 0, fr));
                    check_ndt(&mut loc, &bk, RDt::new(day, 86_399, fr));
                    check_ndt(&mut loc, &bk, RDt::new(day, 86_399, 1_000_000_000 + fr));
                }
            }
        }
        let mut rng = Rng::new(ctx.seed, "C20/ndt", shard as u64);
        for _ in 0..n_random / n_shards as u64 {
            let r = gen::random_rdt_leap(&mut rng, &cat, true);
            check_ndt(&mut loc, &bk, r);
        }
    });
}

// ------------------------------------------------------------------------------------------------
// DateTime<Utc>, DateTime<FixedOffset> (and the cross targets)
// ------------------------------------------------------------------------------------------------

struct ZBk {
    dtu: usize,
    dtu_to_fixed: usize,
    zero: usize,
    whole: usize,
    sub: usize,
    to_utc: usize,
    wall_out: usize,
    headroom_in: usize,
    leap: usize,
    end_exact: usize,
}

/// ns of the wall clock of instant r at offset `off` (leap fraction not counted)
fn wall_ns(r: &RDt, off: i64) -> i128 {
    RDt::new(r.day, r.secs, r.frac % 1_000_000_000).ns() + off as i128 * ri::NS
}

fn check_utc(loc: &mut Loc, bk: &ZBk, r: RDt) {
    let v = match r.to_chrono() {
        Some(v) => v.and_utc(),
        None => {
            loc.rep.harness_error(format!("c20: {:?} not constructible", r));
            return;
        }
    };
    let (y, _, _) = r.ymd();
    let exact_end = r.ns() == ri::min_ns() || r.ns() == ri::max_ns();
    for f in FMTS {
        loc.bucket(bk.dtu);
        if r.is_leap() {
            loc.bucket(bk.leap);
        }
        if exact_end {
            loc.bucket(bk.end_exact);
        }
        if !(1..=9999).contains(&y) || r.frac != 0 {
            loc.nontrivial(h2(f as u64, h_rdt(6, &r)));
        }
        let Some((back, enc)) = round_trip::<DateTime<Utc>, DateTime<Utc>>(loc, "DateTime<Utc>", "", f, &v, &|| show_rdt(&r)) else { continue };
        if back != v || RDt::of(&back.naive_utc()) != r {
            loc.violation(
                "C20/DateTime<Utc>/instant-changed",
                json!({"format": f.name(), "input_utc": show_rdt(&r), "serialized": enc.show(), "observed_utc": show_rdt(&RDt::of(&back.naive_utc()))}),
            );
            continue;
        }
        loc.sample(|| json!({"type": "DateTime<Utc>", "format": f.name(), "input_utc": show_rdt(&r), "serialized": enc.show()}));
        // the same serialized form read into the type that keeps an offset: same instant, offset zero
        loc.bucket(bk.dtu_to_fixed);
        loc.eval();
        if let Some(back) = de_guard::<DateTime<FixedOffset>>(loc, "DateTime<Utc>->DateTime<FixedOffset>", "", f, &enc, &|| show_rdt(&r)) {
            if RDt::of(&back.naive_utc()) != r {
                loc.violation(
                    "C20/DateTime<Utc>->DateTime<FixedOffset>/instant-changed",
                    json!({"format": f.name(), "input_utc": show_rdt(&r), "serialized": enc.show(), "observed_utc": show_rdt(&RDt::of(&back.naive_utc()))}),
                );
            }
            if back.offset().local_minus_utc() != 0 {
                loc.violation(
                    "C20/DateTime<Utc>->DateTime<FixedOffset>/offset-changed",
                    json!({"format": f.name(), "input_utc": show_rdt(&r), "serialized": enc.show(), "expected_offset": 0, "observed_offset": back.offset().local_minus_utc()}),
                );
            }
        }
    }
}

fn check_fixed(loc: &mut Loc, bk: &ZBk, r: RDt, off: i64) {
    let (ndt, fo) = match (r.to_chrono(), FixedOffset::east_opt(off as i32)) {
        (Some(a), Some(b)) => (a, b),
        _ => {
            loc.rep.harness_error(format!("c20: {:?} @ {} not constructible", r, off));
            return;
        }
    };
    let v: DateTime<FixedOffset> = fo.from_utc_datetime(&ndt);
    let w = wall_ns(&r, off);
    let wall_outside = w < ri::min_ns() || w > ri::max_ns();
    let whole = off % 60 == 0;
    let near_end = r.ns() - ri::min_ns() < 86_400 * ri::NS || ri::max_ns() - r.ns() < 86_400 * ri::NS;
    let class = if wall_outside {
        "/wall-date-outside-range"
    } else if !whole {
        "/sub-minute-offset"
    } else {
        ""
    };
    let show = || json!({"utc": show_rdt(&r), "offset_seconds": off});
    for f in FMTS {
        loc.bucket(if off == 0 { bk.zero } else if whole { bk.whole } else { bk.sub });
        if wall_outside {
            loc.bucket(bk.wall_out);
        } else if near_end && off != 0 && whole {
            loc.bucket(bk.headroom_in);
        }
        if r.is_leap() {
            loc.bucket(bk.leap);
        }
        loc.nontrivial(h2(off as u64, h2(f as u64, h_rdt(7, &r))));
        let Some((back, enc)) = round_trip::<DateTime<FixedOffset>, DateTime<FixedOffset>>(loc, "DateTime<FixedOffset>", class, f, &v, &show) else { continue };
        if RDt::of(&back.naive_utc()) != r {
            viol(loc, &format!("C20/DateTime<FixedOffset>/instant-changed{}", class), || {
                json!({"format": f.name(), "input": show(), "serialized": enc.show(), "observed_utc": show_rdt(&RDt::of(&back.naive_utc())),
                       "observed_offset": back.offset().local_minus_utc()})
            });
            continue;
        }
        if whole && (back.offset().local_minus_utc() as i64 != off || back != v) {
            loc.violation(
                &format!("C20/DateTime<FixedOffset>/offset-changed{}", class),
                json!({"format": f.name(), "input": show(), "serialized": enc.show(), "observed_offset": back.offset().local_minus_utc()}),
            );
        }
        loc.sample(|| json!({"type": "DateTime<FixedOffset>", "format": f.name(), "input": show(), "serialized": enc.show()}));
        // the same serialized form read into the type that does not keep the offset: same instant
        loc.bucket(bk.to_utc);
        loc.eval();
        if let Some(back) = de_guard::<DateTime<Utc>>(loc, "DateTime<FixedOffset>->DateTime<Utc>", class, f, &enc, &show) {
            if RDt::of(&back.naive_utc()) != r {
                loc.violation(
                    &format!("C20/DateTime<FixedOffset>->DateTime<Utc>/instant-changed{}", class),
                    json!({"format": f.name(), "input": show(), "serialized": enc.show(), "observed_utc": show_rdt(&RDt::of(&back.naive_utc()))}),
                );
            }
        }
    }
}

fn zoned(ctx: &Ctx, rep: &Report) {
    let bk = ZBk {
        dtu: bi("dtu"),
        dtu_to_fixed: bi("dtu_to_fixed"),
        zero: bi("dtf_zero_offset"),
        whole: bi("dtf_whole_minute"),
        sub: bi("dtf_sub_minute"),
        to_utc: bi("dtf_to_utc"),
        wall_out: bi("dtf_wall_outside_range"),
        headroom_in: bi("dtf_headroom_inside"),
        leap: bi("dt_leap"),
        end_exact: bi("dt_range_end_exact"),
    };
    let b_all = bi("dt_all_whole_minute_offsets");
    let cat = gen::catalogue_days();
    let offs = gen::catalogue_offsets();
    let fracs = gen::catalogue_fracs();
    let n_shards = 64usize;
    let n_random = ctx.n(360_000, 20_000_000);
    let n_headroom = ctx.n(48_000, 2_000_000);
    // distances from a range end (ns) used for the headroom instants
    let dists: Vec<i128> = {
        let mut v: Vec<i128> = vec![0, 1, 999, 1_000_000, 999_999_999];
        for s in [1i128, 59, 60, 61, 1799, 1800, 3599, 3600, 3601, 43_200, 86_339, 86_340, 86_399] {
            for k in [-1i128, 0, 1] {
                v.push(s * ri::NS + k);
            }
        }
        v
    };
    par_shards(rep, ctx.threads, n_shards, |shard| {
        let mut loc = rep.local();
        // all 2879 whole-minute offsets x (an ordinary instant, the two range ends with headroom)
        for m in (-1439i64..=1439).filter(|m| (m + 1439) as usize % n_shards == shard) {
            let off = m * 60;
            loc.bucket(b_all);
            let fr = fracs[(m + 1439) as usize % fracs.len()];
            check_fixed(&mut loc, &bk, RDt::new(rc::day_number(2024, 2, 29), 45_296, fr), off);
            check_fixed(&mut loc, &bk, RDt::new(rc::day_number(-44, 3, 15), 86_399, 1_000_000_000 + fr), off);
            // within a day of the ends: for one sign the wall clock leaves the range, for the other not
            check_fixed(&mut loc, &bk, RDt::from_ns(ri::max_ns() - (off.abs() as i128) * ri::NS / 2), off);
            check_fixed(&mut loc, &bk, RDt::from_ns(ri::min_ns() + (off.abs() as i128) * ri::NS / 2), off);
            check_fixed(&mut loc, &bk, RDt::from_ns(ri::max_ns() - (off.abs() as i128) * ri::NS), off);
            check_fixed(&mut loc, &bk, RDt::from_ns(ri::min_ns() + (off.abs() as i128) * ri::NS), off);
        }
        // catalogue: days x seconds (rotating) for UTC; x catalogue offsets for FixedOffset
        let csecs = gen::catalogue_secs();
        for (i, &day) in cat.iter().enumerate() {
            if i % n_shards != shard {
                continue;
            }
            for (j, &s) in csecs.iter().enumerate() {
                let fr = fracs[(i + 2 * j) % fracs.len()];
                let leap = s % 60 == 59 && (i + j) % 4 == 0;
                let r = RDt::new(day, s, if leap { fr + 1_000_000_000 } else { fr });
                check_utc(&mut loc, &bk, r);
                let off = offs[(i * 7 + j) % offs.len()];
                let r2 = if off % 60 != 0 { RDt::new(day, s, fr) } else { r };
                check_fixed(&mut loc, &bk, r2, off);
            }
        }
        if shard == 0 {
            // the exact range ends, every catalogue offset
            for &d in &dists {
                for r in [RDt::from_ns(ri::min_ns() + d), RDt::from_ns(ri::max_ns() - d)] {
                    check_utc(&mut loc, &bk, r);
                    for &off in &offs {
                        check_fixed(&mut loc, &bk, r, off);
                    }
                }
            }
        }
        let mut rng = Rng::new(ctx.seed, "C20/zoned", shard as u64);
        for _ in 0..n_random / n_shards as u64 {
            let r = gen::random_rdt_leap(&mut rng, &cat, true);
            check_utc(&mut loc, &bk, r);
            let off = match rng.below(20) {
                0..=2 => 0,
                3..=9 => rng.range(-1439, 1439) * 60,
                10..=12 => *rng.pick(&offs),
                _ => rng.range(-86_399, 86_399),
            };
            let r2 = if off % 60 != 0 { RDt::new(r.day, r.secs, r.frac % 1_000_000_000) } else { r };
            check_fixed(&mut loc, &bk, r2, off);
        }
        // headroom: instants within a day of a range end, whole-minute offsets of both signs
        for _ in 0..n_headroom / n_shards as u64 {
            let d: i128 = match rng.below(3) {
                0 => *rng.pick(&dists),
                1 => rng.range(0, 86_399) as i128 * ri::NS + gen::random_frac(&mut rng) as i128,
                _ => rng.log_u64(47) as i128 % (86_400 * ri::NS),
            };
            let r = if rng.chance(1, 2) { RDt::from_ns(ri::max_ns() - d) } else { RDt::from_ns(ri::min_ns() + d) };
            let off = match rng.below(4) {
                0 => *rng.pick(&[60i64, -60, 86_340, -86_340, 3600, -3600]),
                _ => rng.range(-1439, 1439) * 60,
            };
            check_fixed(&mut loc, &bk, r, off);
        }
    });
}

// ------------------------------------------------------------------------------------------------
// DateTime<Local> (small; instant only)
// ------------------------------------------------------------------------------------------------

fn local(ctx: &Ctx, rep: &Report) {
    let b = bi("local");
    let n = ctx.n(8_000, 200_000);
    let n_shards = 16usize;
    let (lo, hi) = (rc::day_number(1970, 1, 1), rc::day_number(2037, 12, 31));
    par_shards(rep, ctx.threads, n_shards, |shard| {
        let mut loc = rep.local();
        let mut rng = Rng::new(ctx.seed, "C20/local", shard as u64);
        for i in 0..n / n_shards as u64 {
            let r = if i < 4 && shard == 0 {
                [RDt::new(lo, 0, 0), RDt::new(hi, 86_399, 999_999_999), RDt::new(rc::day_number(2016, 12, 31), 86_399, 1_500_000_000), RDt::new(rc::day_number(2001, 9, 9), 6_400, 123_000_000)][i as usize]
            } else {
                RDt::new(rng.range(lo, hi), gen::random_secs(&mut rng), gen::random_frac(&mut rng))
            };
            let Some(ndt) = r.to_chrono() else { continue };
            // building the value is not this property's subject; a panic here is skipped
            let Ok(v) = guard(|| Local.from_utc_datetime(&ndt)) else { continue };
            let off = v.offset().local_minus_utc() as i64;
            let class = if off % 60 != 0 { "/sub-minute-offset" } else { "" };
            for f in FMTS {
                loc.bucket(b);
                loc.nontrivial(h2(f as u64, h_rdt(8, &r)));
                let show = || json!({"utc": show_rdt(&r), "local_offset_seconds": off});
                if let Some((back, enc)) = round_trip::<DateTime<Local>, DateTime<Local>>(&mut loc, "DateTime<Local>", class, f, &v, &show) {
                    if RDt::of(&back.naive_utc()) != r {
                        loc.violation(
                            &format!("C20/DateTime<Local>/instant-changed{}", class),
                            json!({"format": f.name(), "input": show(), "serialized": enc.show(), "observed_utc": show_rdt(&RDt::of(&back.naive_utc()))}),
                        );
                    }
                }
            }
        }
    });
}

// ------------------------------------------------------------------------------------------------
// TimeDelta
// ------------------------------------------------------------------------------------------------

fn check_td(loc: &mut Loc, bk: &[usize; 4], ns: i128, random: bool) {
    let Some(v) = ri::td_from_ns(ns) else {
        loc.rep.harness_error(format!("c20: TimeDelta of {} ns not constructible", ns));
        return;
    };
    for f in FMTS {
        if ns == 0 {
            loc.bucket(bk[0]);
        }
        if ns < 0 && ns % ri::NS != 0 {
            loc.bucket(bk[1]);
        }
        if ns == ri::TD_MIN_NS || ns == ri::TD_MAX_NS {
            loc.bucket(bk[2]);
        }
        if random {
            loc.bucket(bk[3]);
        }
        if ns != 0 {
            loc.nontrivial(h2(9, h2(f as u64, h2(ns as u64, (ns >> 64) as u64))));
        }
        if let Some((back, enc)) = round_trip::<TimeDelta, TimeDelta>(loc, "TimeDelta", "", f, &v, &|| json!({"ns": ns.to_string()})) {
            if back != v || ri::td_ns(&back) != ns {
                loc.violation(
                    "C20/TimeDelta/value-changed",
                    json!({"format": f.name(), "input_ns": ns.to_string(), "serialized": enc.show(), "observed_ns": ri::td_ns(&back).to_string()}),
                );
            }
            loc.sample(|| json!({"type": "TimeDelta", "format": f.name(), "input_ns": ns.to_string(), "serialized": enc.show()}));
        }
    }
}

/// A (seconds, nanoseconds) pair as it appears on the wire. A pair with 0 <= n < 10^9 inside the
/// closed TimeDelta range is the serialized form of exactly one value and must read back as it;
/// whatever is read from any other pair must at least be a value of the type (within MIN..=MAX).
fn check_td_pair(loc: &mut Loc, bk: &[usize; 4], s: i64, n: i32) {
    let total = s as i128 * ri::NS + n as i128;
    let canonical = (0..1_000_000_000).contains(&n);
    let in_range = canonical && (ri::TD_MIN_NS..=ri::TD_MAX_NS).contains(&total);
    let edge = canonical && ((total - ri::TD_MIN_NS).abs() <= 2 * ri::NS || (total - ri::TD_MAX_NS).abs() <= 2 * ri::NS);
    for f in FMTS {
        loc.eval();
        loc.bucket(if !canonical { bk[2] } else if in_range { bk[0] } else { bk[1] });
        if edge {
            loc.bucket(bk[3]);
        }
        loc.nontrivial(h2(10, h2(f as u64, h2(s as u64, n as u64))));
        let enc = match f {
            Fmt::Json => Enc::Json(format!("[{},{}]", s, n)),
            Fmt::Bin => {
                let mut b = s.to_le_bytes().to_vec();
                b.extend_from_slice(&n.to_le_bytes());
                Enc::Bin(b)
            }
        };
        let got = match guard(|| decode::<TimeDelta>(&enc)) {
            Err(p) => {
                loc.violation(
                    &format!("C20/TimeDelta/deserialize/panic@{}", p.site()),
                    json!({"format": f.name(), "pair": [s as i128, n as i128], "serialized": enc.show(), "panic": p.to_json()}),
                );
                continue;
            }
            Ok(g) => g,
        };
        match got {
            Ok(td) => {
                // accessors of a value outside the type's range may themselves overflow
                let obs = guard(|| ri::td_ns(&td)).unwrap_or(i128::MAX);
                let valid = td >= TimeDelta::MIN && td <= TimeDelta::MAX && (ri::TD_MIN_NS..=ri::TD_MAX_NS).contains(&obs) && (0..1_000_000_000).contains(&td.subsec_nanos());
                if in_range {
                    if obs != total {
                        loc.violation(
                            "C20/TimeDelta/deserialize/wrong-value-for-pair",
                            json!({"format": f.name(), "pair": [s as i128, n as i128], "expected_ns": total.to_string(), "observed_ns": obs.to_string()}),
                        );
                    }
                } else if !valid || canonical {
                    loc.violation(
                        "C20/TimeDelta/deserialize/out-of-range-pair-accepted",
                        json!({"format": f.name(), "pair": [s as i128, n as i128], "expected": "Err (pair denotes no TimeDelta in MIN..=MAX)", "observed": format!("{:?}", td),
                               "observed_ns": obs.to_string(), "max_ns": ri::TD_MAX_NS.to_string()}),
                    );
                }
            }
            Err(e) => {
                if in_range {
                    loc.violation(
                        "C20/TimeDelta/deserialize/rejected-in-range-pair",
                        json!({"format": f.name(), "pair": [s as i128, n as i128], "error": e, "expected_ns": total.to_string()}),
                    );
                }
            }
        }
    }
}

fn durations(ctx: &Ctx, rep: &Report) {
    let bk = [bi("td_zero"), bi("td_negative_fraction"), bi("td_range_end"), bi("td_random")];
    let pk = [bi("td_pair_in_range"), bi("td_pair_out_of_range"), bi("td_pair_bad_nanos"), bi("td_pair_range_edge")];
    let mut cat: Vec<i128> = Vec::new();
    for k in -3..=3i128 {
        for base in [0i128, ri::NS, -ri::NS, 60 * ri::NS, 86_400 * ri::NS, -86_400 * ri::NS, i64::MAX as i128, i64::MIN as i128, u64::MAX as i128, i32::MAX as i128 * ri::NS, i32::MIN as i128 * ri::NS] {
            cat.push(base + k);
        }
        cat.push(ri::TD_MAX_NS - k.abs());
        cat.push(ri::TD_MIN_NS + k.abs());
        cat.push(ri::TD_MAX_NS - k.abs() * 1_000_000);
        cat.push(ri::TD_MIN_NS + k.abs() * 1_000_000);
        cat.push(ri::TD_MAX_NS - 807_000_000 + k);
        cat.push(ri::TD_MIN_NS + 807_000_000 + k);
    }
    for x in gen::catalogue_i64() {
        for u in [1i128, 1_000, 1_000_000, ri::NS] {
            cat.push(x as i128 * u);
        }
    }
    cat.retain(|x| (ri::TD_MIN_NS..=ri::TD_MAX_NS).contains(x));
    cat.sort();
    cat.dedup();
    let max_s = (ri::TD_MAX_NS / ri::NS) as i64; // 9223372036854775
    let min_s = ri::TD_MIN_NS.div_euclid(ri::NS) as i64; // -9223372036854776
    let mut pair_s: Vec<i64> = gen::catalogue_i64();
    for k in -3..=3 {
        pair_s.push(max_s + k);
        pair_s.push(min_s + k);
    }
    let pair_n: Vec<i32> = vec![
        0, 1, -1, 192_999_999, 193_000_000, 193_000_001, 806_999_999, 807_000_000, 807_000_001, 999_999_999, 1_000_000_000,
        1_000_000_001, 1_193_000_000, -193_000_000, -807_000_000, -1_000_000_000, i32::MAX, i32::MIN,
    ];
    let n_shards = 32usize;
    let n_random = ctx.n(160_000, 12_000_000);
    par_shards(rep, ctx.threads, n_shards, |shard| {
        let mut loc = rep.local();
        for (i, &ns) in cat.iter().enumerate() {
            if i % n_shards == shard {
                check_td(&mut loc, &bk, ns, false);
            }
        }
        for (i, &s) in pair_s.iter().enumerate() {
            if i % n_shards == shard {
                for &n in &pair_n {
                    check_td_pair(&mut loc, &pk, s, n);
                }
            }
        }
        let mut rng = Rng::new(ctx.seed, "C20/td", shard as u64);
        for _ in 0..n_random / n_shards as u64 {
            match rng.below(4) {
                0 => {
                    let ns = rng.range128(ri::TD_MIN_NS, ri::TD_MAX_NS);
                    check_td(&mut loc, &bk, ns, true);
                }
                1 | 2 => {
                    let bits = rng.below(84) as u32;
                    let mag = if bits == 0 { 0 } else { rng.range128(0, (1i128 << bits) - 1) };
                    let ns = (if rng.chance(1, 2) { -mag } else { mag }).clamp(ri::TD_MIN_NS, ri::TD_MAX_NS);
                    check_td(&mut loc, &bk, ns, true);
                }
                _ => {
                    let s = match rng.below(4) {
                        0 => rng.next() as i64,
                        1 => rng.range(min_s - 1000, min_s + 1000),
                        2 => rng.range(max_s - 1000, max_s + 1000),
                        _ => rng.log_i64(63),
                    };
                    let n = match rng.below(4) {
                        0 => rng.next() as i32,
                        1 => *rng.pick(&pair_n),
                        _ => rng.range(0, 999_999_999) as i32,
                    };
                    check_td_pair(&mut loc, &pk, s, n);
                }
            }
        }
    });
}

// ------------------------------------------------------------------------------------------------
// timestamp helper modules: serialization of values
// ------------------------------------------------------------------------------------------------

struct SBk {
    unit: [usize; 4],
    pre_epoch_frac: usize,
    ns_outside: usize,
    ns_edge: usize,
    range_end: usize,
    leap: usize,
    none: usize,
    json: usize,
    bin: usize,
    naive: usize,
    utc: usize,
    option: usize,
}

fn expected_int_enc(f: Fmt, opt: bool, count: Option<i64>) -> Enc {
    match (f, count) {
        (Fmt::Json, Some(c)) => Enc::Json(c.to_string()),
        (Fmt::Json, None) => Enc::Json("null".to_string()),
        (Fmt::Bin, Some(c)) => {
            let mut b = if opt { vec![1u8] } else { Vec::new() };
            b.extend_from_slice(&c.to_le_bytes());
            Enc::Bin(b)
        }
        (Fmt::Bin, None) => Enc::Bin(vec![0u8]),
    }
}

/// instant denoted by `v` units after the epoch, if representable
fn exp_feed(unit: i128, v: i128) -> Option<RDt> {
    let ns = ri::epoch_ns() + v * unit;
    if (ri::min_ns()..=ri::max_ns()).contains(&ns) {
        Some(RDt::from_ns(ns))
    } else {
        None
    }
}

fn ts_ser_one<M: TsMod>(loc: &mut Loc, bk: &SBk, v: Option<RDt>) {
    if v.is_none() && !M::OPT {
        return;
    }
    let ndt = match v {
        Some(r) => match r.to_chrono() {
            Some(x) => Some(x),
            None => {
                loc.rep.harness_error(format!("c20: {:?} not constructible", r));
                return;
            }
        },
        None => None,
    };
    let show = || json!({"module": M::LABEL, "value_utc": v.as_ref().map(show_rdt)});
    for f in FMTS {
        loc.eval();
        loc.bucket(bk.unit[M::UNIT_IDX]);
        loc.bucket(if f == Fmt::Json { bk.json } else { bk.bin });
        loc.bucket(if M::NAIVE { bk.naive } else { bk.utc });
        if M::OPT {
            loc.bucket(bk.option);
        }
        let w = M::wrap(ndt);
        let enc = guard(|| encode(f, &w));
        let enc = match enc {
            Err(p) => {
                loc.violation(
                    &format!("C20/{}/serialize/panic@{}", M::LABEL, p.site()),
                    json!({"format": f.name(), "input": show(), "panic": p.to_json()}),
                );
                continue;
            }
            Ok(e) => e,
        };
        let Some(r) = v else {
            // None through an option module
            loc.bucket(bk.none);
            let exp = expected_int_enc(f, true, None);
            match enc {
                Ok(e) if e == exp => match guard(|| decode::<M::W>(&e).map(M::unwrap)) {
                    Ok(Ok(None)) => {}
                    Ok(other) => loc.violation(
                        &format!("C20/{}/deserialize/none-not-restored", M::LABEL),
                        json!({"format": f.name(), "serialized": e.show(), "expected": "Ok(None)", "observed": format!("{:?}", other)}),
                    ),
                    Err(p) => loc.violation(
                        &format!("C20/{}/deserialize/panic@{}", M::LABEL, p.site()),
                        json!({"format": f.name(), "serialized": e.show(), "panic": p.to_json()}),
                    ),
                },
                other => loc.violation(
                    &format!("C20/{}/serialize/none-not-written-as-none", M::LABEL),
                    json!({"format": f.name(), "expected": exp.show(), "observed": format!("{:?}", other)}),
                ),
            }
            continue;
        };
        if r.is_leap() {
            // a timestamp cannot carry a leap second: only "no panic" is asserted
            loc.bucket(bk.leap);
            loc.nontrivial(h2(M::UNIT_IDX as u64 + 16 * f as u64, h_rdt(11, &r)));
            continue;
        }
        let d = r.ns() - ri::epoch_ns();
        let count = floor_div(d, M::UNIT);
        let fits = i64::try_from(count).ok();
        if d < 0 && d.rem_euclid(M::UNIT) != 0 {
            loc.bucket(bk.pre_epoch_frac);
        }
        if r.ns() == ri::min_ns() || r.ns() == ri::max_ns() {
            loc.bucket(bk.range_end);
        }
        if M::UNIT == 1 && (count == i64::MIN as i128 || count == i64::MAX as i128) {
            loc.bucket(bk.ns_edge);
        }
        loc.nontrivial(h2(M::UNIT_IDX as u64 + 16 * f as u64 + 32 * M::OPT as u64 + 64 * M::NAIVE as u64, h_rdt(12, &r)));
        match (enc, fits) {
            (Err(_), None) => {
                // the count does not fit an i64: refusing is the only exact answer
                loc.bucket(bk.ns_outside);
            }
            (Err(e), Some(c)) => loc.violation(
                &format!("C20/{}/serialize/error-for-representable-timestamp", M::LABEL),
                json!({"format": f.name(), "input": show(), "expected_integer": c, "error": e}),
            ),
            (Ok(e), None) => loc.violation(
                &format!("C20/{}/serialize/wrote-integer-outside-i64-window", M::LABEL),
                json!({"format": f.name(), "input": show(), "exact_count": count.to_string(), "observed": e.show()}),
            ),
            (Ok(e), Some(c)) => {
                let exp = expected_int_enc(f, M::OPT, Some(c));
                if e != exp {
                    loc.violation(
                        &format!("C20/{}/serialize/wrong-integer", M::LABEL),
                        json!({"format": f.name(), "input": show(), "expected": exp.show(), "observed": e.show()}),
                    );
                    continue;
                }
                // read back: the instant truncated to the module's precision
                let want = RDt::from_ns(ri::epoch_ns() + count * M::UNIT);
                match guard(|| decode::<M::W>(&e).map(M::unwrap)) {
                    Err(p) => loc.violation(
                        &format!("C20/{}/deserialize/panic@{}", M::LABEL, p.site()),
                        json!({"format": f.name(), "input": show(), "serialized": e.show(), "panic": p.to_json()}),
                    ),
                    Ok(Err(err)) => loc.violation(
                        &format!("C20/{}/deserialize/rejected-own-output", M::LABEL),
                        json!({"format": f.name(), "input": show(), "serialized": e.show(), "error": err}),
                    ),
                    Ok(Ok(None)) => loc.violation(
                        &format!("C20/{}/deserialize/none-for-integer", M::LABEL),
                        json!({"format": f.name(), "input": show(), "serialized": e.show()}),
                    ),
                    Ok(Ok(Some(back))) => {
                        if RDt::of(&back) != want {
                            loc.violation(
                                &format!("C20/{}/deserialize/wrong-instant", M::LABEL),
                                json!({"format": f.name(), "input": show(), "serialized": e.show(), "expected_utc": show_rdt(&want), "observed_utc": show_rdt(&RDt::of(&back))}),
                            );
                        }
                        loc.sample(|| json!({"module": M::LABEL, "format": f.name(), "value_utc": show_rdt(&r), "serialized": e.show(), "read_back_utc": show_rdt(&want)}));
                    }
                }
            }
        }
    }
}

fn ts_ser_all(loc: &mut Loc, bk: &SBk, v: Option<RDt>) {
    for_mods!(ts_ser_one(loc, bk, v));
}

fn ts_serialize(ctx: &Ctx, rep: &Report) {
    let bk = SBk {
        unit: [bi("ts_ser_s"), bi("ts_ser_ms"), bi("ts_ser_us"), bi("ts_ser_ns")],
        pre_epoch_frac: bi("ts_ser_pre_epoch_fraction"),
        ns_outside: bi("ts_ser_ns_outside_i64_window"),
        ns_edge: bi("ts_ser_ns_window_edge"),
        range_end: bi("ts_ser_range_end"),
        leap: bi("ts_ser_leap"),
        none: bi("ts_ser_none"),
        json: bi("ts_ser_json"),
        bin: bi("ts_ser_bincode"),
        naive: bi("ts_ser_naive"),
        utc: bi("ts_ser_utc"),
        option: bi("ts_ser_option"),
    };
    let cat = gen::catalogue_days();
    let csecs = gen::catalogue_secs();
    let fracs = gen::catalogue_fracs();
    // deterministic list
    let mut det: Vec<Option<RDt>> = vec![None];
    for k in -3..=3i128 {
        det.push(Some(RDt::from_ns(ri::epoch_ns() + i64::MIN as i128 + k)));
        det.push(Some(RDt::from_ns(ri::epoch_ns() + i64::MAX as i128 + k)));
        det.push(Some(RDt::from_ns(ri::epoch_ns() + k)));
        det.push(Some(RDt::from_ns(ri::epoch_ns() + k * 1_000)));
        det.push(Some(RDt::from_ns(ri::epoch_ns() + k * 1_000_000)));
        det.push(Some(RDt::from_ns(ri::epoch_ns() + k * ri::NS)));
        det.push(Some(RDt::from_ns(ri::min_ns() + k.abs())));
        det.push(Some(RDt::from_ns(ri::max_ns() - k.abs())));
        det.push(Some(RDt::from_ns(ri::min_ns() + k.abs() * ri::NS)));
        det.push(Some(RDt::from_ns(ri::max_ns() - k.abs() * ri::NS)));
    }
    for (i, &day) in cat.iter().enumerate() {
        // two seconds and fractions per catalogue day, rotating
        for j in 0..2 {
            let s = csecs[(i * 2 + j) % csecs.len()];
            let fr = fracs[(i + j * 5) % fracs.len()];
            det.push(Some(RDt::new(day, s, fr)));
        }
        if i % 5 == 0 {
            det.push(Some(RDt::new(day, 86_399, 1_000_000_000 + fracs[i % fracs.len()])));
        }
    }
    let n_shards = 64usize;
    let n_random = ctx.n(40_000, 2_400_000);
    par_shards(rep, ctx.threads, n_shards, |shard| {
        let mut loc = rep.local();
        for (i, v) in det.iter().enumerate() {
            if i % n_shards == shard {
                ts_ser_all(&mut loc, &bk, *v);
            }
        }
        let mut rng = Rng::new(ctx.seed, "C20/ts-ser", shard as u64);
        for _ in 0..n_random / n_shards as u64 {
            let r = match rng.below(8) {
                // inside / around the i64-nanosecond window
                0 | 1 => RDt::from_ns(ri::epoch_ns() + rng.next() as i64 as i128),
                2 => RDt::from_ns(ri::epoch_ns() + rng.log_i64(63) as i128),
                3 => RDt::from_ns((ri::epoch_ns() + (if rng.chance(1, 2) { i64::MIN } else { i64::MAX }) as i128 + rng.log_i64(40) as i128).clamp(ri::min_ns(), ri::max_ns())),
                _ => gen::random_rdt_leap(&mut rng, &cat, true),
            };
            ts_ser_all(&mut loc, &bk, Some(r));
        }
    });
}

// ------------------------------------------------------------------------------------------------
// timestamp helper modules: integers fed to the readers
// ------------------------------------------------------------------------------------------------

struct FBk {
    /// [unit][0 = visit_i64, 1 = visit_u64]
    unit_visit: [[usize; 2]; 4],
    in_neg: usize,
    in_nonneg: usize,
    below: usize,
    above: usize,
    neg_nonmultiple: usize,
    end_exact: usize,
    end_outside1: usize,
    u64_above: usize,
    ns_u64_above_in: usize,
    json: usize,
    bin: usize,
    direct: usize,
    none: usize,
    opt_some: usize,
    naive: usize,
    utc: usize,
}

#[derive(Clone, Copy, PartialEq, Eq, Debug)]
enum Route {
    /// the module's own `deserialize` on the integer deserializer (visit_i64 or visit_u64 as given)
    Direct,
    /// JSON text through the `#[serde(with = …)]` wrapper (non-negative -> visit_u64, negative -> visit_i64)
    Json,
    /// bincode bytes through the wrapper (visit_i64)
    Bin,
}

/// representable counts of a unit: [lo, hi]
fn count_range(unit: i128) -> (i128, i128) {
    (ceil_div(ri::min_ns() - ri::epoch_ns(), unit), floor_div(ri::max_ns() - ri::epoch_ns(), unit))
}

fn feed_one<M: TsMod>(loc: &mut Loc, bk: &FBk, input: IntIn, route: Route) {
    // which visitor method the route reaches, and the integer as i128
    let (v, visit_u): (i128, bool) = match (input, route) {
        (IntIn::I64(x), Route::Direct) | (IntIn::I64(x), Route::Bin) => (x as i128, false),
        (IntIn::I64(x), Route::Json) => (x as i128, x >= 0),
        (IntIn::U64(x), Route::Direct) | (IntIn::U64(x), Route::Json) => (x as i128, true),
        (IntIn::U64(_), Route::Bin) => return,
        (IntIn::None, _) | (IntIn::Unit, _) => return feed_none::<M>(loc, bk, input, route),
    };
    let visit = if visit_u { "visit_u64" } else { "visit_i64" };
    let exp = exp_feed(M::UNIT, v);
    let (lo, hi) = count_range(M::UNIT);
    loc.eval();
    loc.bucket(bk.unit_visit[M::UNIT_IDX][visit_u as usize]);
    loc.bucket(match (exp.is_some(), v < 0) {
        (true, true) => bk.in_neg,
        (true, false) => bk.in_nonneg,
        (false, true) => bk.below,
        (false, false) => bk.above,
    });
    let per_sec = ri::NS / M::UNIT;
    if v < 0 && v.rem_euclid(per_sec) != 0 && exp.is_some() {
        loc.bucket(bk.neg_nonmultiple);
    }
    if v == lo || v == hi {
        loc.bucket(bk.end_exact);
    }
    if v == lo - 1 || v == hi + 1 {
        loc.bucket(bk.end_outside1);
    }
    if v > i64::MAX as i128 {
        loc.bucket(bk.u64_above);
        if exp.is_some() {
            loc.bucket(bk.ns_u64_above_in);
        }
    }
    loc.bucket(match route {
        Route::Direct => bk.direct,
        Route::Json => bk.json,
        Route::Bin => bk.bin,
    });
    loc.bucket(if M::NAIVE { bk.naive } else { bk.utc });
    if M::OPT {
        loc.bucket(bk.opt_some);
    }
    if v != 0 {
        loc.nontrivial(h2(
            13 + 100 * (M::UNIT_IDX as u64 + 4 * M::OPT as u64 + 8 * M::NAIVE as u64 + 16 * route as u64 + 64 * visit_u as u64),
            h2(v as u64, (v >> 64) as u64),
        ));
    }
    let got: Result<Result<Option<NaiveDateTime>, String>, _> = guard(|| match route {
        Route::Direct => M::direct(IntDe(input)).map_err(|e| e.to_string()),
        Route::Json => serde_json::from_str::<M::W>(&v.to_string()).map(M::unwrap).map_err(|e| e.to_string()),
        Route::Bin => {
            let mut b = if M::OPT { vec![1u8] } else { Vec::new() };
            b.extend_from_slice(&(v as i64).to_le_bytes());
            bincode::deserialize::<M::W>(&b).map(M::unwrap).map_err(|e| e.to_string())
        }
    });
    let wit = |extra: Value| json!({"module": M::LABEL, "visitor_method": visit, "route": format!("{:?}", route), "integer": v.to_string(), "unit_ns": M::UNIT as i64,
        "representable_counts": [lo.to_string(), hi.to_string()], "expected_utc": exp.as_ref().map(show_rdt), "observed": extra});
    match got {
        Err(p) => loc.violation(&format!("C20/{}/{}/panic@{}", M::LABEL, visit, p.site()), wit(p.to_json())),
        Ok(Ok(Some(x))) => {
            let obs = RDt::of(&x);
            match exp {
                None => loc.violation(&format!("C20/{}/{}/accepted-out-of-range", M::LABEL, visit), wit(show_rdt(&obs))),
                Some(e) if e != obs => loc.violation(&format!("C20/{}/{}/wrong-instant", M::LABEL, visit), wit(show_rdt(&obs))),
                Some(_) => loc.sample(|| wit(show_rdt(&obs))),
            }
        }
        Ok(Ok(None)) => loc.violation(&format!("C20/{}/{}/none-for-integer", M::LABEL, visit), wit(json!("Ok(None)"))),
        Ok(Err(e)) => {
            if exp.is_some() {
                loc.violation(&format!("C20/{}/{}/rejected-in-range", M::LABEL, visit), wit(json!({"error": e})));
            }
        }
    }
}

fn feed_none<M: TsMod>(loc: &mut Loc, bk: &FBk, input: IntIn, route: Route) {
    if !M::OPT {
        return;
    }
    loc.eval();
    loc.bucket(bk.none);
    loc.nontrivial(h2(14, h2(M::UNIT_IDX as u64 + 4 * M::NAIVE as u64, route as u64 * 4 + (input == IntIn::Unit) as u64)));
    let got = guard(|| match route {
        Route::Direct => M::direct(IntDe(input)).map_err(|e| e.to_string()),
        Route::Json => serde_json::from_str::<M::W>("null").map(M::unwrap).map_err(|e| e.to_string()),
        Route::Bin => bincode::deserialize::<M::W>(&[0u8]).map(M::unwrap).map_err(|e| e.to_string()),
    });
    match got {
        Ok(Ok(None)) => {}
        Ok(other) => loc.violation(
            &format!("C20/{}/none/not-read-as-none", M::LABEL),
            json!({"module": M::LABEL, "route": format!("{:?}", route), "input": format!("{:?}", input), "expected": "Ok(None)", "observed": format!("{:?}", other)}),
        ),
        Err(p) => loc.violation(
            &format!("C20/{}/none/panic@{}", M::LABEL, p.site()),
            json!({"module": M::LABEL, "route": format!("{:?}", route), "panic": p.to_json()}),
        ),
    }
}

/// all routes an integer (given as i128 in i64::MIN..=u64::MAX) can take
fn feed_int<M: TsMod>(loc: &mut Loc, bk: &FBk, v: i128) {
    if let Ok(x) = i64::try_from(v) {
        feed_one::<M>(loc, bk, IntIn::I64(x), Route::Direct);
        feed_one::<M>(loc, bk, IntIn::I64(x), Route::Bin);
        feed_one::<M>(loc, bk, IntIn::I64(x), Route::Json);
    }
    if let Ok(x) = u64::try_from(v) {
        feed_one::<M>(loc, bk, IntIn::U64(x), Route::Direct);
        if x > i64::MAX as u64 {
            feed_one::<M>(loc, bk, IntIn::U64(x), Route::Json);
        }
    }
}

fn int_catalogue(unit: i128) -> Vec<i128> {
    let (lo, hi) = count_range(unit);
    let per_sec = ri::NS / unit;
    let mut v: Vec<i128> = Vec::new();
    for k in -3..=3i128 {
        for base in [0, lo, hi, i64::MAX as i128, i64::MIN as i128, u64::MAX as i128, 1i128 << 63, 1i128 << 32, 1i128 << 31, -(1i128 << 31), -(1i128 << 32)] {
            v.push(base + k);
        }
        for base in [per_sec, 60 * per_sec, 86_400 * per_sec, 1_000, 1_000_000, 1_000_000_000, 1_000_000_000_000, 1_000_000_000_000_000, 1_000_000_000_000_000_000] {
            v.push(base + k);
            v.push(-base + k);
        }
        // the i64-nanosecond window and the 0..=9999 year window expressed in this unit
        v.push(floor_div(i64::MAX as i128, unit) + k);
        v.push(floor_div(i64::MIN as i128, unit) + k);
        v.push(floor_div(RDt::new(rc::day_number(1, 1, 1), 0, 0).ns() - ri::epoch_ns(), unit) + k);
        v.push(floor_div(RDt::new(rc::day_number(9999, 12, 31), 86_399, 999_999_999).ns() - ri::epoch_ns(), unit) + k);
        // u64 values whose quotient by the per-second factor crosses i64/u32 boundaries
        v.push((1i128 << 32) * per_sec + k);
        v.push((1i128 << 31) * per_sec + k);
    }
    // negative values with every kind of sub-second remainder
    for q in [1i128, 2, 59, 86_400, 86_401, 1_000_000, 1_526_522_699] {
        for r in [1i128, 2, 499, 500, 501, 999, 999_999, 999_999_999, 123_456_789, 918_355_733] {
            if r < per_sec {
                v.push(-(q * per_sec) - r);
                v.push(-(q * per_sec) + r);
                v.push(q * per_sec + r);
            }
        }
    }
    for x in gen::catalogue_i64() {
        v.push(x as i128);
    }
    v.retain(|x| *x >= i64::MIN as i128 && *x <= u64::MAX as i128);
    v.sort();
    v.dedup();
    v
}

fn feed_module<M: TsMod>(ctx: &Ctx, rep: &Report, bk: &FBk) {
    let cat = int_catalogue(M::UNIT);
    let (lo, hi) = count_range(M::UNIT);
    let n_shards = 16usize;
    let n_random = ctx.n(48_000, 3_000_000);
    par_shards(rep, ctx.threads, n_shards, |shard| {
        let mut loc = rep.local();
        if shard == 0 && M::OPT {
            for (inp, route) in [(IntIn::None, Route::Direct), (IntIn::Unit, Route::Direct), (IntIn::None, Route::Json), (IntIn::None, Route::Bin)] {
                feed_one::<M>(&mut loc, bk, inp, route);
            }
        }
        for (i, &v) in cat.iter().enumerate() {
            if i % n_shards == shard {
                feed_int::<M>(&mut loc, bk, v);
            }
        }
        let mut rng = Rng::new(ctx.seed, &format!("C20/feed/{}", M::LABEL), shard as u64);
        let clampv = |x: i128| x.clamp(i64::MIN as i128, u64::MAX as i128);
        for _ in 0..n_random / n_shards as u64 {
            let v: i128 = match rng.below(10) {
                // uniform over the representable counts, with a margin on both sides
                0..=2 => clampv(rng.range128(lo - (hi - lo) / 8, hi + (hi - lo) / 8)),
                3 => clampv(*rng.pick(&[lo, hi]) + rng.log_i64(40) as i128),
                4 => clampv(*rng.pick(&cat) + rng.range(-5, 5) as i128),
                5..=6 => rng.log_i64(63) as i128,
                7 => -(rng.log_u64(50) as i128),
                8 => rng.next() as i64 as i128,
                _ => rng.next() as i128,
            };
            feed_int::<M>(&mut loc, bk, v);
        }
    });
}

fn ts_feed(ctx: &Ctx, rep: &Report) {
    let uv = |u: &str| [bi(&format!("feed_{}_i64", u)), bi(&format!("feed_{}_u64", u))];
    let bk = FBk {
        unit_visit: [uv("s"), uv("ms"), uv("us"), uv("ns")],
        in_neg: bi("feed_in_range_negative"),
        in_nonneg: bi("feed_in_range_nonnegative"),
        below: bi("feed_below_range"),
        above: bi("feed_above_range"),
        neg_nonmultiple: bi("feed_negative_nonmultiple"),
        end_exact: bi("feed_range_end_exact"),
        end_outside1: bi("feed_range_end_outside_by_one"),
        u64_above: bi("feed_u64_above_i64_max"),
        ns_u64_above_in: bi("feed_ns_u64_above_i64_max_in_range"),
        json: bi("feed_json"),
        bin: bi("feed_bincode"),
        direct: bi("feed_direct"),
        none: bi("feed_none"),
        opt_some: bi("feed_option_some"),
        naive: bi("feed_naive"),
        utc: bi("feed_utc"),
    };
    let bk = &bk;
    for_mods!(feed_module(ctx, rep, bk));
}
