//! C14 — field resolution (`format::Parsed`) never returns a value that contradicts a supplied
//! field; derived sufficient sets resolve to exactly the value; insufficient sets are "not
//! enough"; contradicting / non-existent sets are "impossible" or "out of range"; a setter called
//! twice is accepted exactly when the two values are equal.
//!
//! Oracle (R-parsed): all 21 fields of a value are recomputed with R-cal (no chrono tables); a
//! reference resolver written from the rustdoc of `Parsed` (list of sufficient combinations,
//! setter ranges, 1970–2069 pivot, "second 60 = leap second", "timestamp may be off by one on a
//! leap second") decides what a field set denotes: a candidate is computed from the first
//! sufficient combination and *every* supplied field is compared with the fields of the candidate.
//!
//! Ambiguity table (the oracle asserts only the weaker reading there):
//!  * a year group holding only the two-digit year whose pivot year differs from the year fixed
//!    by another combination / the timestamp: chrono sometimes accepts (verifier compares only
//!    `% 100`), sometimes reports `Impossible`; the property text gives no usable reading
//!    ("otherwise it fails" cannot be meant literally since `{yy, month, day}` must succeed) →
//!    accepted outcomes: any error, or a success that passes the soundness monitor.
//!  * date + hour + minute without second, plus a timestamp whose second-of-minute is not 0:
//!    rustdoc says the missing second is "assumed 0" (→ conflict with the timestamp) but the
//!    timestamp alone determines the value → same weak expectation.
//!  * a group holding only the century, together with a timestamp: chrono resolves (the timestamp
//!    supplies the year); the property calls the group indeterminate → no claim on failure.
//!  * error *kind* is asserted only (a) derived but insufficient → `NotEnough`, (b) a sufficient
//!    set with a contradiction / out-of-range / non-existent value → `Impossible | OutOfRange`.
//!  * `to_naive_date` is compared with date fields only, `to_naive_time` with time fields only,
//!    `to_naive_datetime_with_offset` with everything but the offset field (documented).
//!  * `set_hour` rustdoc: "May return OUT_OF_RANGE if value is not in 0-23; currently only checks
//!    u32" → acceptance of 24..=u32::MAX is not asserted.

use crate::gen;
use crate::mon::{h2, par_shards, Ctx, Local, Outcome, Report, Tier};
use crate::refcal as rc;
use crate::refinst::{self, RDt};
use crate::rng::Rng;
use chrono::format::{ParseErrorKind, ParseResult, Parsed};
use chrono::{DateTime, FixedOffset, NaiveDate, NaiveDateTime, NaiveTime, TimeZone, Timelike, Utc};
use serde_json::{json, Value};

// ------------------------------------------------------------------------------------------------
// Field sets
// ------------------------------------------------------------------------------------------------

const Y: usize = 0;
const YQ: usize = 1;
const YR: usize = 2;
const IY: usize = 3;
const IQ: usize = 4;
const IR: usize = 5;
const QU: usize = 6;
const MO: usize = 7;
const WS: usize = 8;
const WM: usize = 9;
const IW: usize = 10;
const WD: usize = 11;
const OR: usize = 12;
const DA: usize = 13;
const HD: usize = 14;
const HM: usize = 15;
const MI: usize = 16;
const SE: usize = 17;
const NS: usize = 18;
const TS: usize = 19;
const OF: usize = 20;
const NF: usize = 21;
const N_DATE: usize = 14;

const NAMES: [&str; NF] = [
    "year", "year_div_100", "year_mod_100", "isoyear", "isoyear_div_100", "isoyear_mod_100", "quarter", "month",
    "week_from_sun", "week_from_mon", "isoweek", "weekday", "ordinal", "day", "hour_div_12", "hour_mod_12", "minute",
    "second", "nanosecond", "timestamp", "offset",
];

const GIGA: i64 = 1_000_000_000;

/// A set of parsed fields: `None` = not supplied. Weekday: 0 = Monday … 6 = Sunday.
#[derive(Clone, Copy, PartialEq, Eq, Debug)]
struct F {
    v: [Option<i64>; NF],
}

impl F {
    fn empty() -> F {
        F { v: [None; NF] }
    }
    fn masked(&self, mask: u32) -> F {
        let mut o = F::empty();
        for i in 0..NF {
            if mask >> i & 1 == 1 {
                o.v[i] = self.v[i];
            }
        }
        o
    }
    fn json(&self) -> Value {
        let mut m = serde_json::Map::new();
        for i in 0..NF {
            if let Some(x) = self.v[i] {
                m.insert(NAMES[i].to_string(), json!(x));
            }
        }
        Value::Object(m)
    }
    fn hash(&self) -> u64 {
        let mut h = 0x14u64;
        for i in 0..NF {
            h = h2(h, match self.v[i] {
                Some(x) => (x as u64).wrapping_mul(31).wrapping_add(i as u64 + 1),
                None => 0,
            });
        }
        h
    }
    /// Build the chrono structure by writing the public fields directly (hostile values allowed
    /// as far as the field types go). `None` if a value does not fit the field's type.
    fn to_parsed(&self) -> Option<Parsed> {
        let mut p = Parsed::new();
        let i32f = |x: Option<i64>| -> Option<Option<i32>> {
            match x {
                None => Some(None),
                Some(v) => i32::try_from(v).ok().map(Some),
            }
        };
        let u32f = |x: Option<i64>| -> Option<Option<u32>> {
            match x {
                None => Some(None),
                Some(v) => u32::try_from(v).ok().map(Some),
            }
        };
        p.year = i32f(self.v[Y])?;
        p.year_div_100 = i32f(self.v[YQ])?;
        p.year_mod_100 = i32f(self.v[YR])?;
        p.isoyear = i32f(self.v[IY])?;
        p.isoyear_div_100 = i32f(self.v[IQ])?;
        p.isoyear_mod_100 = i32f(self.v[IR])?;
        p.quarter = u32f(self.v[QU])?;
        p.month = u32f(self.v[MO])?;
        p.week_from_sun = u32f(self.v[WS])?;
        p.week_from_mon = u32f(self.v[WM])?;
        p.isoweek = u32f(self.v[IW])?;
        p.weekday = match self.v[WD] {
            None => None,
            Some(w) if (0..=6).contains(&w) => Some(super::c01::wd_of(w)),
            Some(_) => return None,
        };
        p.ordinal = u32f(self.v[OR])?;
        p.day = u32f(self.v[DA])?;
        p.hour_div_12 = u32f(self.v[HD])?;
        p.hour_mod_12 = u32f(self.v[HM])?;
        p.minute = u32f(self.v[MI])?;
        p.second = u32f(self.v[SE])?;
        p.nanosecond = u32f(self.v[NS])?;
        p.timestamp = self.v[TS];
        p.offset = i32f(self.v[OF])?;
        Some(p)
    }
}

// ------------------------------------------------------------------------------------------------
// R-parsed: every field recomputed from a value with R-cal
// ------------------------------------------------------------------------------------------------

/// Week number "week 1 starts at the first <start> of January, days before are week 0" of the
/// day with ordinal `o` and weekday `wd` (0 = Monday); `start` likewise.
fn week_from(o: i64, wd: i64, start: i64) -> i64 {
    let since = (wd - start).rem_euclid(7);
    (o + 6 - since) / 7
}

/// The 14 date fields of CE day `n`.
fn date_fields(n: i64) -> [Option<i64>; N_DATE] {
    let (y, o) = rc::yo_from_days(n);
    let (m, d) = rc::md_from_ordinal(y, o);
    let wd = rc::weekday(n);
    let (iy, iw, _) = rc::iso_from_days(n);
    let cent = |yy: i64| if yy >= 0 { (Some(yy / 100), Some(yy % 100)) } else { (None, None) };
    let (yq, yr) = cent(y);
    let (iq, ir) = cent(iy);
    [
        Some(y), yq, yr, Some(iy), iq, ir, Some((m - 1) / 3 + 1), Some(m), Some(week_from(o, wd, 6)), Some(week_from(o, wd, 0)),
        Some(iw), Some(wd), Some(o), Some(d),
    ]
}

/// All 21 fields of the local date-time (day, secs, frac) at UTC offset `off`.
/// A leap-second representation (frac >= 1e9) has second 60; its timestamp is that of second 59.
fn all_fields(day: i64, secs: i64, frac: i64, off: i64) -> F {
    let mut f = F::empty();
    let d = date_fields(day);
    f.v[..N_DATE].copy_from_slice(&d);
    let h = secs / 3600;
    f.v[HD] = Some(h / 12);
    f.v[HM] = Some(h % 12);
    f.v[MI] = Some(secs / 60 % 60);
    f.v[SE] = Some(if frac >= GIGA { 60 } else { secs % 60 });
    f.v[NS] = Some(frac % GIGA);
    f.v[TS] = Some((day - rc::UNIX_EPOCH_DAY) * 86_400 + secs - off);
    f.v[OF] = Some(off);
    f
}

// ------------------------------------------------------------------------------------------------
// Reference resolver
// ------------------------------------------------------------------------------------------------

const NE: u8 = 1; // NotEnough
const IM: u8 = 2; // Impossible
const OOR: u8 = 4; // OutOfRange
const BAD: u8 = IM | OOR;
const ANY: u8 = NE | IM | OOR;

#[derive(Clone, Copy, PartialEq, Eq, Debug)]
enum Exp<T> {
    Ok(T),
    /// must fail, with one of these kinds
    Err(u8),
    /// ambiguity table: any error, or a success that passes the soundness monitor
    Weak,
}

#[derive(Clone, Copy, PartialEq, Eq, Debug)]
enum Grp {
    Absent,
    /// (year, came from the two-digit pivot)
    Year(i64, bool),
    CenturyOnly,
    Bad,
}

fn ref_group(y: Option<i64>, q: Option<i64>, r: Option<i64>) -> Grp {
    match (y, q, r) {
        (None, None, None) => Grp::Absent,
        (None, Some(_), None) => Grp::CenturyOnly,
        _ => {
            if let Some(r) = r {
                if !(0..=99).contains(&r) {
                    return Grp::Bad;
                }
            }
            if let Some(q) = q {
                if q < 0 {
                    return Grp::Bad;
                }
            }
            match (y, q, r) {
                (Some(y), q, r) => {
                    if q.is_some() || r.is_some() {
                        if y < 0 || q.map_or(false, |q| q != y / 100) || r.map_or(false, |r| r != y % 100) {
                            return Grp::Bad;
                        }
                    }
                    Grp::Year(y, false)
                }
                (None, Some(q), Some(r)) => Grp::Year(q * 100 + r, false),
                (None, None, Some(r)) => Grp::Year(r + if r < 70 { 2000 } else { 1900 }, true),
                _ => unreachable!(),
            }
        }
    }
}

/// Result of comparing the supplied date fields with the fields of candidate day `n`.
#[derive(PartialEq, Eq, Clone, Copy, Debug)]
enum Agree {
    Yes,
    /// agrees except that a lone two-digit year's pivot year is not the candidate's year
    PivotOnly,
    No,
}

/// Compare supplied date fields with the fields of candidate day `n`; a lone two-digit year whose
/// pivot year is not the candidate's year is reported separately (ambiguity table).
fn date_agrees(f: &F, n: i64) -> Agree {
    let d = date_fields(n);
    let mut res = Agree::Yes;
    for i in 0..N_DATE {
        if let Some(x) = f.v[i] {
            if d[i] != Some(x) {
                return Agree::No;
            }
        }
    }
    for (yi, qi, ri) in [(Y, YQ, YR), (IY, IQ, IR)] {
        if f.v[yi].is_none() && f.v[qi].is_none() {
            if let Some(r) = f.v[ri] {
                let pivot = r + if r < 70 { 2000 } else { 1900 };
                if d[yi] != Some(pivot) {
                    res = Agree::PivotOnly;
                }
            }
        }
    }
    res
}

fn year_ok(y: i64) -> bool {
    (rc::MIN_YEAR..=rc::MAX_YEAR).contains(&y)
}

/// Reference `to_naive_date`: expected CE day.
fn ref_date(f: &F, derived: bool) -> Exp<i64> {
    let gy = ref_group(f.v[Y], f.v[YQ], f.v[YR]);
    let gi = ref_group(f.v[IY], f.v[IQ], f.v[IR]);
    let insufficient = if derived { NE } else { ANY };
    if gy == Grp::CenturyOnly || gi == Grp::CenturyOnly {
        return Exp::Err(insufficient);
    }
    if gy == Grp::Bad || gi == Grp::Bad {
        return Exp::Err(BAD);
    }
    // candidate from the first documented combination that is present
    let mut cand: Option<Option<i64>> = None; // Some(None) = combination present but denotes no date
    if let Grp::Year(y, _) = gy {
        if let (Some(m), Some(d)) = (f.v[MO], f.v[DA]) {
            cand = Some(if year_ok(y) && rc::valid_ymd(y, m, d) { Some(rc::day_number(y, m, d)) } else { None });
        } else if let Some(o) = f.v[OR] {
            cand = Some(if year_ok(y) && o >= 1 && o <= rc::days_in_year(y) { Some(rc::day_number_yo(y, o)) } else { None });
        } else if let (Some(w), Some(wd)) = (f.v[WS].or(f.v[WM]), f.v[WD]) {
            let start = if f.v[WS].is_some() { 6 } else { 0 };
            cand = Some(if year_ok(y) && (0..=53).contains(&w) {
                // first <start> weekday of the year, then whole weeks
                let jan1 = rc::weekday(rc::days_before_year(y) + 1);
                let first = 1 + (start - jan1).rem_euclid(7);
                let o = first + (w - 1) * 7 + (wd - start).rem_euclid(7);
                if o >= 1 && o <= rc::days_in_year(y) {
                    Some(rc::day_number_yo(y, o))
                } else {
                    None
                }
            } else {
                None
            });
        }
    }
    if cand.is_none() {
        if let Grp::Year(iy, _) = gi {
            if let (Some(w), Some(wd)) = (f.v[IW], f.v[WD]) {
                cand = Some(if (rc::MIN_YEAR - 1..=rc::MAX_YEAR + 1).contains(&iy) {
                    rc::days_from_iso(iy, w, wd).filter(|n| rc::in_range_day(*n))
                } else {
                    None
                });
            }
        }
    }
    match cand {
        None => Exp::Err(insufficient),
        Some(None) => Exp::Err(BAD),
        Some(Some(n)) => match date_agrees(f, n) {
            Agree::Yes => Exp::Ok(n),
            Agree::PivotOnly => Exp::Weak,
            Agree::No => Exp::Err(BAD),
        },
    }
}

const TIME_MAX: [(usize, i64); 5] = [(HD, 1), (HM, 11), (MI, 59), (SE, 60), (NS, GIGA - 1)];

fn time_bad_present(f: &F) -> bool {
    TIME_MAX.iter().any(|&(i, max)| f.v[i].map_or(false, |x| x < 0 || x > max))
}

/// Reference `to_naive_time`: (second of day, fraction; fraction >= 1e9 = leap second).
fn ref_time(f: &F) -> Exp<(i64, i64)> {
    let bad = time_bad_present(f);
    let sufficient = f.v[HD].is_some() && f.v[HM].is_some() && f.v[MI].is_some() && (f.v[NS].is_none() || f.v[SE].is_some());
    if !sufficient {
        return Exp::Err(if bad { ANY } else { NE });
    }
    if bad {
        return Exp::Err(BAD);
    }
    let h = f.v[HD].unwrap() * 12 + f.v[HM].unwrap();
    let (s, leap) = match f.v[SE].unwrap_or(0) {
        60 => (59, GIGA),
        s => (s, 0),
    };
    Exp::Ok((h * 3600 + f.v[MI].unwrap() * 60 + s, f.v[NS].unwrap_or(0) + leap))
}

type Dt = (i64, i64, i64); // CE day, second of day, fraction

fn unix_of(d: &Dt) -> i128 {
    (d.0 as i128 - rc::UNIX_EPOCH_DAY as i128) * 86_400 + d.1 as i128
}

/// Reference `to_naive_datetime_with_offset(off)`.
fn ref_naive(f: &F, off: i64, derived: bool) -> Exp<Dt> {
    let d = ref_date(f, derived);
    let t = ref_time(f);
    if let (Exp::Ok(day), Exp::Ok((secs, frac))) = (d, t) {
        let dt = (day, secs, frac);
        if let Some(ts) = f.v[TS] {
            let want = unix_of(&dt) - off as i128;
            let ts = ts as i128;
            if !(ts == want || (frac >= GIGA && ts == want + 1)) {
                // missing second "assumed 0" vs. the timestamp's own second: see ambiguity table
                return if f.v[SE].is_none() { Exp::Weak } else { Exp::Err(BAD) };
            }
        }
        return Exp::Ok(dt);
    }
    if d == Exp::Weak {
        // ambiguity table (lone two-digit year vs. the year fixed elsewhere)
        return if t == Exp::Err(BAD) { Exp::Err(ANY) } else { Exp::Weak };
    }
    if let Some(ts) = f.v[TS] {
        // the timestamp route: the timestamp fixes the value, every supplied field must agree
        if d == Exp::Err(BAD) || t == Exp::Err(BAD) {
            return Exp::Err(BAD);
        }
        // a century-only group: chrono resolves when it is the calendar-year group (the timestamp
        // supplies the year) and reports NotEnough when it is the ISO-year group; the property
        // calls both indeterminate -> only "error or sound success" / "some error" is claimed
        let century_only = ref_group(f.v[Y], f.v[YQ], f.v[YR]) == Grp::CenturyOnly || ref_group(f.v[IY], f.v[IQ], f.v[IR]) == Grp::CenturyOnly;
        let bad = if century_only { ANY } else { BAD };
        let local = ts as i128 + off as i128;
        let min = (rc::min_day() as i128 - rc::UNIX_EPOCH_DAY as i128) * 86_400;
        let max = (rc::max_day() as i128 - rc::UNIX_EPOCH_DAY as i128) * 86_400 + 86_399;
        if local < min || local > max || local < i64::MIN as i128 || local > i64::MAX as i128 {
            return Exp::Err(bad);
        }
        let mut local = local;
        let mut leap = 0;
        match f.v[SE] {
            Some(60) => {
                match local.rem_euclid(60) {
                    59 => {}
                    0 => local -= 1,
                    _ => return Exp::Err(bad),
                }
                if local < min {
                    return Exp::Err(bad);
                }
                leap = GIGA;
            }
            Some(s) => {
                if s as i128 != local.rem_euclid(60) {
                    return Exp::Err(bad);
                }
            }
            None => {}
        }
        let day = local.div_euclid(86_400) as i64 + rc::UNIX_EPOCH_DAY;
        let secs = local.rem_euclid(86_400) as i64;
        let h = secs / 3600;
        if f.v[HD].map_or(false, |x| x != h / 12) || f.v[HM].map_or(false, |x| x != h % 12) || f.v[MI].map_or(false, |x| x != secs / 60 % 60) {
            return Exp::Err(bad);
        }
        if f.v[NS].map_or(false, |x| !(0..GIGA).contains(&x)) {
            return Exp::Err(bad);
        }
        // date fields: the timestamp supplies the full years, so a lone two-digit year is only
        // compared modulo 100; a pivot disagreement is in the ambiguity table
        let (gy, gi) = (ref_group(f.v[Y], f.v[YQ], f.v[YR]), ref_group(f.v[IY], f.v[IQ], f.v[IR]));
        if gy == Grp::Bad || gi == Grp::Bad {
            return Exp::Err(bad);
        }
        return match date_agrees(f, day) {
            Agree::No => Exp::Err(bad),
            Agree::PivotOnly => Exp::Weak,
            Agree::Yes if century_only => Exp::Weak,
            Agree::Yes => Exp::Ok((day, secs, f.v[NS].unwrap_or(0) + leap)),
        };
    }
    // no timestamp: whatever was wrong with the date or the time
    let kd = if let Exp::Err(k) = d { k } else { 0 };
    let kt = if let Exp::Err(k) = t { k } else { 0 };
    Exp::Err(kd | kt)
}

fn utc_in_range(dt: &Dt, off: i64) -> bool {
    let ns = RDt::new(dt.0, dt.1, dt.2.min(GIGA - 1)).ns() - off as i128 * refinst::NS;
    ns >= refinst::min_ns() && ns <= refinst::max_ns()
}

/// Reference `to_datetime`: (local date-time, offset).
fn ref_datetime(f: &F, derived: bool) -> Exp<(Dt, i64)> {
    let off = match (f.v[OF], f.v[TS]) {
        (Some(o), _) => o,
        (None, Some(_)) => 0,
        (None, None) => return Exp::Err(if derived { NE } else { ANY }),
    };
    let off_ok = off > -86_400 && off < 86_400;
    match ref_naive(f, off, derived) {
        Exp::Ok(dt) => {
            if !off_ok || !utc_in_range(&dt, off) {
                Exp::Err(BAD)
            } else {
                Exp::Ok((dt, off))
            }
        }
        Exp::Err(k) => Exp::Err(if off_ok { k } else { k | BAD }),
        Exp::Weak => Exp::Weak,
    }
}

/// Reference `to_datetime_with_timezone(&FixedOffset::east(z))`.
fn ref_with_tz(f: &F, z: i64, derived: bool) -> Exp<(Dt, i64)> {
    let mut extra_bad = false;
    if let Some(ts) = f.v[TS] {
        let min = (rc::min_day() - rc::UNIX_EPOCH_DAY) as i128 * 86_400;
        let max = (rc::max_day() - rc::UNIX_EPOCH_DAY) as i128 * 86_400 + 86_399;
        if (ts as i128) < min || (ts as i128) > max {
            return Exp::Err(BAD);
        }
        if f.v[NS].map_or(false, |x| !(0..GIGA).contains(&x)) {
            extra_bad = true;
        }
    }
    let off_mismatch = f.v[OF].map_or(false, |o| o != z);
    match ref_naive(f, if f.v[TS].is_some() { z } else { 0 }, derived) {
        Exp::Ok(dt) => {
            if extra_bad || off_mismatch || !utc_in_range(&dt, z) {
                Exp::Err(BAD)
            } else {
                Exp::Ok((dt, z))
            }
        }
        Exp::Err(k) => Exp::Err(if off_mismatch || extra_bad { k | BAD } else { k }),
        Exp::Weak => Exp::Weak,
    }
}

// ------------------------------------------------------------------------------------------------
// Observation and judgement
// ------------------------------------------------------------------------------------------------

fn kind_bit(k: ParseErrorKind) -> u8 {
    match k {
        ParseErrorKind::NotEnough => NE,
        ParseErrorKind::Impossible => IM,
        ParseErrorKind::OutOfRange => OOR,
        _ => 0,
    }
}

fn kind_name(b: u8) -> &'static str {
    match b {
        NE => "not-enough",
        IM => "impossible",
        OOR => "out-of-range",
        BAD => "impossible|out-of-range",
        ANY => "any-error",
        _ => "other-kind",
    }
}

fn obs<T, U>(r: ParseResult<T>, conv: impl FnOnce(T) -> U) -> Result<U, u8> {
    match r {
        Ok(v) => Ok(conv(v)),
        Err(e) => Err(kind_bit(e.kind())),
    }
}

fn date_day(d: NaiveDate) -> i64 {
    use chrono::Datelike;
    d.num_days_from_ce() as i64
}
fn time_sf(t: NaiveTime) -> (i64, i64) {
    (t.num_seconds_from_midnight() as i64, t.nanosecond() as i64)
}
fn ndt_dt(x: NaiveDateTime) -> Dt {
    let r = RDt::of(&x);
    (r.day, r.secs, r.frac)
}
fn dtz<Tz: TimeZone>(x: DateTime<Tz>) -> (Dt, i64) {
    use chrono::Offset;
    (ndt_dt(x.naive_local()), x.offset().fix().local_minus_utc() as i64)
}

struct Idx {
    ok: [usize; 6],
    combo: [usize; 5],
    contra0: usize,
    weak: usize,
    derived_ne: usize,
    century_only: usize,
    year_full: usize,
    year_qr: usize,
    year_pivot: usize,
    neg_year: usize,
    ts_route: usize,
    ts_checked: usize,
    leap_val: usize,
    leap_p1: usize,
    leap_p2: usize,
    leap_m1: usize,
    oor_field: usize,
    nonexistent: usize,
    tz_mismatch: usize,
    ts_utc_default: usize,
    iso_spill: usize,
    week0: usize,
    week53: usize,
    feb29: usize,
    hostile_ok: usize,
    hostile_err: usize,
    range_end: usize,
    sec60_at_min: usize,
    setter_route: usize,
    missing_second: usize,
}

const ENTRIES: [&str; 6] = [
    "to_naive_date", "to_naive_time", "to_naive_datetime_with_offset", "to_datetime", "to_datetime_with_timezone<FixedOffset>",
    "to_datetime_with_timezone<Utc>",
];

#[allow(clippy::too_many_arguments)]
fn judge<T: PartialEq + std::fmt::Debug + Copy>(
    loc: &mut Local,
    ix: &Idx,
    e: usize,
    class: &str,
    f: &F,
    arg: i64,
    exp: Exp<T>,
    got: Result<T, u8>,
) -> bool {
    loc.eval();
    let wit = |what: &str| json!({"entry": ENTRIES[e], "fields": f.json(), "offset_or_tz_argument": arg, "expected": format!("{:?}", exp), "observed": format!("{:?}", got.map_err(kind_name)), "what": what});
    match (exp, got) {
        (Exp::Ok(x), Ok(y)) => {
            loc.bucket(ix.ok[e]);
            if x != y {
                loc.violation(&format!("C14/{}/{}/wrong-value", ENTRIES[e], class), wit("resolves to a different value than the fields denote"));
            }
        }
        (Exp::Ok(_), Err(k)) => {
            loc.violation(&format!("C14/{}/{}/{}-for-resolvable-set", ENTRIES[e], class, kind_name(k)), wit("a consistent, sufficient set is refused"));
        }
        (Exp::Err(kinds), Ok(_)) => {
            let what = if kinds == NE { "insufficient" } else { "contradictory" };
            loc.violation(&format!("C14/{}/{}/ok-for-{}-set", ENTRIES[e], class, what), wit("success although the set does not denote a value"));
        }
        (Exp::Err(kinds), Err(k)) => {
            if k & kinds == 0 {
                loc.violation(&format!("C14/{}/{}/{}-where-{}-expected", ENTRIES[e], class, kind_name(k), kind_name(kinds)), wit("wrong error kind"));
            }
        }
        (Exp::Weak, Ok(_)) => {
            loc.bucket(ix.weak);
        }
        (Exp::Weak, Err(k)) => {
            loc.bucket(ix.weak);
            if k == 0 {
                loc.violation(&format!("C14/{}/{}/other-kind", ENTRIES[e], class), wit("error kind outside NotEnough/Impossible/OutOfRange"));
            }
        }
    }
    matches!(exp, Exp::Ok(_) | Exp::Err(BAD))
}

/// Soundness monitor: every supplied field in `scope` equals the field derived from the result.
fn sound(loc: &mut Local, e: usize, f: &F, scope: std::ops::Range<usize>, res: &F, leap: bool, arg: i64) {
    for i in scope {
        if let Some(x) = f.v[i] {
            let ok = if i == TS { res.v[TS] == Some(x) || (leap && res.v[TS] == x.checked_sub(1)) } else { res.v[i] == Some(x) };
            if !ok {
                loc.violation(
                    &format!("C14/{}/result-contradicts-{}", ENTRIES[e], NAMES[i]),
                    json!({"entry": ENTRIES[e], "fields": f.json(), "offset_or_tz_argument": arg, "supplied": x, "field_of_result": res.v[i], "result_fields": res.json()}),
                );
            }
        }
    }
}

/// Run all entry points on one field set. `off` = offset argument for
/// `to_naive_datetime_with_offset` and the FixedOffset zone for `to_datetime_with_timezone`.
/// Returns true if some reference verdict was Ok / contradiction (a non-trivial case).
fn check_all(loc: &mut Local, ix: &Idx, class: &str, f: &F, derived: bool, off: i64, date_only: bool) -> bool {
    let p = match f.to_parsed() {
        Some(p) => p,
        None => {
            loc.rep.harness_error(format!("field value does not fit the field type: {}", f.json()));
            return false;
        }
    };
    let mut nt = false;
    // 0: date
    if let Some(r) = loc.call(ENTRIES[0], || f.json(), || p.to_naive_date()) {
        let got = obs(r, date_day);
        if let Ok(n) = got {
            let mut res = F::empty();
            res.v[..N_DATE].copy_from_slice(&date_fields(n));
            sound(loc, 0, f, 0..N_DATE, &res, false, 0);
        }
        let exp = ref_date(f, derived);
        if let Exp::Ok(n) = exp {
            // which combination carried it
            let c = if f.v[MO].is_some() && f.v[DA].is_some() && ref_group(f.v[Y], f.v[YQ], f.v[YR]) != Grp::Absent {
                0
            } else if ref_group(f.v[Y], f.v[YQ], f.v[YR]) == Grp::Absent {
                4
            } else if f.v[OR].is_some() {
                1
            } else if f.v[WS].is_some() && f.v[WD].is_some() {
                2
            } else if f.v[WM].is_some() && f.v[WD].is_some() {
                3
            } else {
                4
            };
            loc.bucket(ix.combo[c]);
            match ref_group(f.v[Y], f.v[YQ], f.v[YR]) {
                Grp::Year(_, true) => loc.bucket(ix.year_pivot),
                Grp::Year(y, false) => {
                    if f.v[Y].is_some() {
                        loc.bucket(ix.year_full)
                    } else {
                        loc.bucket(ix.year_qr)
                    }
                    if y < 0 {
                        loc.bucket(ix.neg_year)
                    }
                }
                _ => {}
            }
            let d = date_fields(n);
            if d[Y] != d[IY] {
                loc.bucket(ix.iso_spill)
            }
            if (d[WS] == Some(0) && f.v[WS].is_some()) || (d[WM] == Some(0) && f.v[WM].is_some()) {
                loc.bucket(ix.week0)
            }
            if (d[WS] == Some(53) && f.v[WS].is_some()) || (d[WM] == Some(53) && f.v[WM].is_some()) || (d[IW] == Some(53) && f.v[IW].is_some()) {
                loc.bucket(ix.week53)
            }
            if d[MO] == Some(2) && d[DA] == Some(29) {
                loc.bucket(ix.feb29)
            }
        }
        if derived && exp == Exp::Err(NE) {
            loc.bucket(ix.derived_ne);
            if ref_group(f.v[Y], f.v[YQ], f.v[YR]) == Grp::CenturyOnly || ref_group(f.v[IY], f.v[IQ], f.v[IR]) == Grp::CenturyOnly {
                loc.bucket(ix.century_only);
            }
        }
        nt |= judge(loc, ix, 0, class, f, 0, exp, got);
    }
    if date_only {
        return nt;
    }
    // 1: time
    if let Some(r) = loc.call(ENTRIES[1], || f.json(), || p.to_naive_time()) {
        let got = obs(r, time_sf);
        if let Ok((s, fr)) = got {
            let res = all_fields(1, s, fr, 0);
            sound(loc, 1, f, HD..TS, &res, false, 0);
        }
        let exp = ref_time(f);
        if let Exp::Ok((_, fr)) = exp {
            if fr >= GIGA {
                loc.bucket(ix.leap_val)
            }
            if f.v[SE].is_none() {
                loc.bucket(ix.missing_second)
            }
        }
        nt |= judge(loc, ix, 1, class, f, 0, exp, got);
    }
    // 2: naive date-time with offset argument
    if let Some(r) = loc.call(ENTRIES[2], || json!({"fields": f.json(), "offset": off}), || p.to_naive_datetime_with_offset(off as i32)) {
        let got = obs(r, ndt_dt);
        if let Ok(dt) = got {
            let res = all_fields(dt.0, dt.1, dt.2, off);
            sound(loc, 2, f, 0..OF, &res, dt.2 >= GIGA, off);
        }
        let exp = ref_naive(f, off, derived);
        if let (Exp::Ok(dt), Some(ts)) = (exp, f.v[TS]) {
            let both = matches!(ref_date(f, derived), Exp::Ok(_)) && matches!(ref_time(f), Exp::Ok(_));
            loc.bucket(if both { ix.ts_checked } else { ix.ts_route });
            if dt.2 >= GIGA && ts as i128 == unix_of(&dt) - off as i128 + 1 {
                loc.bucket(ix.leap_p1);
            }
        }
        nt |= judge(loc, ix, 2, class, f, off, exp, got);
    }
    // 3: to_datetime
    if let Some(r) = loc.call(ENTRIES[3], || f.json(), || p.to_datetime()) {
        let got = obs(r, dtz);
        if let Ok((dt, o)) = got {
            let res = all_fields(dt.0, dt.1, dt.2, o);
            sound(loc, 3, f, 0..NF, &res, dt.2 >= GIGA, 0);
        }
        let exp = ref_datetime(f, derived);
        if matches!(exp, Exp::Ok(_)) && f.v[OF].is_none() {
            loc.bucket(ix.ts_utc_default);
        }
        nt |= judge(loc, ix, 3, class, f, 0, exp, got);
    }
    // 4: with FixedOffset zone
    if off > -86_400 && off < 86_400 {
        let tz = FixedOffset::east_opt(off as i32).unwrap();
        if let Some(r) = loc.call(ENTRIES[4], || json!({"fields": f.json(), "tz": off}), || p.to_datetime_with_timezone(&tz)) {
            let got = obs(r, dtz);
            if let Ok((dt, o)) = got {
                let res = all_fields(dt.0, dt.1, dt.2, o);
                sound(loc, 4, f, 0..NF, &res, dt.2 >= GIGA, off);
                if o != off {
                    loc.violation("C14/to_datetime_with_timezone<FixedOffset>/result-not-in-zone", json!({"fields": f.json(), "tz": off, "result_offset": o}));
                }
            }
            let exp = ref_with_tz(f, off, derived);
            if f.v[OF].map_or(false, |o| o != off) && exp == Exp::Err(BAD) {
                loc.bucket(ix.tz_mismatch);
            }
            nt |= judge(loc, ix, 4, class, f, off, exp, got);
        }
    }
    // 5: with Utc
    if off == 0 || f.v[OF].is_none() || f.hash() % 4 == 0 {
        if let Some(r) = loc.call(ENTRIES[5], || f.json(), || p.to_datetime_with_timezone(&Utc)) {
            let got = obs(r, dtz);
            if let Ok((dt, o)) = got {
                let res = all_fields(dt.0, dt.1, dt.2, o);
                sound(loc, 5, f, 0..NF, &res, dt.2 >= GIGA, 0);
            }
            let exp = ref_with_tz(f, 0, derived);
            nt |= judge(loc, ix, 5, class, f, 0, exp, got);
        }
    }
    nt
}

// ------------------------------------------------------------------------------------------------
// Workload
// ------------------------------------------------------------------------------------------------

/// Days chosen from the specification: rustdoc example, ISO spill days, week 0 / week 53 of the
/// Sunday- and Monday-based week numbers, Feb 29, century rules, pivot window ends, years -1/0/1,
/// four-digit window ends, range ends.
fn special_days() -> Vec<i64> {
    let ymd: [(i64, i64, i64); 44] = [
        (2014, 12, 31), (2005, 1, 1), (2008, 12, 29), (2010, 1, 3), (2023, 1, 1), (2024, 1, 1), (2012, 12, 31), (2012, 12, 30),
        (2024, 12, 30), (2024, 12, 31), (2024, 2, 29), (2000, 2, 29), (1900, 2, 28), (1900, 3, 1), (1969, 12, 31), (1970, 1, 1),
        (2069, 12, 31), (2070, 1, 1), (1950, 6, 15), (1999, 12, 31), (2000, 1, 1), (0, 1, 1), (0, 12, 31), (-1, 12, 31), (-1, 1, 1),
        (1, 1, 1), (99, 12, 31), (100, 1, 1), (9999, 12, 31), (10000, 1, 1), (rc::MIN_YEAR, 1, 1), (rc::MAX_YEAR, 12, 31),
        (2020, 12, 31), (2021, 1, 3), (2015, 12, 31), (2016, 1, 3), (2001, 7, 8), (1972, 6, 30), (2016, 12, 31), (2017, 1, 1),
        (2018, 4, 30), (2018, 10, 1), (-400, 2, 29), (rc::MIN_YEAR, 12, 31),
    ];
    ymd.iter().map(|&(y, m, d)| rc::day_number(y, m, d)).collect()
}

struct Cats {
    special: Vec<i64>,
    days: Vec<i64>,
    offs: Vec<i64>,
}

#[derive(Clone, Copy, Debug)]
struct Val {
    day: i64,
    secs: i64,
    frac: i64,
    off: i64,
}

fn random_val(rng: &mut Rng, c: &Cats) -> Val {
    let day = match rng.below(8) {
        0..=1 => *rng.pick(&c.special),
        2 => (*rng.pick(&c.special) + rng.range(-7, 7)).clamp(rc::min_day(), rc::max_day()),
        3 => rng.range(rc::day_number(1960, 1, 1), rc::day_number(2080, 12, 31)),
        _ => gen::random_day(rng, &c.days),
    };
    let mut secs = gen::random_secs(rng);
    let mut frac = gen::random_frac(rng);
    if rng.chance(1, 6) {
        secs = secs - secs % 60 + 59;
        frac += GIGA;
    }
    let off = match rng.below(4) {
        0 => 0,
        _ => gen::random_offset(rng, &c.offs),
    };
    Val { day, secs, frac, off }
}

/// Keep the UTC instant and the local value inside the representable range (so that the value is
/// "an actual value" for every entry point).
fn fix_range(v: &mut Val) {
    let ns = RDt::new(v.day, v.secs, v.frac.min(GIGA - 1)).ns() - v.off as i128 * refinst::NS;
    if ns < refinst::min_ns() || ns > refinst::max_ns() {
        v.off = 0;
    }
}

/// Does a lone two-digit year (in `mask`) of value fields `full` fall outside the pivot window,
/// or is a group century-only? (then "exactly that value" is not claimed by the property)
fn groups_determinate(full: &F, mask: u32) -> bool {
    for (yi, qi, ri) in [(Y, YQ, YR), (IY, IQ, IR)] {
        let has = |i: usize| mask >> i & 1 == 1 && full.v[i].is_some();
        if has(yi) || (has(qi) && has(ri)) {
            continue;
        }
        if has(qi) {
            return false;
        }
        if has(ri) && !(1970..=2069).contains(&full.v[yi].unwrap()) {
            return false;
        }
    }
    true
}

/// Oracle self-check on a derived set: the reference resolver must agree with the definition
/// "derived + determinate groups ⇒ the value itself or not enough".
fn self_check_derived(rep: &Report, full: &F, mask: u32, v: &Val) {
    let f = full.masked(mask);
    if !groups_determinate(full, mask) {
        return;
    }
    match ref_date(&f, true) {
        Exp::Ok(n) if n == v.day => {}
        Exp::Err(NE) => {}
        other => rep.harness_error(format!("reference resolver on a derived set: {:?} for {} (value day {})", other, f.json(), v.day)),
    }
    match ref_naive(&f, v.off, true) {
        Exp::Ok((d, _, _)) if d == v.day => {}
        Exp::Err(NE) | Exp::Weak => {}
        other => rep.harness_error(format!("reference naive resolver on a derived set: {:?} for {} (value {:?})", other, f.json(), v)),
    }
}

/// Random mask of the 21 fields with a random density, often forced to hold a sufficient
/// combination.
fn random_mask(rng: &mut Rng) -> u32 {
    let dens = *rng.pick(&[2u64, 4, 6, 8, 10, 12, 14]);
    let mut m = 0u32;
    for i in 0..NF {
        if rng.below(16) < dens {
            m |= 1 << i;
        }
    }
    if rng.chance(1, 2) {
        // force a date combination
        m |= match rng.below(7) {
            0 => 1 << Y | 1 << MO | 1 << DA,
            1 => 1 << Y | 1 << OR,
            2 => 1 << Y | 1 << WS | 1 << WD,
            3 => 1 << Y | 1 << WM | 1 << WD,
            4 => 1 << IY | 1 << IW | 1 << WD,
            5 => 1 << YQ | 1 << YR | 1 << MO | 1 << DA,
            _ => 1 << YR | 1 << MO | 1 << DA,
        };
    }
    if rng.chance(1, 2) {
        m |= 1 << HD | 1 << HM | 1 << MI;
        if rng.chance(1, 2) {
            m |= 1 << SE;
        }
    }
    m
}

fn derived_case(rng: &mut Rng, c: &Cats, mask: u32) -> (Val, F) {
    let mut v = random_val(rng, c);
    if mask >> OF & 1 == 0 && rng.chance(1, 2) {
        v.off = 0;
    }
    fix_range(&mut v);
    let mut full = all_fields(v.day, v.secs, v.frac, v.off);
    if v.frac >= GIGA && mask >> SE & 1 == 1 && rng.chance(1, 2) && !(v.day == rc::max_day() && v.secs == 86_399) {
        // the other documented reading of a leap second's timestamp
        full.v[TS] = full.v[TS].map(|t| t + 1);
    }
    (v, full)
}

/// Build the same `Parsed` through the setters; compare with the direct field writes.
fn setter_route(loc: &mut Local, ix: &Idx, f: &F) {
    let direct = match f.to_parsed() {
        Some(p) => p,
        None => return,
    };
    let mut p = Parsed::new();
    let mut failed: Option<&str> = None;
    let r = loc.call("set_*", || f.json(), || {
        let mut failed = None;
        let mut s = |name: &'static str, r: ParseResult<()>| {
            if r.is_err() && failed.is_none() {
                failed = Some(name);
            }
        };
        if let Some(x) = f.v[Y] { s("set_year", p.set_year(x)); }
        if let Some(x) = f.v[YQ] { s("set_year_div_100", p.set_year_div_100(x)); }
        if let Some(x) = f.v[YR] { s("set_year_mod_100", p.set_year_mod_100(x)); }
        if let Some(x) = f.v[IY] { s("set_isoyear", p.set_isoyear(x)); }
        if let Some(x) = f.v[IQ] { s("set_isoyear_div_100", p.set_isoyear_div_100(x)); }
        if let Some(x) = f.v[IR] { s("set_isoyear_mod_100", p.set_isoyear_mod_100(x)); }
        if let Some(x) = f.v[QU] { s("set_quarter", p.set_quarter(x)); }
        if let Some(x) = f.v[MO] { s("set_month", p.set_month(x)); }
        if let Some(x) = f.v[WS] { s("set_week_from_sun", p.set_week_from_sun(x)); }
        if let Some(x) = f.v[WM] { s("set_week_from_mon", p.set_week_from_mon(x)); }
        if let Some(x) = f.v[IW] { s("set_isoweek", p.set_isoweek(x)); }
        if let Some(x) = f.v[WD] { s("set_weekday", p.set_weekday(super::c01::wd_of(x))); }
        if let Some(x) = f.v[OR] { s("set_ordinal", p.set_ordinal(x)); }
        if let Some(x) = f.v[DA] { s("set_day", p.set_day(x)); }
        match (f.v[HD], f.v[HM]) {
            (Some(d), Some(m)) => s("set_hour", p.set_hour(d * 12 + m)),
            (Some(d), None) => s("set_ampm", p.set_ampm(d == 1)),
            (None, Some(m)) => s("set_hour12", p.set_hour12(if m == 0 { 12 } else { m })),
            _ => {}
        }
        if let Some(x) = f.v[MI] { s("set_minute", p.set_minute(x)); }
        if let Some(x) = f.v[SE] { s("set_second", p.set_second(x)); }
        if let Some(x) = f.v[NS] { s("set_nanosecond", p.set_nanosecond(x)); }
        if let Some(x) = f.v[TS] { s("set_timestamp", p.set_timestamp(x)); }
        if let Some(x) = f.v[OF] { s("set_offset", p.set_offset(x)); }
        failed
    });
    if let Some(fl) = r {
        failed = fl;
    }
    loc.eval();
    loc.bucket(ix.setter_route);
    if let Some(name) = failed {
        loc.violation(&format!("C14/{}/rejects-field-of-real-value", name), json!({"fields": f.json()}));
    } else if p != direct {
        loc.violation("C14/set_*/stored-fields-differ", json!({"fields": f.json(), "via_setters": format!("{:?}", p), "expected": format!("{:?}", direct)}));
    }
}

/// Phase A: all 2^14 subsets of the date fields x values, `to_naive_date` only.
fn date_subsets(ctx: &Ctx, rep: &Report, ix: &Idx, c: &Cats) {
    let mut days = c.special.clone();
    let extra = ctx.n(100, 1500);
    let mut rng = Rng::new(ctx.seed, "C14/date-values", 0);
    for _ in 0..extra {
        days.push(gen::random_day(&mut rng, &c.days));
    }
    let n = days.len();
    par_shards(rep, ctx.threads, n, |shard| {
        let mut loc = rep.local();
        let day = days[shard];
        let full = all_fields(day, 0, 0, 0);
        let v = Val { day, secs: 0, frac: 0, off: 0 };
        for mask in 0u32..(1 << N_DATE) {
            let f = full.masked(mask);
            if mask % 61 == 0 {
                self_check_derived(rep, &full, mask, &v);
            }
            if check_all(&mut loc, ix, "derived", &f, true, 0, true) {
                loc.nontrivial(f.hash());
            }
        }
    });
    rep.set_extra("date_subset_values", json!(n));
    rep.set_extra("date_subsets_per_value", json!(1u64 << N_DATE));
}

/// Phase B: subsets of all 21 fields (random in quick, every one of the 2^21 in thorough) of
/// derived values, all entry points.
fn all_subsets(ctx: &Ctx, rep: &Report, ix: &Idx, c: &Cats) {
    let n_shards = 256usize;
    let exhaustive = ctx.tier == Tier::Thorough && ctx.scale_pct >= 100;
    let per_mask = 6u64;
    let random_total = ctx.n(1_200_000, 8_000_000);
    par_shards(rep, ctx.threads, n_shards, |shard| {
        let mut loc = rep.local();
        let mut rng = Rng::new(ctx.seed, "C14/subsets", shard as u64);
        let one = |loc: &mut Local, rng: &mut Rng, mask: u32| {
            let (v, full) = derived_case(rng, c, mask);
            let f = full.masked(mask);
            if rng.chance(1, 16) {
                self_check_derived(rep, &full, mask, &v);
            }
            if check_all(loc, ix, "derived", &f, true, v.off, false) {
                loc.nontrivial(f.hash());
            }
            if rng.chance(1, 8) {
                setter_route(loc, ix, &f);
            }
            loc.sample(|| json!({"phase": "derived subset", "value": {"day": v.day, "secs": v.secs, "frac": v.frac, "offset": v.off}, "fields": f.json()}));
        };
        if exhaustive {
            let total = 1u32 << NF;
            let per = total / n_shards as u32;
            for mask in per * shard as u32..per * (shard as u32 + 1) {
                for _ in 0..per_mask {
                    one(&mut loc, &mut rng, mask);
                }
            }
        }
        for _ in 0..random_total / n_shards as u64 {
            let mask = random_mask(&mut rng);
            one(&mut loc, &mut rng, mask);
        }
    });
    if exhaustive {
        rep.set_extra("all_2^21_subsets_visited_times", json!(per_mask));
    }
}

fn in_range_other(rng: &mut Rng, i: usize, cur: Option<i64>) -> i64 {
    let c = cur.unwrap_or(0);
    let (lo, hi): (i64, i64) = match i {
        Y | IY => (-9999, 9999),
        YQ | IQ => (0, 99),
        YR | IR => (0, 99),
        QU => (1, 4),
        MO => (1, 12),
        WS | WM => (0, 53),
        IW => (1, 53),
        WD => (0, 6),
        OR => (1, 366),
        DA => (1, 31),
        HD => (0, 1),
        HM => (0, 11),
        MI => (0, 59),
        SE => (0, 60),
        NS => (0, GIGA - 1),
        TS => (i64::MIN / 4, i64::MAX / 4),
        _ => (-86_399, 86_399),
    };
    for _ in 0..8 {
        let x = match rng.below(4) {
            0 => c + 1,
            1 => c - 1,
            2 if matches!(i, Y | IY) => c + *rng.pick(&[100i64, -100, 400, -400, 28, -28, 5, 6, 11]),
            2 if i == TS => c + *rng.pick(&[2i64, -2, 60, -60, 3600, -3600, 86_400, -86_400, 43_200, 604_800, 31_536_000]),
            2 if i == OF => c + *rng.pick(&[60i64, -60, 3600, -3600, 1800]),
            2 if i == NS => c + *rng.pick(&[1000i64, -1000, 1_000_000, -1_000_000]),
            2 if matches!(i, YQ | IQ) => c + *rng.pick(&[4i64, -4, 10]),
            _ => {
                if i == TS {
                    c + rng.range(-100_000_000, 100_000_000)
                } else {
                    rng.range(lo, hi)
                }
            }
        };
        let in_dom = if matches!(i, Y | IY | TS) { true } else if matches!(i, YQ | IQ) { x >= 0 } else { x >= lo && x <= hi };
        if x != c && in_dom {
            return x;
        }
    }
    if c == lo { lo + 1 } else { lo }
}

fn out_of_range_value(rng: &mut Rng, i: usize) -> i64 {
    if i == WD {
        // an enum: no out-of-range value can be written
        return rng.range(0, 6);
    }
    let hostile_u: [i64; 6] = [u32::MAX as i64, u32::MAX as i64 - 1, 1 << 31, (1 << 31) - 1, 255, 256];
    let hostile_i: [i64; 4] = [i32::MIN as i64, i32::MAX as i64, i32::MIN as i64 + 1, i32::MAX as i64 - 1];
    let boundary: &[i64] = match i {
        Y | IY => &[262_143, -262_144, 262_144, -262_145, 1_000_000, -1_000_000],
        YQ | IQ => &[-1, 2622, 2621, 21_474_836, 21_474_837],
        YR | IR => &[-1, 100, 101, -100],
        QU => &[0, 5],
        MO => &[0, 13],
        WS | WM => &[54, 55],
        IW => &[0, 54],
        OR => &[0, 367],
        DA => &[0, 32],
        HD => &[2, 3],
        HM => &[12, 13],
        MI => &[60, 61],
        SE => &[61, 62],
        NS => &[GIGA, GIGA + 1, 2 * GIGA - 1, 2 * GIGA],
        TS => {
            let min_ts = (rc::min_day() - rc::UNIX_EPOCH_DAY) * 86_400;
            let max_ts = (rc::max_day() - rc::UNIX_EPOCH_DAY) * 86_400 + 86_399;
            return *rng.pick(&[i64::MAX, i64::MIN, max_ts + 1, min_ts - 1, max_ts + 86_400, min_ts - 86_400, i64::MAX - 86_399, i64::MIN + 86_399, 1 << 53]);
        }
        _ => &[86_400, -86_400, 86_401, -86_401, 100_000],
    };
    if rng.chance(2, 3) || i == TS {
        *rng.pick(boundary)
    } else if matches!(i, Y | YQ | YR | IY | IQ | IR | OF) {
        *rng.pick(&hostile_i)
    } else {
        *rng.pick(&hostile_u)
    }
}

/// Phase C: a derived (mostly sufficient) set with one field changed.
fn contradictions(ctx: &Ctx, rep: &Report, ix: &Idx, c: &Cats) {
    let n_shards = 256usize;
    let total = ctx.n(2_500_000, 40_000_000);
    par_shards(rep, ctx.threads, n_shards, |shard| {
        let mut loc = rep.local();
        let mut rng = Rng::new(ctx.seed, "C14/contradictions", shard as u64);
        for _ in 0..total / n_shards as u64 {
            let mut mask = random_mask(&mut rng) | random_mask(&mut rng);
            if rng.chance(1, 3) {
                mask &= !(1 << TS);
            }
            let (v, full) = derived_case(&mut rng, c, mask);
            let mut f = full.masked(mask);
            let kind = rng.below(10);
            let mut field = rng.below(NF as u64) as usize;
            match kind {
                0..=4 => {
                    // a supplied (or extra) field gets another in-range value
                    f.v[field] = Some(in_range_other(&mut rng, field, full.v[field]));
                }
                5..=6 => {
                    f.v[field] = Some(out_of_range_value(&mut rng, field));
                    loc.bucket(ix.oor_field);
                }
                7 => {
                    // a combination that denotes no date
                    match rng.below(5) {
                        0 => {
                            f.v[MO] = Some(*rng.pick(&[2i64, 2, 4, 6, 9, 11]));
                            f.v[DA] = Some(if f.v[MO] == Some(2) { *rng.pick(&[29i64, 30, 31]) } else { 31 });
                            f.v[Y] = full.v[Y];
                            f.v[OR] = None;
                            field = DA;
                        }
                        1 => {
                            f.v[Y] = full.v[Y];
                            f.v[MO] = None;
                            f.v[OR] = Some(366);
                            field = OR;
                        }
                        2 => {
                            f.v[Y] = full.v[Y];
                            f.v[MO] = None;
                            f.v[OR] = None;
                            f.v[WS] = Some(*rng.pick(&[0i64, 53]));
                            f.v[WD] = Some(rng.range(0, 6));
                            field = WS;
                        }
                        3 => {
                            f.v[Y] = full.v[Y];
                            f.v[MO] = None;
                            f.v[OR] = None;
                            f.v[WS] = None;
                            f.v[WM] = Some(*rng.pick(&[0i64, 53]));
                            f.v[WD] = Some(rng.range(0, 6));
                            field = WM;
                        }
                        _ => {
                            f.v[Y] = None;
                            f.v[YQ] = None;
                            f.v[YR] = None;
                            f.v[IY] = full.v[IY];
                            f.v[IW] = Some(53);
                            f.v[WD] = Some(rng.range(0, 6));
                            field = IW;
                        }
                    }
                    loc.bucket(ix.nonexistent);
                }
                _ => {
                    // leap second value with every reading of its timestamp
                    let day = v.day;
                    let secs = v.secs - v.secs % 60 + 59;
                    let lf = all_fields(day, secs, GIGA + v.frac % GIGA, v.off);
                    f = lf.masked(mask | 1 << SE | 1 << TS | 1 << Y | 1 << OR | 1 << HD | 1 << HM | 1 << MI);
                    let delta = *rng.pick(&[-2i64, -1, 0, 1, 2, 3]);
                    f.v[TS] = lf.v[TS].map(|t| t + delta);
                    field = TS;
                    match delta {
                        2 => loc.bucket(ix.leap_p2),
                        -1 => loc.bucket(ix.leap_m1),
                        _ => {}
                    }
                }
            }
            // bucket: a contradiction caused by this field, as seen by the reference
            let is_bad = match field {
                0..=13 => ref_date(&f, false) == Exp::Err(BAD),
                14..=18 => ref_time(&f) == Exp::Err(BAD) || ref_naive(&f, v.off, false) == Exp::Err(BAD),
                TS => ref_naive(&f, v.off, false) == Exp::Err(BAD),
                _ => ref_datetime(&f, false) == Exp::Err(BAD),
            };
            if is_bad {
                loc.bucket(ix.contra0 + field);
            }
            if check_all(&mut loc, ix, "mutated", &f, false, v.off, false) {
                loc.nontrivial(f.hash());
            }
            loc.sample(|| json!({"phase": "one field changed", "changed": NAMES[field], "fields": f.json(), "offset_argument": v.off}));
        }
    });
}

/// Phase D: every field independently random (plausible, boundary or hostile), written straight
/// into the public fields.
fn hostile(ctx: &Ctx, rep: &Report, ix: &Idx, c: &Cats) {
    let n_shards = 128usize;
    let total = ctx.n(1_000_000, 16_000_000);
    par_shards(rep, ctx.threads, n_shards, |shard| {
        let mut loc = rep.local();
        let mut rng = Rng::new(ctx.seed, "C14/hostile", shard as u64);
        for _ in 0..total / n_shards as u64 {
            let base = random_val(&mut rng, c);
            let full = all_fields(base.day, base.secs, base.frac, base.off);
            let mut f = F::empty();
            let dens = *rng.pick(&[3u64, 5, 8]);
            let wild = *rng.pick(&[1u64, 3, 8]);
            for i in 0..NF {
                if rng.below(16) >= dens {
                    continue;
                }
                f.v[i] = Some(match rng.below(16) {
                    x if x < wild => {
                        if rng.chance(1, 2) {
                            out_of_range_value(&mut rng, i)
                        } else {
                            in_range_other(&mut rng, i, full.v[i])
                        }
                    }
                    _ => match full.v[i] {
                        Some(x) => x,
                        None => in_range_other(&mut rng, i, None),
                    },
                });
            }
            let off = if rng.chance(1, 2) { base.off } else { gen::random_offset(&mut rng, &c.offs) };
            let nt = check_all(&mut loc, ix, "hostile", &f, false, off, false);
            if nt {
                loc.nontrivial(f.hash());
            }
            match ref_naive(&f, off, false) {
                Exp::Ok(_) => loc.bucket(ix.hostile_ok),
                Exp::Err(_) => loc.bucket(ix.hostile_err),
                Exp::Weak => {}
            }
        }
    });
}

/// Phase F: timestamps at the ends of the representable range (± offset, ± a few seconds), with
/// and without second 60 and a few redundant fields.
fn range_ends(_ctx: &Ctx, rep: &Report, ix: &Idx, c: &Cats) {
    let mut loc = rep.local();
    let min_ts = (rc::min_day() - rc::UNIX_EPOCH_DAY) * 86_400;
    let max_ts = (rc::max_day() - rc::UNIX_EPOCH_DAY) * 86_400 + 86_399;
    let mut offs: Vec<i64> = vec![0, 1, -1, 59, -59, 60, -60, 3600, -3600, 86_399, -86_399];
    offs.extend(c.offs.iter().copied().filter(|o| o % 900 == 0).take(8));
    for base in [min_ts, max_ts, 0, -1, 1_700_000_000 - 1_700_000_000 % 60, 63_072_000 + 59] {
        for k in [-61i64, -60, -2, -1, 0, 1, 2, 59, 60, 61] {
            for &off in &offs {
                for sec in [None, Some(0i64), Some(59), Some(60)] {
                    for extra in 0..4 {
                        let ts = base + k - off;
                        let mut f = F::empty();
                        f.v[TS] = Some(ts);
                        f.v[SE] = sec;
                        if extra & 1 == 1 {
                            f.v[OF] = Some(off);
                        }
                        if extra & 2 == 2 {
                            f.v[NS] = Some(999_999_999);
                        }
                        loc.bucket(ix.range_end);
                        if sec == Some(60) && base == min_ts && ts + off == min_ts {
                            loc.bucket(ix.sec60_at_min);
                        }
                        if check_all(&mut loc, ix, "edge", &f, false, off, false) {
                            loc.nontrivial(f.hash());
                        }
                    }
                }
            }
        }
    }
}

// ------------------------------------------------------------------------------------------------
// Phase E: setters
// ------------------------------------------------------------------------------------------------

struct Setter {
    name: &'static str,
    set: fn(&mut Parsed, i64) -> ParseResult<()>,
    get: fn(&Parsed) -> Option<i64>,
    lo: i64,
    hi: i64,
    norm: fn(i64) -> i64,
}

fn ident(x: i64) -> i64 {
    x
}
fn mod12(x: i64) -> i64 {
    x % 12
}

fn setters() -> Vec<Setter> {
    vec![
        Setter { name: "set_year", set: |p, v| p.set_year(v), get: |p| p.year().map(|v| v as i64), lo: i32::MIN as i64, hi: i32::MAX as i64, norm: ident },
        Setter { name: "set_year_div_100", set: |p, v| p.set_year_div_100(v), get: |p| p.year_div_100().map(|v| v as i64), lo: 0, hi: i32::MAX as i64, norm: ident },
        Setter { name: "set_year_mod_100", set: |p, v| p.set_year_mod_100(v), get: |p| p.year_mod_100().map(|v| v as i64), lo: 0, hi: 99, norm: ident },
        Setter { name: "set_isoyear", set: |p, v| p.set_isoyear(v), get: |p| p.isoyear().map(|v| v as i64), lo: i32::MIN as i64, hi: i32::MAX as i64, norm: ident },
        Setter { name: "set_isoyear_div_100", set: |p, v| p.set_isoyear_div_100(v), get: |p| p.isoyear_div_100().map(|v| v as i64), lo: 0, hi: i32::MAX as i64, norm: ident },
        Setter { name: "set_isoyear_mod_100", set: |p, v| p.set_isoyear_mod_100(v), get: |p| p.isoyear_mod_100().map(|v| v as i64), lo: 0, hi: 99, norm: ident },
        Setter { name: "set_quarter", set: |p, v| p.set_quarter(v), get: |p| p.quarter().map(|v| v as i64), lo: 1, hi: 4, norm: ident },
        Setter { name: "set_month", set: |p, v| p.set_month(v), get: |p| p.month().map(|v| v as i64), lo: 1, hi: 12, norm: ident },
        Setter { name: "set_week_from_sun", set: |p, v| p.set_week_from_sun(v), get: |p| p.week_from_sun().map(|v| v as i64), lo: 0, hi: 53, norm: ident },
        Setter { name: "set_week_from_mon", set: |p, v| p.set_week_from_mon(v), get: |p| p.week_from_mon().map(|v| v as i64), lo: 0, hi: 53, norm: ident },
        Setter { name: "set_isoweek", set: |p, v| p.set_isoweek(v), get: |p| p.isoweek().map(|v| v as i64), lo: 1, hi: 53, norm: ident },
        Setter { name: "set_ordinal", set: |p, v| p.set_ordinal(v), get: |p| p.ordinal().map(|v| v as i64), lo: 1, hi: 366, norm: ident },
        Setter { name: "set_day", set: |p, v| p.set_day(v), get: |p| p.day().map(|v| v as i64), lo: 1, hi: 31, norm: ident },
        Setter { name: "set_hour12", set: |p, v| p.set_hour12(v), get: |p| p.hour_mod_12().map(|v| v as i64), lo: 1, hi: 12, norm: mod12 },
        Setter { name: "set_minute", set: |p, v| p.set_minute(v), get: |p| p.minute().map(|v| v as i64), lo: 0, hi: 59, norm: ident },
        Setter { name: "set_second", set: |p, v| p.set_second(v), get: |p| p.second().map(|v| v as i64), lo: 0, hi: 60, norm: ident },
        Setter { name: "set_nanosecond", set: |p, v| p.set_nanosecond(v), get: |p| p.nanosecond().map(|v| v as i64), lo: 0, hi: GIGA - 1, norm: ident },
        Setter { name: "set_timestamp", set: |p, v| p.set_timestamp(v), get: |p| p.timestamp(), lo: i64::MIN, hi: i64::MAX, norm: ident },
        Setter { name: "set_offset", set: |p, v| p.set_offset(v), get: |p| p.offset().map(|v| v as i64), lo: i32::MIN as i64, hi: i32::MAX as i64, norm: ident },
    ]
}

fn setter_phase(ctx: &Ctx, rep: &Report, b: &[usize; 4]) {
    let (b_in, b_out, b_eq, b_ne) = (b[0], b[1], b[2], b[3]);
    let mut loc = rep.local();
    let mut rng = Rng::new(ctx.seed, "C14/setters", 0);
    let cat = gen::catalogue_i64();
    let rounds = ctx.n(300, 20_000);
    for s in setters() {
        let mut vals: Vec<i64> = cat.clone();
        for k in -2..=2i64 {
            vals.push(s.lo.saturating_add(k));
            vals.push(s.hi.saturating_add(k));
        }
        for _ in 0..rounds {
            vals.push(match rng.below(3) {
                0 => rng.range(s.lo, s.hi),
                1 => rng.range(s.lo.max(-100), s.hi.min(100)),
                _ => rng.log_i64(63),
            });
        }
        let inr = |x: i64| x >= s.lo && x <= s.hi;
        for (k, &a) in vals.iter().enumerate() {
            // first set
            let mut p = Parsed::new();
            let r = match loc.call(s.name, || json!(a), || (s.set)(&mut p, a)) {
                Some(r) => r,
                None => continue,
            };
            loc.eval();
            loc.nontrivial(h2(crate::mon::hstr(s.name), a as u64));
            loc.bucket(if inr(a) { b_in } else { b_out });
            let stored = (s.get)(&p);
            if r.is_ok() != inr(a) {
                let what = if inr(a) { "rejects-in-range-value" } else { "accepts-out-of-range-value" };
                loc.violation(&format!("C14/{}/{}", s.name, what), json!({"setter": s.name, "argument": a, "documented_range": [s.lo, s.hi], "result": format!("{:?}", r)}));
                continue;
            }
            let want = if inr(a) { Some((s.norm)(a)) } else { None };
            if stored != want {
                loc.violation(&format!("C14/{}/stores-wrong-value", s.name), json!({"setter": s.name, "argument": a, "stored": stored, "expected": want}));
                continue;
            }
            if !inr(a) {
                continue;
            }
            // second set: equal value, neighbours, out of range, random
            let seconds = [a, a.wrapping_add(1), a.wrapping_sub(1), vals[(k * 7 + 3) % vals.len()], vals[(k * 13 + 5) % vals.len()], if s.name == "set_hour12" { a % 12 + 12 * (a / 12 == 0) as i64 } else { a }];
            for b2 in seconds {
                let mut q = p.clone();
                let r2 = match loc.call(s.name, || json!([a, b2]), || (s.set)(&mut q, b2)) {
                    Some(r) => r,
                    None => continue,
                };
                loc.eval();
                let equal = inr(b2) && (s.norm)(b2) == (s.norm)(a);
                loc.bucket(if equal { b_eq } else { b_ne });
                if r2.is_ok() != equal {
                    let what = if equal { "second-set-of-equal-value-refused" } else { "second-set-of-different-value-accepted" };
                    loc.violation(&format!("C14/{}/{}", s.name, what), json!({"setter": s.name, "first": a, "second": b2, "result": format!("{:?}", r2)}));
                }
                if (s.get)(&q) != want {
                    loc.violation(&format!("C14/{}/second-set-changes-field", s.name), json!({"setter": s.name, "first": a, "second": b2, "stored": (s.get)(&q)}));
                }
            }
        }
    }
    // set_hour / set_hour12 / set_ampm / set_weekday
    for h in -2..=30i64 {
        let mut p = Parsed::new();
        let r = match loc.call("set_hour", || json!(h), || p.set_hour(h)) {
            Some(r) => r,
            None => continue,
        };
        loc.eval();
        let inr = (0..=23).contains(&h);
        loc.bucket(if inr { b_in } else { b_out });
        if inr {
            if r.is_err() || p.hour_div_12() != Some((h / 12) as u32) || p.hour_mod_12() != Some((h % 12) as u32) {
                loc.violation("C14/set_hour/rejects-or-misstores-in-range-value", json!({"argument": h, "result": format!("{:?}", r), "stored": [p.hour_div_12(), p.hour_mod_12()]}));
            }
        } else if h < 0 && r.is_ok() {
            loc.violation("C14/set_hour/accepts-out-of-range-value", json!({"argument": h}));
        }
        if !inr {
            continue;
        }
        for h2_ in 0..=23i64 {
            let mut q = p.clone();
            let r2 = q.set_hour(h2_);
            loc.eval();
            loc.bucket(if h == h2_ { b_eq } else { b_ne });
            if r2.is_ok() != (h == h2_) {
                loc.violation("C14/set_hour/second-set-acceptance", json!({"first": h, "second": h2_, "result": format!("{:?}", r2)}));
            }
        }
        for x in 1..=12i64 {
            let mut q = p.clone();
            let r2 = q.set_hour12(x);
            loc.eval();
            let eq = x % 12 == h % 12;
            loc.bucket(if eq { b_eq } else { b_ne });
            if r2.is_ok() != eq {
                loc.violation("C14/set_hour12/after-set_hour-acceptance", json!({"hour": h, "hour12": x, "result": format!("{:?}", r2)}));
            }
        }
        for pm in [false, true] {
            let mut q = p.clone();
            let r2 = q.set_ampm(pm);
            loc.eval();
            let eq = pm == (h >= 12);
            loc.bucket(if eq { b_eq } else { b_ne });
            if r2.is_ok() != eq {
                loc.violation("C14/set_ampm/after-set_hour-acceptance", json!({"hour": h, "pm": pm, "result": format!("{:?}", r2)}));
            }
            // and the other order
            let mut q = Parsed::new();
            let _ = q.set_ampm(pm);
            let r3 = q.set_hour(h);
            loc.eval();
            if r3.is_ok() != eq {
                loc.violation("C14/set_hour/after-set_ampm-acceptance", json!({"hour": h, "pm": pm, "result": format!("{:?}", r3)}));
            }
        }
    }
    for a in 0..7i64 {
        for b2 in 0..7i64 {
            let mut p = Parsed::new();
            let r1 = p.set_weekday(super::c01::wd_of(a));
            let r2 = p.set_weekday(super::c01::wd_of(b2));
            loc.eval();
            loc.bucket(if a == b2 { b_eq } else { b_ne });
            if r1.is_err() || r2.is_ok() != (a == b2) || p.weekday() != Some(super::c01::wd_of(a)) {
                loc.violation("C14/set_weekday/second-set-acceptance", json!({"first": a, "second": b2, "result": format!("{:?}", r2)}));
            }
        }
    }
    for a in [false, true] {
        for b2 in [false, true] {
            let mut p = Parsed::new();
            let r1 = p.set_ampm(a);
            let r2 = p.set_ampm(b2);
            loc.eval();
            loc.bucket(if a == b2 { b_eq } else { b_ne });
            if r1.is_err() || r2.is_ok() != (a == b2) || p.hour_div_12() != Some(a as u32) {
                loc.violation("C14/set_ampm/second-set-acceptance", json!({"first": a, "second": b2, "result": format!("{:?}", r2)}));
            }
        }
    }
}

// ------------------------------------------------------------------------------------------------
// Self-test of R-parsed and of the reference resolver
// ------------------------------------------------------------------------------------------------

fn self_test() -> Result<(), String> {
    let chk = |c: bool, s: &str| if c { Ok(()) } else { Err(format!("R-parsed self-test failed: {}", s)) };
    // week numbers by the counting definition: number of <start> weekdays among days 1..=o
    for y in [2001i64, 2012, 2017, 2018, 2019, 2020, 2021, 2022, 2023, 2024, 2028, 2032, 2036, 2040, -1, 0] {
        for start in [0i64, 6] {
            let mut count = 0;
            for o in 1..=rc::days_in_year(y) {
                let wd = rc::weekday(rc::day_number_yo(y, o));
                if wd == start {
                    count += 1;
                }
                chk(week_from(o, wd, start) == count, "week_from == count of week starts")?;
            }
        }
    }
    // rustdoc of strftime: 2001-07-08 is %U 27, %W 27, %j 189, ISO 2001-W27-7
    let d = date_fields(rc::day_number(2001, 7, 8));
    chk(d[WS] == Some(27) && d[WM] == Some(27) && d[OR] == Some(189) && d[IY] == Some(2001) && d[IW] == Some(27) && d[WD] == Some(6) && d[QU] == Some(3), "2001-07-08 fields")?;
    let d = date_fields(rc::day_number(-5, 3, 1));
    chk(d[YQ].is_none() && d[YR].is_none() && d[Y] == Some(-5), "negative year has no century fields")?;
    // rustdoc example of Parsed: Wed 31 Dec 2014 04:26:40 +0000 resolves; Thu is impossible
    let mut f = F::empty();
    for (i, x) in [(WD, 2), (DA, 31), (MO, 12), (Y, 2014), (HD, 0), (HM, 4), (MI, 26), (SE, 40), (OF, 0)] {
        f.v[i] = Some(x);
    }
    let day = rc::day_number(2014, 12, 31);
    chk(ref_datetime(&f, false) == Exp::Ok(((day, 4 * 3600 + 26 * 60 + 40, 0), 0)), "rustdoc example resolves")?;
    f.v[WD] = Some(3);
    chk(ref_datetime(&f, false) == Exp::Err(BAD), "rustdoc example with wrong weekday is a contradiction")?;
    // pivot, century-only, two-digit + century
    let mut g = F::empty();
    g.v[YR] = Some(70);
    g.v[MO] = Some(1);
    g.v[DA] = Some(1);
    chk(ref_date(&g, false) == Exp::Ok(rc::day_number(1970, 1, 1)), "pivot 70 -> 1970")?;
    g.v[YR] = Some(69);
    chk(ref_date(&g, false) == Exp::Ok(rc::day_number(2069, 1, 1)), "pivot 69 -> 2069")?;
    g.v[YQ] = Some(12);
    chk(ref_date(&g, false) == Exp::Ok(rc::day_number(1269, 1, 1)), "century + two-digit")?;
    g.v[YR] = None;
    chk(ref_date(&g, true) == Exp::Err(NE), "century only")?;
    // leap second and timestamp latitude
    let lf = all_fields(rc::day_number(2016, 12, 31), 86_399, GIGA + 5, 0);
    let t59 = lf.v[TS].unwrap();
    for (delta, ok) in [(-1i64, false), (0, true), (1, true), (2, false)] {
        let mut h = lf;
        h.v[TS] = Some(t59 + delta);
        let r = ref_naive(&h, 0, false);
        chk(matches!(r, Exp::Ok(_)) == ok && (ok || r == Exp::Err(BAD)), "leap second timestamp latitude")?;
        let h2_ = h.masked(1 << TS | 1 << SE);
        let r = ref_naive(&h2_, 0, false);
        chk(matches!(r, Exp::Ok((_, 86_399, GIGA))) == ok, "leap second via timestamp route")?;
    }
    Ok(())
}

// ------------------------------------------------------------------------------------------------
// run
// ------------------------------------------------------------------------------------------------

const FIXED_BUCKETS: [&str; 47] = [
    "ok_to_naive_date", "ok_to_naive_time", "ok_to_naive_datetime_with_offset", "ok_to_datetime", "ok_with_timezone_fixed", "ok_with_timezone_utc",
    "combo_year_month_day", "combo_year_ordinal", "combo_year_week_from_sun_weekday", "combo_year_week_from_mon_weekday", "combo_iso_week_date",
    "weak_expectation_ambiguity_table", "derived_insufficient_not_enough", "century_only_group", "year_full", "year_century_plus_two_digit",
    "year_two_digit_pivot", "negative_year", "timestamp_route", "timestamp_cross_checked", "leap_second_value", "leap_timestamp_plus_one_accepted",
    "leap_timestamp_plus_two_case", "leap_timestamp_minus_one_case", "out_of_range_field_case", "nonexistent_combination_case", "tz_offset_mismatch",
    "timestamp_without_offset_is_utc", "iso_spill_day", "week_zero", "week_53", "feb_29", "hostile_ok", "hostile_err", "range_end_timestamp",
    "second60_at_range_min", "setter_route", "missing_second_assumed_zero", "setter_in_range", "setter_out_of_range", "setter_twice_equal",
    "setter_twice_different", "exhaustive_date_subsets", "zone_with_fold_ambiguous", "zone_with_fold_gap", "zone_with_fold_single", "zone_with_fold_timestamp",
];

/// A time zone with one fold and one gap, through the public `TimeZone` trait: +02:00 until
/// 2021-10-31T01:00:00Z, +01:00 until 2022-03-27T01:00:00Z, +02:00 afterwards. `FixedOffset` and
/// `Utc` never return `Ambiguous`, so the disambiguation-by-offset arm of
/// `to_datetime_with_timezone` is only reachable through a zone like this (or `Local`).
#[derive(Clone, Copy, Debug)]
struct FoldTz;
const FOLD_T0: i64 = 1_635_642_000; // 2021-10-31T01:00:00Z
const FOLD_T1: i64 = 1_648_342_800; // 2022-03-27T01:00:00Z
fn fold_offset_at(u: i64) -> i32 {
    if u < FOLD_T0 || u >= FOLD_T1 {
        7200
    } else {
        3600
    }
}
impl TimeZone for FoldTz {
    type Offset = chrono::FixedOffset;
    fn from_offset(_: &chrono::FixedOffset) -> Self {
        FoldTz
    }
    #[allow(deprecated)]
    fn offset_from_local_date(&self, local: &NaiveDate) -> chrono::MappedLocalTime<chrono::FixedOffset> {
        self.offset_from_local_datetime(&local.and_time(NaiveTime::MIN))
    }
    fn offset_from_local_datetime(&self, local: &NaiveDateTime) -> chrono::MappedLocalTime<chrono::FixedOffset> {
        let l = local.and_utc().timestamp();
        let mut c: Vec<i32> = [7200, 3600].into_iter().filter(|o| fold_offset_at(l - *o as i64) == *o).collect();
        c.sort_by_key(|o| l - *o as i64);
        let fo = |o: i32| chrono::FixedOffset::east_opt(o).unwrap();
        match c.len() {
            0 => chrono::MappedLocalTime::None,
            1 => chrono::MappedLocalTime::Single(fo(c[0])),
            _ => chrono::MappedLocalTime::Ambiguous(fo(c[0]), fo(c[1])),
        }
    }
    #[allow(deprecated)]
    fn offset_from_utc_date(&self, utc: &NaiveDate) -> chrono::FixedOffset {
        self.offset_from_utc_datetime(&utc.and_time(NaiveTime::MIN))
    }
    fn offset_from_utc_datetime(&self, utc: &NaiveDateTime) -> chrono::FixedOffset {
        chrono::FixedOffset::east_opt(fold_offset_at(utc.and_utc().timestamp())).unwrap()
    }
}

/// Soundness of `to_datetime_with_timezone` for a zone whose local times can be ambiguous or
/// skipped: a successful result must agree with every supplied field, in particular with the
/// supplied `offset` and `timestamp`; a local time that the zone maps to two instants resolves
/// only through the offset (or timestamp) field.
fn zone_with_fold(ctx: &Ctx, rep: &Report, bk: [usize; 4]) {
    use chrono::{Datelike, Timelike};
    let n = ctx.n(40_000, 2_000_000);
    par_shards(rep, ctx.threads, 16, |shard| {
        let mut rng = Rng::new(ctx.seed, "C14/fold-tz", shard as u64);
        let mut loc = rep.local();
        for _ in 0..n / 16 {
            // a wall-clock second around the fold, the gap, or elsewhere
            let l = match rng.below(4) {
                0 => FOLD_T0 + 3600 + rng.range(-5, 3605),  // fold walls are [T0+3600, T0+7200)
                1 => FOLD_T1 + 3600 + rng.range(-5, 3605),  // gap walls are [T1+3600, T1+7200)
                2 => rng.range(FOLD_T0 - 86_400 * 30, FOLD_T1 + 86_400 * 30),
                _ => *rng.pick(&[FOLD_T0 + 3600, FOLD_T0 + 7199, FOLD_T0 + 7200, FOLD_T0 + 3599, FOLD_T1 + 3600, FOLD_T1 + 7199, FOLD_T1 + 7200, FOLD_T1 + 3599]),
            };
            let Some(local) = chrono::DateTime::from_timestamp(l, 0).map(|d| d.naive_utc()) else { continue };
            let cands: Vec<i32> = [7200, 3600].into_iter().filter(|o| fold_offset_at(l - *o as i64) == *o).collect();
            loc.eval();
            loc.bucket(bk[match cands.len() {
                2 => 0,
                0 => 1,
                _ => 2,
            }]);
            // fields: full local date and time; offset field: absent, each candidate, a foreign one
            let off_field: Option<i64> = match rng.below(5) {
                0 => None,
                1 => Some(7200),
                2 => Some(3600),
                3 => Some(*rng.pick(&[0i64, 1800, 10_800, -3600])),
                _ => cands.first().map(|o| *o as i64),
            };
            let ts_field: Option<i64> = if rng.chance(1, 4) && !cands.is_empty() {
                loc.bucket(bk[3]);
                Some(l - *rng.pick(&cands) as i64)
            } else {
                None
            };
            let mut p = Parsed::new();
            let setup = (|| -> ParseResult<()> {
                p.set_year(local.year() as i64)?;
                p.set_month(local.month() as i64)?;
                p.set_day(local.day() as i64)?;
                p.set_hour(local.hour() as i64)?;
                p.set_minute(local.minute() as i64)?;
                p.set_second(local.second() as i64)?;
                if let Some(o) = off_field {
                    p.set_offset(o)?;
                }
                if let Some(t) = ts_field {
                    p.set_timestamp(t)?;
                }
                Ok(())
            })();
            if setup.is_err() {
                continue;
            }
            let wit = || json!({"local": format!("{:?}", local), "offset_field": off_field, "timestamp_field": ts_field, "zone": "+02:00 -> +01:00 at 2021-10-31T01:00Z -> +02:00 at 2022-03-27T01:00Z", "candidate_offsets": cands});
            match crate::mon::guard(|| p.to_datetime_with_timezone(&FoldTz)) {
                Err(pn) => loc.violation(&format!("C14/to_datetime_with_timezone<zone-with-fold>/panic@{}", pn.site()), json!({"case": wit(), "panic": pn.to_json()})),
                Ok(Ok(dt)) => {
                    let o = dt.offset().local_minus_utc() as i64;
                    let u = dt.timestamp();
                    let mut bad: Vec<&str> = Vec::new();
                    if dt.naive_local() != local {
                        bad.push("wall-clock-fields");
                    }
                    if off_field.map(|f| f != o).unwrap_or(false) {
                        bad.push("offset");
                    }
                    if ts_field.map(|f| f != u).unwrap_or(false) {
                        bad.push("timestamp");
                    }
                    if fold_offset_at(u) as i64 != o {
                        bad.push("zone-offset-at-result");
                    }
                    if off_field.is_none() && ts_field.is_none() && cands.len() != 1 {
                        bad.push("ambiguous-or-skipped-local-time-resolved-without-offset");
                    }
                    for b in bad {
                        loc.violation(&format!("C14/to_datetime_with_timezone<zone-with-fold>/result-contradicts-{}", b), json!({"case": wit(), "result_utc": u, "result_offset": o}));
                    }
                }
                Ok(Err(e)) => {
                    // completeness where the property is explicit: the fields are derived from one real
                    // value, determinate, and the offset field names one of the zone's candidates
                    let resolvable = match (off_field, ts_field) {
                        (Some(o), None) => cands.contains(&(o as i32)),
                        (None, None) => cands.len() == 1,
                        (Some(o), Some(t)) => cands.contains(&(o as i32)) && l - o == t,
                        (None, Some(_)) => cands.len() == 1,
                    };
                    if resolvable {
                        loc.violation(
                            &format!("C14/to_datetime_with_timezone<zone-with-fold>/error-for-resolvable-set/{}", kind_name(kind_bit(e.kind()))),
                            json!({"case": wit(), "error": format!("{:?}", e.kind())}),
                        );
                    }
                }
            }
            loc.nontrivial(crate::mon::h2(l as u64, crate::mon::h2(off_field.unwrap_or(-1) as u64, ts_field.unwrap_or(-1) as u64)));
        }
    });
}

pub fn run(ctx: &Ctx) -> Outcome {
    // bucket table: fixed + one "contradiction_via_<field>" per field
    let contra: Vec<String> = NAMES.iter().map(|n| format!("contradiction_via_{}", n)).collect();
    let contra: Vec<&'static str> = contra.into_iter().map(|s| &*Box::leak(s.into_boxed_str())).collect();
    let mut names: Vec<&'static str> = FIXED_BUCKETS.iter().copied().filter(|s| !s.is_empty()).collect();
    names.extend(contra.iter().copied());
    let floor: Vec<&'static str> = names.iter().copied().filter(|n| !matches!(*n, "hostile_ok")).collect();
    let rep = Report::with_bitmap_bits("C14", &names, &floor, 28);
    for t in [rc::self_test(), refinst::self_test(), self_test()] {
        if let Err(e) = t {
            rep.harness_error(e);
            return rep.finish(ctx, "self-test failed", &[]);
        }
    }
    let bi = |n: &str| names.iter().position(|x| *x == n).unwrap_or_else(|| panic!("bucket {}", n));
    let ix = Idx {
        ok: [bi("ok_to_naive_date"), bi("ok_to_naive_time"), bi("ok_to_naive_datetime_with_offset"), bi("ok_to_datetime"), bi("ok_with_timezone_fixed"), bi("ok_with_timezone_utc")],
        combo: [bi("combo_year_month_day"), bi("combo_year_ordinal"), bi("combo_year_week_from_sun_weekday"), bi("combo_year_week_from_mon_weekday"), bi("combo_iso_week_date")],
        contra0: bi("contradiction_via_year"),
        weak: bi("weak_expectation_ambiguity_table"),
        derived_ne: bi("derived_insufficient_not_enough"),
        century_only: bi("century_only_group"),
        year_full: bi("year_full"),
        year_qr: bi("year_century_plus_two_digit"),
        year_pivot: bi("year_two_digit_pivot"),
        neg_year: bi("negative_year"),
        ts_route: bi("timestamp_route"),
        ts_checked: bi("timestamp_cross_checked"),
        leap_val: bi("leap_second_value"),
        leap_p1: bi("leap_timestamp_plus_one_accepted"),
        leap_p2: bi("leap_timestamp_plus_two_case"),
        leap_m1: bi("leap_timestamp_minus_one_case"),
        oor_field: bi("out_of_range_field_case"),
        nonexistent: bi("nonexistent_combination_case"),
        tz_mismatch: bi("tz_offset_mismatch"),
        ts_utc_default: bi("timestamp_without_offset_is_utc"),
        iso_spill: bi("iso_spill_day"),
        week0: bi("week_zero"),
        week53: bi("week_53"),
        feb29: bi("feb_29"),
        hostile_ok: bi("hostile_ok"),
        hostile_err: bi("hostile_err"),
        range_end: bi("range_end_timestamp"),
        sec60_at_min: bi("second60_at_range_min"),
        setter_route: bi("setter_route"),
        missing_second: bi("missing_second_assumed_zero"),
    };
    let cats = Cats { special: special_days(), days: gen::catalogue_days(), offs: gen::catalogue_offsets() };
    date_subsets(ctx, &rep, &ix, &cats);
    {
        let mut loc = rep.local();
        loc.bucket(bi("exhaustive_date_subsets"));
    }
    all_subsets(ctx, &rep, &ix, &cats);
    contradictions(ctx, &rep, &ix, &cats);
    hostile(ctx, &rep, &ix, &cats);
    range_ends(ctx, &rep, &ix, &cats);
    setter_phase(ctx, &rep, &[bi("setter_in_range"), bi("setter_out_of_range"), bi("setter_twice_equal"), bi("setter_twice_different")]);
    zone_with_fold(ctx, &rep, [bi("zone_with_fold_ambiguous"), bi("zone_with_fold_gap"), bi("zone_with_fold_single"), bi("zone_with_fold_timestamp")]);
    rep.finish(
        ctx,
        "field sets: (A) every one of the 2^14 subsets of the date fields of each chosen day (specification boundary days + seeded random days); (B) subsets of all 21 fields of random/boundary date-times with offset (random masks in quick; additionally every one of the 2^21 masks several times in thorough); (C) such a set with one field changed to another in-range value, an out-of-range or type-extreme value, a combination that denotes no date, or a shifted leap-second timestamp; (D) independently random fields written straight into the public fields; (E) range-end timestamps with/without second 60; every set goes through to_naive_date / to_naive_time / to_naive_datetime_with_offset / to_datetime / to_datetime_with_timezone(FixedOffset, Utc) next to the reference resolver and the soundness monitor; (F) every setter with boundary/random arguments, set once and twice. A case is non-trivial when the reference verdict for some entry point is a value or a contradiction (i.e. cross-verification is exercised, not merely 'not enough'), and every setter call; distinct = distinct field sets (hashed bitmap, collisions under-count)",
        &[
            "R-cal and R-parsed (this file) are correct: self-tested against rustdoc examples and the counting definition of week numbers at the start of every run",
            "the result's own accessors (num_days_from_ce, num_seconds_from_midnight, nanosecond, naive_local, offset) are correct (properties C01/C02/C04)",
            "ambiguity table at the top of props/c14.rs: lone two-digit year with a conflicting pivot year, missing second vs timestamp, century-only group plus timestamp are only held to 'error or sound success'",
        ],
    )
}
