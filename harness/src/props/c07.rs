//! C07 — time-of-day arithmetic wraps by whole days and honours leap-second operands.
//!
//! Oracle: a *physical timeline*. A time `(secs, frac)` sits at `secs*10^9 + frac` ns after the
//! midnight of "day 0". If an operand is a leap-second representation after second S, the interval
//! `[(S+1)*10^9, (S+2)*10^9)` of day 0 *is* that leap second and everything later is shifted by
//! 10^9 (day 0 then lasts 86401 s, every other day 86400 s). `t + d` is integer addition on that
//! timeline followed by mapping back; `a - b` is the integer distance on a timeline holding the
//! leap seconds of both operands. Nothing of chrono's branch structure is used.

use crate::gen;
use crate::mon::{guard, h2, par_shards, Ctx, Local, Outcome, Report, Tier};
use crate::refcal as rc;
use crate::refinst::{self as ri, td_from_ns, td_ns, TD_MAX_NS, TD_MIN_NS};
use crate::rng::Rng;
use chrono::{Datelike, FixedOffset, NaiveDate, NaiveDateTime, NaiveTime, TimeDelta, TimeZone, Timelike};
use serde_json::{json, Value};
use std::time::Duration as StdDuration;

const NS: i128 = 1_000_000_000;
const DAY_NS: i128 = 86_400 * NS;
const G: i64 = 1_000_000_000;

const B: &[&str] = &[
    // acceptance
    "accept_nonleap", "accept_leap_sec59", "reject_hour24", "reject_min60", "reject_sec60", "reject_leap_not_sec59",
    "reject_nano_2e9", "reject_milli_mul_overflow", "reject_micro_mul_overflow", "secs_accept_leap", "secs_reject_86400",
    "secs_reject_leap_not_sec59", "secs_reject_nano_2e9",
    // accessors / replacement
    "with_field_some", "with_field_none", "with_nano_leap_any_second", "with_on_leap_operand", "accessors_via_datetime",
    // addition
    "add_nonleap_same_day", "add_nonleap_wrap_forward", "add_nonleap_wrap_backward", "add_leap_stay", "add_leap_exit_forward_frac_only",
    "add_leap_exit_forward_secs", "add_leap_exit_backward_frac_only", "add_leap_exit_backward_secs", "add_leap_reach_end_exact",
    "add_leap_end_minus_1ns", "add_leap_reach_start_exact", "add_leap_start_minus_1ns", "add_leap_wrap_forward",
    "add_leap_wrap_backward", "add_negative_with_fraction", "add_extreme_duration", "add_multi_day_carry", "add_zero",
    "add_leap_not_on_sec59", "std_duration_lt_1day", "std_duration_ge_1day", "std_duration_ge_2days", "std_duration_leap_operand",
    // difference
    "diff_no_leap", "diff_lhs_leap", "diff_rhs_leap", "diff_both_leap", "diff_leap_between", "diff_same_second_leap",
    "diff_negative", "diff_zero",
    // date-times
    "dt_leap_add_some", "dt_leap_add_none_out_of_range", "dt_leap_carry_forward", "dt_leap_carry_backward", "dt_near_range_end",
    "dt_diff_leap",
    // offsets
    "offset_keeps_leap", "offset_day_carry", "offset_datetime_time_leap",
    "deprecated_panicking_twins",
];
const FLOOR: &[&str] = B;

fn bi(name: &str) -> usize {
    B.iter().position(|n| *n == name).unwrap_or_else(|| panic!("c07: unknown bucket {}", name))
}

// ------------------------------------------------------------------------------------------------
// Reference model
// ------------------------------------------------------------------------------------------------

/// Reference time of day: seconds since midnight (0..86400) and fraction (0..2e9; >= 1e9 = inside
/// the leap second that follows second `secs`).
#[derive(Clone, Copy, PartialEq, Eq, Debug, Hash)]
struct RT {
    secs: i64,
    frac: i64,
}

impl RT {
    fn leap(&self) -> bool {
        self.frac >= G
    }
    fn of(t: &NaiveTime) -> RT {
        RT { secs: t.num_seconds_from_midnight() as i64, frac: t.nanosecond() as i64 }
    }
    /// Build the chrono value through public constructors only.
    fn to_chrono(&self) -> Option<NaiveTime> {
        if self.leap() && self.secs % 60 != 59 {
            NaiveTime::from_num_seconds_from_midnight_opt(self.secs as u32, 0)?.with_nanosecond(self.frac as u32)
        } else {
            NaiveTime::from_num_seconds_from_midnight_opt(self.secs as u32, self.frac as u32)
        }
    }
    fn json(&self) -> Value {
        json!({"secs": self.secs, "frac": self.frac})
    }
    fn hash(&self) -> u64 {
        (self.secs as u64) << 32 | self.frac as u64
    }
}

/// Is (h, m, s, ns) accepted per the property statement? (wide integers, no wrap)
fn valid_hms(h: u64, m: u64, s: u64, ns: u64) -> bool {
    h < 24 && m < 60 && s < 60 && (ns < 1_000_000_000 || (s == 59 && ns < 2_000_000_000))
}
fn valid_secs(secs: u64, ns: u64) -> bool {
    secs < 86_400 && (ns < 1_000_000_000 || (secs % 60 == 59 && ns < 2_000_000_000))
}

/// Map a position on a timeline *without* leap second back to (time, day index).
fn map_plain(q: i128) -> (RT, i128) {
    let day = q.div_euclid(DAY_NS);
    let rem = q.rem_euclid(DAY_NS);
    (RT { secs: (rem / NS) as i64, frac: (rem % NS) as i64 }, day)
}

#[derive(Clone, Copy, PartialEq, Eq, Debug)]
enum AddClass {
    Nonleap,
    LeapStay,
    LeapExitForward,
    LeapExitBackward,
}

impl AddClass {
    fn name(self) -> &'static str {
        match self {
            AddClass::Nonleap => "nonleap-operand",
            AddClass::LeapStay => "leap-operand-stays",
            AddClass::LeapExitForward => "leap-operand-exits-forward",
            AddClass::LeapExitBackward => "leap-operand-exits-backward",
        }
    }
}

/// `t + d` (d in ns) on the physical timeline: (result time, carry in seconds = whole days * 86400,
/// classification, position q on the timeline).
fn ref_add(t: RT, d: i128) -> (RT, i128, AddClass, i128) {
    let p = t.secs as i128 * NS + t.frac as i128;
    let q = p + d;
    if !t.leap() {
        let (r, day) = map_plain(q);
        return (r, day * 86_400, AddClass::Nonleap, q);
    }
    let l0 = (t.secs as i128 + 1) * NS; // first ns of the leap second
    let l1 = l0 + NS; // first ns after it
    if q < l0 {
        // before the leap second nothing is shifted; earlier days are ordinary days
        let (r, day) = map_plain(q);
        (r, day * 86_400, AddClass::LeapExitBackward, q)
    } else if q < l1 {
        (RT { secs: t.secs, frac: (q - t.secs as i128 * NS) as i64 }, 0, AddClass::LeapStay, q)
    } else {
        // after the leap second every label is 1 s behind the physical position
        let (r, day) = map_plain(q - NS);
        (r, day * 86_400, AddClass::LeapExitForward, q)
    }
}

/// Position of `t` on a timeline of day 0 that contains a leap second after each (distinct) second
/// in `leaps`: every leap second that lies wholly before the label's second shifts it by 1 s.
fn pos(t: RT, leaps: &[i64]) -> i128 {
    let shift = leaps.iter().filter(|s| **s < t.secs).count() as i128 * NS;
    t.secs as i128 * NS + t.frac as i128 + shift
}

/// `a - b` in ns on the timeline holding the leap seconds of both operands.
fn ref_diff(a: RT, b: RT) -> i128 {
    let mut leaps: Vec<i64> = Vec::with_capacity(2);
    if a.leap() {
        leaps.push(a.secs);
    }
    if b.leap() && !leaps.contains(&b.secs) {
        leaps.push(b.secs);
    }
    pos(a, &leaps) - pos(b, &leaps)
}

/// An independent second formulation of `ref_add` used only by the self-test: walk the timeline
/// in steps (whole days, then whole seconds, then the fraction) keeping an explicit label.
fn slow_add(t: RT, d: i128) -> (RT, i128) {
    // physical position and explicit inverse by scanning the (at most three) segments of day 0
    let p = t.secs as i128 * NS + t.frac as i128;
    let q = p + d;
    let day0_len = if t.leap() { DAY_NS + NS } else { DAY_NS };
    if q < 0 {
        let back = -q; // ns before midnight of day 0
        let days = (back + DAY_NS - 1) / DAY_NS;
        let within = days * DAY_NS - back;
        return (RT { secs: (within / NS) as i64, frac: (within % NS) as i64 }, -days * 86_400);
    }
    if q >= day0_len {
        let fwd = q - day0_len;
        let days = fwd / DAY_NS + 1;
        let within = fwd % DAY_NS;
        return (RT { secs: (within / NS) as i64, frac: (within % NS) as i64 }, days * 86_400);
    }
    // inside day 0: label seconds one by one is too slow; use segment arithmetic
    if t.leap() {
        let l0 = (t.secs as i128 + 1) * NS;
        if q >= l0 + NS {
            let lab = q - NS;
            return (RT { secs: (lab / NS) as i64, frac: (lab % NS) as i64 }, 0);
        }
        if q >= l0 {
            return (RT { secs: t.secs, frac: (q - l0 + NS) as i64 }, 0);
        }
    }
    (RT { secs: (q / NS) as i64, frac: (q % NS) as i64 }, 0)
}

fn hmsf(h: i64, m: i64, s: i64, milli: i64) -> RT {
    RT { secs: h * 3600 + m * 60 + s, frac: milli * 1_000_000 }
}

/// Every leap-second example of NaiveTime's / NaiveDateTime's rustdoc, against the model only.
fn self_test() -> Result<(), String> {
    let ms = 1_000_000i128;
    let s = NS;
    let lp = |h: i64, m: i64, sec: i64, frac_ms: i64| RT { secs: h * 3600 + m * 60 + sec, frac: G + frac_ms * 1_000_000 };
    // "Time + TimeDelta" list of the module docs (03:00:60 is a leap second)
    let add_cases: Vec<(RT, i128, RT, i128)> = vec![
        (hmsf(3, 0, 0, 0), s, hmsf(3, 0, 1, 0), 0),
        (hmsf(3, 0, 59, 0), 60 * s, hmsf(3, 1, 59, 0), 0),
        (hmsf(3, 0, 59, 0), 61 * s, hmsf(3, 2, 0, 0), 0),
        (hmsf(3, 0, 59, 0), s, hmsf(3, 1, 0, 0), 0),
        (lp(3, 0, 59, 0), s, hmsf(3, 1, 0, 0), 0),
        (lp(3, 0, 59, 0), 60 * s, hmsf(3, 1, 59, 0), 0),
        (lp(3, 0, 59, 0), 61 * s, hmsf(3, 2, 0, 0), 0),
        (lp(3, 0, 59, 100), 800 * ms, lp(3, 0, 59, 900), 0),
        // "Time - TimeDelta"
        (hmsf(3, 0, 0, 0), -s, hmsf(2, 59, 59, 0), 0),
        (hmsf(3, 1, 0, 0), -s, hmsf(3, 0, 59, 0), 0),
        (hmsf(3, 1, 0, 0), -60 * s, hmsf(3, 0, 0, 0), 0),
        (lp(3, 0, 59, 0), -60 * s, hmsf(3, 0, 0, 0), 0),
        (lp(3, 0, 59, 700), -400 * ms, lp(3, 0, 59, 300), 0),
        (lp(3, 0, 59, 700), -900 * ms, hmsf(3, 0, 59, 800), 0),
        // overflowing_add_signed / overflowing_sub_signed examples
        (hmsf(3, 4, 5, 0), 11 * 3600 * s, hmsf(14, 4, 5, 0), 0),
        (hmsf(3, 4, 5, 0), 23 * 3600 * s, hmsf(2, 4, 5, 0), 86_400),
        (hmsf(3, 4, 5, 0), -7 * 3600 * s, hmsf(20, 4, 5, 0), -86_400),
        (hmsf(3, 4, 5, 0), -2 * 3600 * s, hmsf(1, 4, 5, 0), 0),
        (hmsf(3, 4, 5, 0), -17 * 3600 * s, hmsf(10, 4, 5, 0), -86_400),
        (hmsf(3, 4, 5, 0), 22 * 3600 * s, hmsf(1, 4, 5, 0), 86_400),
        // impl Add<TimeDelta> examples, leap = 03:05:59.1300
        (lp(3, 5, 59, 300), 0, lp(3, 5, 59, 300), 0),
        (lp(3, 5, 59, 300), -500 * ms, hmsf(3, 5, 59, 800), 0),
        (lp(3, 5, 59, 300), 500 * ms, lp(3, 5, 59, 800), 0),
        (lp(3, 5, 59, 300), 800 * ms, hmsf(3, 6, 0, 100), 0),
        (lp(3, 5, 59, 300), 10 * s, hmsf(3, 6, 9, 300), 0),
        (lp(3, 5, 59, 300), -10 * s, hmsf(3, 5, 50, 300), 0),
        (lp(3, 5, 59, 300), 86_400 * s, hmsf(3, 5, 59, 300), 86_400),
        // impl Sub<TimeDelta> examples
        (lp(3, 5, 59, 300), -200 * ms, lp(3, 5, 59, 100), 0),
        (lp(3, 5, 59, 300), -60 * s, hmsf(3, 5, 0, 300), 0),
        (lp(3, 5, 59, 300), -86_400 * s, hmsf(3, 6, 0, 300), -86_400),
        // non-leap wrap examples
        (hmsf(3, 5, 7, 0), 22 * 3600 * s, hmsf(1, 5, 7, 0), 86_400),
        (hmsf(3, 5, 7, 0), -8 * 3600 * s, hmsf(19, 5, 7, 0), -86_400),
        (hmsf(3, 5, 7, 950), -980 * ms, hmsf(3, 5, 6, 970), 0),
    ];
    for (i, (t, d, exp, carry)) in add_cases.iter().enumerate() {
        let (r, c, _, _) = ref_add(*t, *d);
        if r != *exp || c != *carry {
            return Err(format!("c07 self-test: rustdoc add example #{}: {:?} + {} ns gave {:?} carry {} (doc: {:?} carry {})", i, t, d, r, c, exp, carry));
        }
        let (r2, c2) = slow_add(*t, *d);
        if r2 != *exp || c2 != *carry {
            return Err(format!("c07 self-test: slow_add disagrees on rustdoc example #{}", i));
        }
    }
    // "Time - Time" list (03:00:60 and 04:00:60 are leap seconds) + signed_duration_since examples
    let diff_cases: Vec<(RT, RT, i128)> = vec![
        (hmsf(4, 0, 0, 0), hmsf(3, 0, 0, 0), 3600 * s),
        (hmsf(3, 1, 0, 0), hmsf(3, 0, 0, 0), 60 * s),
        (lp(3, 0, 59, 0), hmsf(3, 0, 0, 0), 60 * s),
        (lp(3, 0, 59, 600), hmsf(3, 0, 59, 400), 1200 * ms),
        (hmsf(3, 1, 0, 0), hmsf(3, 0, 59, 800), 200 * ms),
        (hmsf(3, 1, 0, 0), lp(3, 0, 59, 500), 500 * ms),
        (lp(4, 0, 59, 900), lp(3, 0, 59, 100), 3601 * s + 800 * ms),
        (lp(3, 0, 59, 0), hmsf(3, 0, 59, 0), s),
        (lp(3, 0, 59, 500), hmsf(3, 0, 59, 0), 1500 * ms),
        (hmsf(3, 0, 0, 0), lp(2, 59, 59, 0), s),
        (lp(3, 0, 59, 0), lp(2, 59, 59, 0), 61 * s),
        (hmsf(3, 5, 7, 900), hmsf(3, 5, 6, 925), 975 * ms),
        (hmsf(3, 5, 7, 900), hmsf(4, 5, 7, 900), -3600 * s),
        (hmsf(3, 5, 7, 900), hmsf(2, 4, 6, 800), 3661 * s + 100 * ms),
    ];
    for (i, (a, b, exp)) in diff_cases.iter().enumerate() {
        if ref_diff(*a, *b) != *exp || ref_diff(*b, *a) != -*exp {
            return Err(format!("c07 self-test: rustdoc difference example #{}: {:?} - {:?} gave {} (doc {})", i, a, b, ref_diff(*a, *b), exp));
        }
    }
    // the two formulations of addition agree on a deterministic sweep
    let mut rng = Rng::new(0x5e1f, "C07/selftest", 0);
    for _ in 0..200_000 {
        let t = RT { secs: rng.range(0, 86_399), frac: rng.range(0, 2 * G - 1) };
        let d = match rng.below(4) {
            0 => rng.range(-3 * G, 3 * G) as i128,
            1 => rng.range(-200_000, 200_000) as i128 * NS + rng.range(-G + 1, G - 1) as i128,
            2 => rng.range128(TD_MIN_NS, TD_MAX_NS),
            _ => *rng.pick(&[0i128, 1, -1, NS, -NS, DAY_NS, -DAY_NS, 2 * NS - t.frac as i128, NS - t.frac as i128, -(t.frac as i128)]),
        };
        let (r, c, _, _) = ref_add(t, d);
        let (r2, c2) = slow_add(t, d);
        if (r, c) != (r2, c2) || c % 86_400 != 0 || r.secs < 0 || r.secs >= 86_400 || r.frac < 0 || r.frac >= 2 * G {
            return Err(format!("c07 self-test: ref_add/slow_add disagree for {:?} + {}: {:?}/{} vs {:?}/{}", t, d, r, c, r2, c2));
        }
        // a result that is a leap second can only be the operand's own leap second
        if r.leap() && !(t.leap() && r.secs == t.secs && c == 0) {
            return Err("c07 self-test: model produced a foreign leap second".into());
        }
    }
    if !valid_hms(23, 59, 59, 1_999_999_999) || valid_hms(23, 59, 58, 1_000_000_000) || valid_hms(24, 0, 0, 0) || valid_hms(0, 60, 0, 0) || valid_hms(0, 0, 60, 0) || valid_hms(23, 59, 59, 2_000_000_000) {
        return Err("c07 self-test: valid_hms".into());
    }
    if !valid_secs(86_399, 1_999_999_999) || !valid_secs(59, 1_000_000_000) || valid_secs(86_400, 0) || valid_secs(86_398, 1_000_000_000) || valid_secs(0, 2_000_000_000) {
        return Err("c07 self-test: valid_secs".into());
    }
    Ok(())
}

// ------------------------------------------------------------------------------------------------
// Entry point
// ------------------------------------------------------------------------------------------------

pub fn run(ctx: &Ctx) -> Outcome {
    let rep = Report::with_bitmap_bits("C07", B, FLOOR, 28);
    for r in [rc::self_test(), ri::self_test(), self_test()] {
        if let Err(e) = r {
            rep.harness_error(e);
            return rep.finish(ctx, "self-test failed", &[]);
        }
    }
    rep.add_extra_count("oracle_selftest_rustdoc_examples", 47);
    rep.set_extra("exhaustive_subdomains", json!("from_num_seconds_from_midnight_opt: every second count 0..=86401 x 14 nanosecond boundary values; from_hms_{nano,micro,milli}_opt: every (h 0..=25, m 0..=61, s 0..=61) x 14 sub-second boundary values; thorough: every second of the day x 8 fractions as the operand of ~200 durations. The nanosecond field and the durations are sampled (boundaries + random)."));
    acceptance(ctx, &rep);
    fields(ctx, &rep);
    add_grid(ctx, &rep);
    add_random(ctx, &rep);
    if ctx.tier == Tier::Thorough {
        add_all_seconds(ctx, &rep);
    }
    differences(ctx, &rep);
    datetimes(ctx, &rep);
    offsets(ctx, &rep);
    crate::props::twins::c07(ctx, &rep, B.iter().position(|b| *b == "deprecated_panicking_twins").unwrap());
    rep.finish(
        ctx,
        "constructors: every (h 0..=25, m 0..=61, s 0..=61) x 14 nanosecond boundary values for the three from_hms_* forms, every second count 0..=86401 x those values, plus random/extreme u32 tuples; arithmetic: boundary times (24 catalogue seconds + random seconds x 16 fractions incl. 8 leap fractions) x a duration catalogue built per time from the specification (0, +-1 ns, exactly reaching the start/end of the leap second / the next second / midnight and +-1 ns around them, +-1/59/60/61/86399/86400/86401/172800 s with and without fractions, MIN, MAX, random), random (time, duration) pairs, in thorough all 86400 seconds x 8 fractions x 200 durations; differences: all ordered pairs of a set of boundary+random times; date-times with leap operands incl. both range ends; offset shifts. A case is non-trivial if an operand is a leap-second representation, or the sum crosses midnight, or the duration is within 1 ns of TimeDelta::MIN/MAX, or (constructors) the tuple is rejected or accepted as a leap second; distinct = distinct (operation, operand(s), duration) tuples (hashed bitmap, collisions under-count)",
        &[
            "the physical-timeline model of this module is the meaning of the rustdoc rule list: it reproduces every leap-second example of NaiveTime's and NaiveDateTime's rustdoc (checked at the start of every run) and is cross-checked against a second formulation",
            "NaiveDateTime - NaiveDateTime with a leap-second operand on different dates is only checked for antisymmetry (the rustdoc example there contradicts the timeline model; the property text does not name it)",
            "R-cal / R-inst self-tests passed",
        ],
    )
}

// ------------------------------------------------------------------------------------------------
// helpers
// ------------------------------------------------------------------------------------------------

fn show_t(t: &NaiveTime) -> Value {
    json!({"secs": t.num_seconds_from_midnight(), "frac": t.nanosecond()})
}

fn td_json(d: &TimeDelta) -> Value {
    json!({"secs_floor": td_ns(d).div_euclid(NS) as i64, "subsec_ns": td_ns(d).rem_euclid(NS) as i64, "total_ns": td_ns(d).to_string()})
}

/// Build chrono value or report a harness error (the constructors themselves are judged in the
/// acceptance phase).
static MK_ERRORS: std::sync::atomic::AtomicU64 = std::sync::atomic::AtomicU64::new(0);

fn mk(rep: &Report, t: RT) -> Option<NaiveTime> {
    match guard(|| t.to_chrono()) {
        Ok(Some(x)) if RT::of(&x) == t => Some(x),
        other => {
            if MK_ERRORS.fetch_add(1, std::sync::atomic::Ordering::Relaxed) >= 3 {
                return None;
            }
            rep.harness_error(format!("c07: cannot build operand {:?} through public constructors: {:?}", t, other.map(|o| o.map(|x| RT::of(&x))).ok()));
            None
        }
    }
}

// ------------------------------------------------------------------------------------------------
// Phase 1: acceptance of constructors + accessors of the accepted value
// ------------------------------------------------------------------------------------------------

const NANOS: [u64; 14] = [
    0, 1, 500_000_000, 999_999_999, 1_000_000_000, 1_000_000_001, 1_500_000_000, 1_999_999_999, 2_000_000_000, 2_000_000_001,
    2_147_483_647, 2_147_483_648, 4_294_967_295, 3_000_000_000,
];
const MILLIS: [u64; 14] = [0, 1, 999, 1000, 1001, 1500, 1999, 2000, 2001, 4294, 4295, 4_294_968, 2_147_483_648, 4_294_967_295];
const MICROS: [u64; 14] = [0, 1, 999_999, 1_000_000, 1_000_001, 1_999_999, 2_000_000, 2_000_001, 4_294_967, 4_294_968, 4_296_968, 2_147_483_648, 4_294_967_295, 1_500_000];

struct AccIdx {
    ok: usize,
    ok_leap: usize,
    h24: usize,
    m60: usize,
    s60: usize,
    leap_not59: usize,
    n2e9: usize,
    milli_ovf: usize,
    micro_ovf: usize,
    s_leap: usize,
    s_86400: usize,
    s_leap_not59: usize,
    s_n2e9: usize,
    via_dt: usize,
}

fn acc_idx() -> AccIdx {
    AccIdx {
        ok: bi("accept_nonleap"),
        ok_leap: bi("accept_leap_sec59"),
        h24: bi("reject_hour24"),
        m60: bi("reject_min60"),
        s60: bi("reject_sec60"),
        leap_not59: bi("reject_leap_not_sec59"),
        n2e9: bi("reject_nano_2e9"),
        milli_ovf: bi("reject_milli_mul_overflow"),
        micro_ovf: bi("reject_micro_mul_overflow"),
        s_leap: bi("secs_accept_leap"),
        s_86400: bi("secs_reject_86400"),
        s_leap_not59: bi("secs_reject_leap_not_sec59"),
        s_n2e9: bi("secs_reject_nano_2e9"),
        via_dt: bi("accessors_via_datetime"),
    }
}

/// Accessor check of an accepted value against the fields it was built from.
fn accessors_ok(t: &NaiveTime, h: u64, m: u64, s: u64, ns: u64) -> bool {
    let h12 = {
        let x = h % 12;
        (h >= 12, if x == 0 { 12 } else { x } as u32)
    };
    t.hour() as u64 == h
        && t.minute() as u64 == m
        && t.second() as u64 == s
        && t.nanosecond() as u64 == ns
        && t.num_seconds_from_midnight() as u64 == h * 3600 + m * 60 + s
        && t.hour12() == h12
}

/// One from_hms_{nano,micro,milli}_opt call. `unit` = ns per sub-second unit.
#[allow(clippy::too_many_arguments)]
fn check_hms(loc: &mut Local, ix: &AccIdx, which: u8, h: u64, m: u64, s: u64, sub: u64) {
    let (entry, unit): (&str, u64) = match which {
        0 => ("from_hms_nano_opt", 1),
        1 => ("from_hms_micro_opt", 1_000),
        _ => ("from_hms_milli_opt", 1_000_000),
    };
    let ns = sub * unit; // u64: cannot overflow (sub < 2^32, unit <= 10^6)
    let exp = valid_hms(h, m, s, ns);
    let (h32, m32, s32, sub32) = (h as u32, m as u32, s as u32, sub as u32);
    let got = loc.call(entry, || json!([h, m, s, sub]), || match which {
        0 => NaiveTime::from_hms_nano_opt(h32, m32, s32, sub32),
        1 => NaiveTime::from_hms_micro_opt(h32, m32, s32, sub32),
        _ => NaiveTime::from_hms_milli_opt(h32, m32, s32, sub32),
    });
    loc.eval();
    let got = match got {
        Some(g) => g,
        None => return,
    };
    // classification
    if exp {
        if ns >= 1_000_000_000 {
            loc.bucket(ix.ok_leap);
            loc.nontrivial(h2(10 + which as u64, h2(h * 4096 + m * 64 + s, sub)));
        } else {
            loc.bucket(ix.ok);
        }
    } else {
        let class = if h >= 24 {
            ix.h24
        } else if m >= 60 {
            ix.m60
        } else if s >= 60 {
            ix.s60
        } else if ns >= 2_000_000_000 {
            if ns > u32::MAX as u64 {
                if which == 1 {
                    ix.micro_ovf
                } else {
                    ix.milli_ovf
                }
            } else {
                ix.n2e9
            }
        } else {
            ix.leap_not59
        };
        loc.bucket(class);
        loc.nontrivial(h2(10 + which as u64, h2(h * 4096 + m * 64 + s, sub)));
    }
    match (got, exp) {
        (None, false) => {}
        (Some(t), true) => {
            if !accessors_ok(&t, h, m, s, ns) {
                loc.violation(
                    &format!("C07/{}/accessors-differ-from-arguments", entry),
                    json!({"input": [h, m, s, sub], "observed": {"hour": t.hour(), "minute": t.minute(), "second": t.second(), "nanosecond": t.nanosecond(), "num_seconds_from_midnight": t.num_seconds_from_midnight(), "hour12": [t.hour12().0 as u32, t.hour12().1]}}),
                );
            }
        }
        (Some(t), false) => {
            let why = if h >= 24 || m >= 60 || s >= 60 {
                "accepted-field-out-of-range"
            } else if ns >= 2_000_000_000 {
                "accepted-nanosecond-ge-2e9"
            } else {
                "accepted-leap-fraction-off-second-59"
            };
            loc.violation(&format!("C07/{}/{}", entry, why), json!({"input": [h, m, s, sub], "expected": "None", "observed": show_t(&t)}));
        }
        (None, true) => {
            let why = if ns >= 1_000_000_000 { "rejected-valid-leap-second" } else { "rejected-valid-time" };
            loc.violation(&format!("C07/{}/{}", entry, why), json!({"input": [h, m, s, sub], "expected": "Some", "observed": "None"}));
        }
    }
}

fn check_secs(loc: &mut Local, ix: &AccIdx, secs: u64, ns: u64) {
    let exp = valid_secs(secs, ns);
    let got = loc.call("from_num_seconds_from_midnight_opt", || json!([secs, ns]), || NaiveTime::from_num_seconds_from_midnight_opt(secs as u32, ns as u32));
    loc.eval();
    let got = match got {
        Some(g) => g,
        None => return,
    };
    if exp {
        if ns >= 1_000_000_000 {
            loc.bucket(ix.s_leap);
            loc.nontrivial(h2(14, h2(secs, ns)));
        } else {
            loc.bucket(ix.ok);
        }
    } else {
        loc.bucket(if secs >= 86_400 {
            ix.s_86400
        } else if ns >= 2_000_000_000 {
            ix.s_n2e9
        } else {
            ix.s_leap_not59
        });
        loc.nontrivial(h2(14, h2(secs, ns)));
    }
    match (got, exp) {
        (None, false) => {}
        (Some(t), true) => {
            let (h, m, s) = (secs / 3600, secs / 60 % 60, secs % 60);
            if !accessors_ok(&t, h, m, s, ns) {
                loc.violation(
                    "C07/from_num_seconds_from_midnight_opt/accessors-differ-from-arguments",
                    json!({"input": [secs, ns], "observed": {"hour": t.hour(), "minute": t.minute(), "second": t.second(), "nanosecond": t.nanosecond(), "num_seconds_from_midnight": t.num_seconds_from_midnight()}}),
                );
            }
            // the same value through from_hms_nano_opt
            if guard(|| NaiveTime::from_hms_nano_opt(h as u32, m as u32, s as u32, ns as u32)).ok().flatten() != Some(t) {
                loc.violation("C07/from_num_seconds_from_midnight_opt/differs-from-from_hms_nano_opt", json!({"input": [secs, ns]}));
            }
        }
        (Some(t), false) => {
            let why = if secs >= 86_400 {
                "accepted-seconds-ge-86400"
            } else if ns >= 2_000_000_000 {
                "accepted-nanosecond-ge-2e9"
            } else {
                "accepted-leap-fraction-off-second-59"
            };
            loc.violation(&format!("C07/from_num_seconds_from_midnight_opt/{}", why), json!({"input": [secs, ns], "expected": "None", "observed": show_t(&t)}));
        }
        (None, true) => {
            let why = if ns >= 1_000_000_000 { "rejected-valid-leap-second" } else { "rejected-valid-time" };
            loc.violation(&format!("C07/from_num_seconds_from_midnight_opt/{}", why), json!({"input": [secs, ns], "expected": "Some", "observed": "None"}));
        }
    }
}

fn acceptance(ctx: &Ctx, rep: &Report) {
    let ix = acc_idx();
    // (a) grid: h 0..=25, m 0..=61, s 0..=61 x sub-second catalogue x three constructors
    par_shards(rep, ctx.threads, 26, |h| {
        let mut loc = rep.local();
        let h = h as u64;
        for m in 0..=61u64 {
            for s in 0..=61u64 {
                for k in 0..14 {
                    check_hms(&mut loc, &ix, 0, h, m, s, NANOS[k]);
                    check_hms(&mut loc, &ix, 1, h, m, s, MICROS[k]);
                    check_hms(&mut loc, &ix, 2, h, m, s, MILLIS[k]);
                }
            }
        }
    });
    // (b) every second count 0..=86401 (+ extremes) x nanosecond catalogue
    par_shards(rep, ctx.threads, 64, |shard| {
        let mut loc = rep.local();
        let per = (86_402 + 63) / 64;
        let lo = shard as u64 * per;
        let hi = (lo + per).min(86_402);
        for secs in lo..hi {
            for ns in NANOS {
                check_secs(&mut loc, &ix, secs, ns);
            }
        }
        if shard == 0 {
            for secs in [86_459u64, 172_799, 2_147_483_647, 2_147_483_648, 4_294_967_295, 4_294_967_295 - 36, 4_294_880_896 + 59] {
                for ns in NANOS {
                    check_secs(&mut loc, &ix, secs, ns);
                }
            }
        }
    });
    // (c) random / extreme tuples
    let total = ctx.n(600_000, 20_000_000);
    let n_shards = 32usize;
    let u32s: [u64; 16] = [0, 1, 23, 24, 58, 59, 60, 61, 255, 256, 65_535, 65_536, 1_193_046, 2_147_483_648, 4_294_967_294, 4_294_967_295];
    par_shards(rep, ctx.threads, n_shards, |shard| {
        let mut rng = Rng::new(ctx.seed, "C07/acceptance", shard as u64);
        let mut loc = rep.local();
        let small = |rng: &mut Rng, lim: u64| -> u64 {
            match rng.below(10) {
                0 => *rng.pick(&u32s),
                1 => rng.next() as u32 as u64,
                2 => lim + rng.below(3),
                3 => lim - 1,
                _ => rng.below(lim),
            }
        };
        let sub = |rng: &mut Rng, unit: u64| -> u64 {
            let one = 1_000_000_000 / unit;
            match rng.below(10) {
                0 => rng.next() as u32 as u64,
                1 => *rng.pick(&[0, 1, one - 1, one, one + 1, 2 * one - 1, 2 * one, 2 * one + 1, u32::MAX as u64]),
                2 | 3 => one + rng.below(one),
                4 => 2 * one + rng.below(one),
                5 => ((u32::MAX as u64 / unit).saturating_sub(2) + rng.below(5)).min(u32::MAX as u64),
                _ => rng.below(one),
            }
        };
        for _ in 0..total / n_shards as u64 {
            let which = rng.below(4) as u8;
            if which == 3 {
                let secs = match rng.below(8) {
                    0 => rng.next() as u32 as u64,
                    1 => 86_398 + rng.below(4),
                    2 => rng.below(1440) * 60 + 59,
                    3 => rng.below(1440) * 60 + 58,
                    _ => rng.below(86_400),
                };
                let ns = sub(&mut rng, 1);
                check_secs(&mut loc, &ix, secs, ns);
            } else {
                let unit = [1u64, 1_000, 1_000_000][which as usize];
                let (h, m) = (small(&mut rng, 24), small(&mut rng, 60));
                let s = if rng.chance(1, 3) { 59 } else { small(&mut rng, 60) };
                let x = sub(&mut rng, unit);
                check_hms(&mut loc, &ix, which, h, m, s, x);
            }
        }
    });
    // (d) from_hms_opt == from_hms_nano_opt(.., 0) and the accessor route through NaiveDateTime
    // (Timelike's provided num_seconds_from_midnight / hour12 in src/traits.rs)
    let mut loc = rep.local();
    let date = NaiveDate::from_ymd_opt(2015, 6, 30);
    for secs in 0..86_400u64 {
        let (h, m, s) = (secs / 3600, secs / 60 % 60, secs % 60);
        let ns: u64 = if s == 59 { 1_000_000_000 + secs * 11_573 } else { secs * 11_574 };
        loc.eval();
        let r = guard(|| {
            let t0 = NaiveTime::from_hms_opt(h as u32, m as u32, s as u32)?;
            let t = NaiveTime::from_hms_nano_opt(h as u32, m as u32, s as u32, ns as u32)?;
            let dt = date?.and_time(t);
            Some((t0, t, dt))
        });
        match r {
            Ok(Some((t0, t, dt))) => {
                loc.bucket(ix.via_dt);
                if !accessors_ok(&t0, h, m, s, 0) {
                    loc.violation("C07/from_hms_opt/accessors-differ-from-arguments", json!({"input": [h, m, s]}));
                }
                let h12 = dt.hour12();
                let ok = dt.hour() as u64 == h
                    && dt.minute() as u64 == m
                    && dt.second() as u64 == s
                    && dt.nanosecond() as u64 == ns
                    && Timelike::num_seconds_from_midnight(&dt) as u64 == secs
                    && h12 == t.hour12()
                    && h12.0 == (h >= 12)
                    && h12.1 as u64 == if h % 12 == 0 { 12 } else { h % 12 }
                    && dt.time() == t;
                if !ok {
                    loc.violation("C07/Timelike-for-NaiveDateTime/accessors-differ-from-time", json!({"input": [h, m, s, ns], "observed": {"hour": dt.hour(), "minute": dt.minute(), "second": dt.second(), "nanosecond": dt.nanosecond(), "num_seconds_from_midnight": Timelike::num_seconds_from_midnight(&dt)}}));
                }
            }
            Ok(None) => loc.violation("C07/from_hms_opt/rejected-valid-time", json!({"input": [h, m, s, ns]})),
            Err(p) => loc.violation(&format!("C07/from_hms_opt/panic@{}", p.site()), json!({"input": [h, m, s, ns], "panic": p.to_json()})),
        }
    }
    for (h, m, s) in [(24u32, 0u32, 0u32), (0, 60, 0), (0, 0, 60), (u32::MAX, 0, 0), (0, u32::MAX, 0), (0, 0, u32::MAX), (1_193_046, 0, 0), (23, 59, 60)] {
        loc.eval();
        if let Some(Some(t)) = loc.call("from_hms_opt", || json!([h, m, s]), || NaiveTime::from_hms_opt(h, m, s)) {
            loc.violation("C07/from_hms_opt/accepted-field-out-of-range", json!({"input": [h, m, s], "observed": show_t(&t)}));
        }
    }
}

// ------------------------------------------------------------------------------------------------
// Phase 2: single-field replacement
// ------------------------------------------------------------------------------------------------

fn fields(ctx: &Ctx, rep: &Report) {
    let (b_some, b_none, b_leap_any, b_on_leap) = (bi("with_field_some"), bi("with_field_none"), bi("with_nano_leap_any_second"), bi("with_on_leap_operand"));
    let args: [u64; 26] = [
        0, 1, 2, 11, 12, 13, 22, 23, 24, 25, 58, 59, 60, 61, 999_999_999, 1_000_000_000, 1_000_000_001, 1_999_999_999, 2_000_000_000,
        2_000_000_001, 1_193_046, 71_582_788, 2_147_483_647, 2_147_483_648, 4_294_967_294, 4_294_967_295,
    ];
    let total = ctx.n(30_000, 400_000);
    let n_shards = 32usize;
    par_shards(rep, ctx.threads, n_shards, |shard| {
        let mut rng = Rng::new(ctx.seed, "C07/fields", shard as u64);
        let mut loc = rep.local();
        for _ in 0..total / n_shards as u64 {
            let secs = gen::random_secs(&mut rng);
            let frac = match rng.below(3) {
                0 => gen::random_frac(&mut rng) + G,
                _ => gen::random_frac(&mut rng),
            };
            let t0 = RT { secs, frac };
            let t = match mk(rep, t0) {
                Some(t) => t,
                None => continue,
            };
            let (h, m, s) = ((secs / 3600) as u64, (secs / 60 % 60) as u64, (secs % 60) as u64);
            for field in 0..4u8 {
                // all catalogue arguments + 3 random ones
                for k in 0..args.len() + 3 {
                    let v: u64 = if k < args.len() {
                        args[k]
                    } else {
                        match (field, rng.below(3)) {
                            (_, 0) => rng.next() as u32 as u64,
                            (3, _) => rng.below(2_000_000_000),
                            (0, _) => rng.below(24),
                            _ => rng.below(60),
                        }
                    };
                    let (entry, lim) = match field {
                        0 => ("with_hour", 24u64),
                        1 => ("with_minute", 60),
                        2 => ("with_second", 60),
                        _ => ("with_nanosecond", 2_000_000_000),
                    };
                    let got = loc.call(entry, || json!({"time": t0.json(), "arg": v}), || match field {
                        0 => t.with_hour(v as u32),
                        1 => t.with_minute(v as u32),
                        2 => t.with_second(v as u32),
                        _ => t.with_nanosecond(v as u32),
                    });
                    loc.eval();
                    let got = match got {
                        Some(g) => g,
                        None => continue,
                    };
                    let exp = if v < lim {
                        Some(match field {
                            0 => (v, m, s, frac as u64),
                            1 => (h, v, s, frac as u64),
                            2 => (h, m, v, frac as u64),
                            _ => (h, m, s, v),
                        })
                    } else {
                        None
                    };
                    let opclass = if t0.leap() { "leap-operand" } else { "nonleap-operand" };
                    if t0.leap() {
                        loc.bucket(b_on_leap);
                    }
                    match (got, exp) {
                        (None, None) => {
                            loc.bucket(b_none);
                            loc.nontrivial(h2(20 + field as u64, h2(t0.hash(), v)));
                        }
                        (Some(r), Some((eh, em, es, en))) => {
                            loc.bucket(b_some);
                            if field == 3 && v >= 1_000_000_000 && s != 59 {
                                loc.bucket(b_leap_any);
                            }
                            if t0.leap() || en >= 1_000_000_000 {
                                loc.nontrivial(h2(20 + field as u64, h2(t0.hash(), v)));
                            }
                            if !accessors_ok(&r, eh, em, es, en) {
                                loc.violation(
                                    &format!("C07/{}/{}/other-field-changed-or-wrong-value", entry, opclass),
                                    json!({"time": t0.json(), "arg": v, "expected_hmsn": [eh, em, es, en], "observed_hmsn": [r.hour(), r.minute(), r.second(), r.nanosecond()], "observed_secs": r.num_seconds_from_midnight()}),
                                );
                            }
                        }
                        (Some(r), None) => loc.violation(&format!("C07/{}/{}/accepted-out-of-range-value", entry, opclass), json!({"time": t0.json(), "arg": v, "observed": show_t(&r)})),
                        (None, Some(_)) => loc.violation(&format!("C07/{}/{}/rejected-in-range-value", entry, opclass), json!({"time": t0.json(), "arg": v})),
                    }
                }
            }
        }
    });
}

// ------------------------------------------------------------------------------------------------
// Phase 3: addition / subtraction of durations
// ------------------------------------------------------------------------------------------------

struct AddIdx {
    nl_same: usize,
    nl_fwd: usize,
    nl_back: usize,
    stay: usize,
    xf_frac: usize,
    xf_secs: usize,
    xb_frac: usize,
    xb_secs: usize,
    end_exact: usize,
    end_m1: usize,
    start_exact: usize,
    start_m1: usize,
    l_fwd: usize,
    l_back: usize,
    neg_frac: usize,
    extreme: usize,
    multi: usize,
    zero: usize,
    not59: usize,
    sd_lt1: usize,
    sd_ge1: usize,
    sd_ge2: usize,
    sd_leap: usize,
}

fn add_idx() -> AddIdx {
    AddIdx {
        nl_same: bi("add_nonleap_same_day"),
        nl_fwd: bi("add_nonleap_wrap_forward"),
        nl_back: bi("add_nonleap_wrap_backward"),
        stay: bi("add_leap_stay"),
        xf_frac: bi("add_leap_exit_forward_frac_only"),
        xf_secs: bi("add_leap_exit_forward_secs"),
        xb_frac: bi("add_leap_exit_backward_frac_only"),
        xb_secs: bi("add_leap_exit_backward_secs"),
        end_exact: bi("add_leap_reach_end_exact"),
        end_m1: bi("add_leap_end_minus_1ns"),
        start_exact: bi("add_leap_reach_start_exact"),
        start_m1: bi("add_leap_start_minus_1ns"),
        l_fwd: bi("add_leap_wrap_forward"),
        l_back: bi("add_leap_wrap_backward"),
        neg_frac: bi("add_negative_with_fraction"),
        extreme: bi("add_extreme_duration"),
        multi: bi("add_multi_day_carry"),
        zero: bi("add_zero"),
        not59: bi("add_leap_not_on_sec59"),
        sd_lt1: bi("std_duration_lt_1day"),
        sd_ge1: bi("std_duration_ge_1day"),
        sd_ge2: bi("std_duration_ge_2days"),
        sd_leap: bi("std_duration_leap_operand"),
    }
}

fn cmp_add(loc: &mut Local, entry: &str, class: AddClass, t: RT, d_ns: i128, got: (NaiveTime, i64), exp: (RT, i128)) {
    let gt = RT::of(&got.0);
    if gt != exp.0 {
        loc.violation(
            &format!("C07/{}/{}/wrong-time", entry, class.name()),
            json!({"time": t.json(), "duration_ns": d_ns.to_string(), "expected": {"time": exp.0.json(), "carry_secs": exp.1.to_string()}, "observed": {"time": gt.json(), "carry_secs": got.1}}),
        );
    } else if got.1 as i128 != exp.1 {
        loc.violation(
            &format!("C07/{}/{}/wrong-day-carry", entry, class.name()),
            json!({"time": t.json(), "duration_ns": d_ns.to_string(), "expected": {"time": exp.0.json(), "carry_secs": exp.1.to_string()}, "observed": {"time": gt.json(), "carry_secs": got.1}}),
        );
    }
}

fn cmp_op(loc: &mut Local, entry: &str, class: AddClass, t: RT, d_ns: i128, got: NaiveTime, exp: RT) {
    let gt = RT::of(&got);
    if gt != exp {
        loc.violation(
            &format!("C07/{}/{}/wrong-time", entry, class.name()),
            json!({"time": t.json(), "duration_ns": d_ns.to_string(), "expected": exp.json(), "observed": gt.json()}),
        );
    }
}

/// All checks for one (time, duration) case.
fn check_add(loc: &mut Local, ix: &AddIdx, tc: NaiveTime, t: RT, d: TimeDelta, with_ops: bool) {
    let dn = td_ns(&d);
    let (er, ec, class, q) = ref_add(t, dn);
    let (sr, sc, sclass, _) = ref_add(t, -dn);
    let inp = || json!({"time": t.json(), "duration": td_json(&d)});
    // --- buckets from the oracle's point of view
    let mut nontrivial = t.leap() || ec != 0 || sc != 0;
    match class {
        AddClass::Nonleap => loc.bucket(if ec == 0 {
            ix.nl_same
        } else if ec > 0 {
            ix.nl_fwd
        } else {
            ix.nl_back
        }),
        AddClass::LeapStay => loc.bucket(ix.stay),
        AddClass::LeapExitForward => {
            loc.bucket(if dn < NS { ix.xf_frac } else { ix.xf_secs });
            if ec > 0 {
                loc.bucket(ix.l_fwd);
            }
        }
        AddClass::LeapExitBackward => {
            loc.bucket(if dn > -NS { ix.xb_frac } else { ix.xb_secs });
            if ec < 0 {
                loc.bucket(ix.l_back);
            }
        }
    }
    if t.leap() {
        let l0 = (t.secs as i128 + 1) * NS;
        if q == l0 + NS {
            loc.bucket(ix.end_exact);
        } else if q == l0 + NS - 1 {
            loc.bucket(ix.end_m1);
        } else if q == l0 {
            loc.bucket(ix.start_exact);
        } else if q == l0 - 1 {
            loc.bucket(ix.start_m1);
        }
        if t.secs % 60 != 59 {
            loc.bucket(ix.not59);
        }
    }
    if dn < 0 && dn % NS != 0 {
        loc.bucket(ix.neg_frac);
    }
    if dn == 0 {
        loc.bucket(ix.zero);
    }
    if dn >= TD_MAX_NS - 1 || dn <= TD_MIN_NS + 1 {
        loc.bucket(ix.extreme);
        nontrivial = true;
    }
    if ec.abs() > 86_400 {
        loc.bucket(ix.multi);
    }
    if nontrivial {
        loc.nontrivial(h2(30, h2(t.hash(), h2(dn as u64, (dn >> 64) as u64))));
    }
    // --- the calls
    loc.eval();
    if let Some(g) = loc.call("overflowing_add_signed", inp, || tc.overflowing_add_signed(d)) {
        cmp_add(loc, "overflowing_add_signed", class, t, dn, g, (er, ec));
    }
    loc.eval();
    if let Some(g) = loc.call("overflowing_sub_signed", inp, || tc.overflowing_sub_signed(d)) {
        // documented: the days ignored *from the subtraction*, i.e. minus the carry of t + (-d)
        cmp_add(loc, "overflowing_sub_signed", sclass, t, -dn, (g.0, g.1), (sr, -sc));
    }
    if with_ops {
        loc.evals(4);
        if let Some(g) = loc.call("NaiveTime+TimeDelta", inp, || tc + d) {
            cmp_op(loc, "NaiveTime+TimeDelta", class, t, dn, g, er);
        }
        if let Some(g) = loc.call("NaiveTime-TimeDelta", inp, || tc - d) {
            cmp_op(loc, "NaiveTime-TimeDelta", sclass, t, -dn, g, sr);
        }
        if let Some(g) = loc.call("NaiveTime+=TimeDelta", inp, || {
            let mut x = tc;
            x += d;
            x
        }) {
            cmp_op(loc, "NaiveTime+=TimeDelta", class, t, dn, g, er);
        }
        if let Some(g) = loc.call("NaiveTime-=TimeDelta", inp, || {
            let mut x = tc;
            x -= d;
            x
        }) {
            cmp_op(loc, "NaiveTime-=TimeDelta", sclass, t, -dn, g, sr);
        }
    }
    loc.sample(|| json!({"op": "overflowing_add_signed", "time": t.json(), "duration_ns": dn.to_string(), "result": er.json(), "carry_secs": ec.to_string(), "class": class.name()}));
}

/// `NaiveTime +/- std::time::Duration` (unsigned; any u64 second count).
fn check_std(loc: &mut Local, ix: &AddIdx, tc: NaiveTime, t: RT, secs: u64, nanos: u32) {
    let sd = StdDuration::new(secs, nanos);
    let dn = secs as i128 * NS + nanos as i128;
    let (er, _, class, _) = ref_add(t, dn);
    let (sr, _, sclass, _) = ref_add(t, -dn);
    let size = if secs >= 172_800 {
        loc.bucket(ix.sd_ge2);
        "ge-2days"
    } else if secs >= 86_400 {
        loc.bucket(ix.sd_ge1);
        "1day-to-2days"
    } else {
        loc.bucket(ix.sd_lt1);
        "lt-1day"
    };
    if t.leap() {
        loc.bucket(ix.sd_leap);
        loc.nontrivial(h2(31, h2(t.hash(), h2(secs, nanos as u64))));
    }
    let inp = || json!({"time": t.json(), "std_duration": {"secs": secs, "nanos": nanos}});
    loc.evals(2);
    let cmp = |loc: &mut Local, entry: &str, class: AddClass, got: NaiveTime, exp: RT| {
        let gt = RT::of(&got);
        if gt != exp {
            loc.violation(
                &format!("C07/{}/{}/{}/wrong-time", entry, class.name(), size),
                json!({"time": t.json(), "std_duration": {"secs": secs, "nanos": nanos}, "expected": exp.json(), "observed": gt.json()}),
            );
        }
    };
    if let Some(g) = loc.call("NaiveTime+std::Duration", inp, || tc + sd) {
        cmp(loc, "NaiveTime+std::Duration", class, g, er);
    }
    if let Some(g) = loc.call("NaiveTime-std::Duration", inp, || tc - sd) {
        cmp(loc, "NaiveTime-std::Duration", sclass, g, sr);
    }
    {
        loc.evals(2);
        if let Some(g) = loc.call("NaiveTime+=std::Duration", inp, || {
            let mut x = tc;
            x += sd;
            x
        }) {
            cmp(loc, "NaiveTime+=std::Duration", class, g, er);
        }
        if let Some(g) = loc.call("NaiveTime-=std::Duration", inp, || {
            let mut x = tc;
            x -= sd;
            x
        }) {
            cmp(loc, "NaiveTime-=std::Duration", sclass, g, sr);
        }
    }
}

/// The duration catalogue for one time, from the specification's boundaries (in ns).
fn durations_for(t: RT, out: &mut Vec<i128>) {
    out.clear();
    let p = t.secs as i128 * NS + t.frac as i128;
    let f = t.frac as i128;
    let day0 = if t.leap() { DAY_NS + NS } else { DAY_NS };
    // targets on the timeline: start of this second, next second (= start of the leap second for a
    // non-leap :59 label / for a leap operand its start), :61.0 (end of the leap second), midnight
    // before / after, and one whole day further
    let targets = [
        -f,            // start of the labelled second
        NS - f,        // :60.0 — the next second / (for a leap operand) back to the leap second's start
        2 * NS - f,    // :61.0 — end of the leap second for a leap operand
        3 * NS - f,
        -p,            // midnight before
        day0 - p,      // midnight after
        -p - DAY_NS,   // two midnights before
        day0 - p + DAY_NS,
        -p + (t.secs as i128 - t.secs as i128 % 60) * NS, // start of the minute
    ];
    for x in targets {
        for k in -2..=2i128 {
            out.push(x + k);
        }
    }
    let whole: [i128; 17] = [0, 1, 2, 58, 59, 60, 61, 3599, 3600, 3601, 43_200, 86_399, 86_400, 86_401, 172_799, 172_800, 172_801];
    let fr: [i128; 9] = [0, 1, -1, 500_000_000, -500_000_000, 999_999_999, -999_999_999, 300_000_000, -700_000_000];
    for w in whole {
        for x in fr {
            out.push(w * NS + x);
            out.push(-(w * NS) + x);
        }
    }
    for x in [999_999_998i128, 1_000_000_001, 1_999_999_999, 2_000_000_000, 2_000_000_001, 123_456_789, 876_543_211] {
        out.push(x);
        out.push(-x);
    }
    for k in 0..3i128 {
        out.push(TD_MAX_NS - k);
        out.push(TD_MIN_NS + k);
        out.push(TD_MAX_NS - k * NS - 1);
        out.push(TD_MIN_NS + k * NS + 1);
        out.push(TD_MAX_NS - TD_MAX_NS % DAY_NS - k);
        out.push(TD_MIN_NS + TD_MAX_NS % DAY_NS + k);
    }
    for days in [3i128, 7, 365, 106_751_991_167] {
        out.push(days * DAY_NS);
        out.push(-days * DAY_NS);
        out.push(days * DAY_NS - p);
        out.push(-days * DAY_NS - p - 1);
    }
    out.retain(|d| (TD_MIN_NS..=TD_MAX_NS).contains(d));
    out.sort();
    out.dedup();
}

const FRACS16: [i64; 16] = [
    0, 1, 300_000_000, 500_000_000, 700_000_000, 999_999_998, 999_999_999, 123_456_789,
    1_000_000_000, 1_000_000_001, 1_300_000_000, 1_500_000_000, 1_700_000_000, 1_999_999_998, 1_999_999_999, 1_123_456_789,
];

const STD_SECS: [u64; 22] = [
    0, 1, 59, 60, 61, 86_399, 86_400, 86_401, 172_799, 172_800, 172_801, 259_200, 345_600, 345_601, 604_800, 31_536_000,
    4_294_967_296, 9_223_372_036_854_775, 9_223_372_036_854_775_807, 18_446_744_073_709_551_615, 18_446_744_073_709_504_000, 18_446_744_073_709_551_614,
];

fn add_grid(ctx: &Ctx, rep: &Report) {
    let ix = add_idx();
    let mut secs: Vec<i64> = gen::catalogue_secs();
    secs.extend([3659, 86_340 - 1, 7199, 11_159, 10_859]);
    let mut rng = Rng::new(ctx.seed, "C07/add-grid-seconds", 0);
    for _ in 0..ctx.n(24, 200) {
        secs.push(rng.range(0, 86_399));
    }
    secs.sort();
    secs.dedup();
    let n = secs.len();
    par_shards(rep, ctx.threads, n, |i| {
        let mut loc = rep.local();
        let mut rng = Rng::new(ctx.seed, "C07/add-grid", i as u64);
        let mut ds: Vec<i128> = Vec::new();
        for frac in FRACS16 {
            let t = RT { secs: secs[i], frac };
            let tc = match mk(rep, t) {
                Some(x) => x,
                None => continue,
            };
            durations_for(t, &mut ds);
            for &dn in ds.iter() {
                match td_from_ns(dn) {
                    Some(d) => check_add(&mut loc, &ix, tc, t, d, true),
                    None => rep.harness_error(format!("c07: td_from_ns({}) failed", dn)),
                }
                if dn >= 0 {
                    check_std(&mut loc, &ix, tc, t, (dn / NS) as u64, (dn % NS) as u32);
                }
            }
            for s in STD_SECS {
                for ns in [0u32, 1, 300_000_000, 700_000_000, 999_999_999] {
                    check_std(&mut loc, &ix, tc, t, s, ns);
                }
            }
            for _ in 0..20 {
                let s = match rng.below(3) {
                    0 => rng.below(400_000),
                    1 => rng.below(5) * 86_400 + rng.below(2),
                    _ => rng.log_u64(64),
                };
                check_std(&mut loc, &ix, tc, t, s, rng.below(1_000_000_000) as u32);
            }
        }
    });
}

fn random_duration(rng: &mut Rng, t: RT) -> i128 {
    let d = match rng.below(12) {
        0 => rng.range(-2 * G, 2 * G) as i128,
        1 => rng.range(-172_800, 172_800) as i128 * NS,
        2 | 3 => rng.range(-172_800, 172_800) as i128 * NS + rng.range(-G + 1, G - 1) as i128,
        4 => rng.range128(TD_MIN_NS, TD_MAX_NS),
        5 => {
            let m = rng.log_i64(63) as i128;
            m * 1_000 + rng.range(-999, 999) as i128
        }
        6 => 2 * NS - t.frac as i128 + rng.range(-3, 3) as i128,
        7 => NS - t.frac as i128 + rng.range(-3, 3) as i128,
        8 => -(t.frac as i128) + rng.range(-3, 3) as i128,
        9 => rng.range(-5, 5) as i128 * DAY_NS + rng.range(-3, 3) as i128 * NS + rng.range(-3, 3) as i128,
        10 => {
            // land exactly on / next to a midnight some days away
            let p = t.secs as i128 * NS + t.frac as i128;
            rng.range(-3, 3) as i128 * DAY_NS - p + rng.range(-2, 2) as i128 + if rng.chance(1, 2) { NS } else { 0 }
        }
        _ => rng.log_i64(50) as i128,
    };
    d.clamp(TD_MIN_NS, TD_MAX_NS)
}

fn random_time(rng: &mut Rng) -> RT {
    let secs = gen::random_secs(rng);
    let frac = gen::random_frac(rng) + if rng.chance(1, 2) { G } else { 0 };
    RT { secs, frac }
}

fn add_random(ctx: &Ctx, rep: &Report) {
    let ix = add_idx();
    let total = ctx.n(6_000_000, 60_000_000);
    let n_shards = 64usize;
    par_shards(rep, ctx.threads, n_shards, |shard| {
        let mut rng = Rng::new(ctx.seed, "C07/add-random", shard as u64);
        let mut loc = rep.local();
        for i in 0..total / n_shards as u64 {
            let t = random_time(&mut rng);
            let tc = match mk(rep, t) {
                Some(x) => x,
                None => continue,
            };
            let dn = random_duration(&mut rng, t);
            if let Some(d) = td_from_ns(dn) {
                check_add(&mut loc, &ix, tc, t, d, i % 4 == 0);
            }
            if i % 8 == 0 {
                let s = if rng.chance(1, 2) { rng.below(6) * 86_400 + rng.below(3) } else { rng.log_u64(64) };
                check_std(&mut loc, &ix, tc, t, s, gen::random_frac(&mut rng) as u32);
            }
        }
    });
}

/// Thorough only: all 86400 seconds x 8 fractions x ~200 durations.
fn add_all_seconds(ctx: &Ctx, rep: &Report) {
    let ix = add_idx();
    let fr8: [i64; 8] = [0, 1, 500_000_000, 999_999_999, 1_000_000_000, 1_000_000_001, 1_500_000_000, 1_999_999_999];
    let n_shards = 1440usize;
    let keep_every = (100 / ctx.scale_pct.clamp(1, 100)) as usize; // VERIF_SCALE < 100 thins the walk
    par_shards(rep, ctx.threads, n_shards, |minute| {
        if minute % keep_every != 0 {
            return;
        }
        let mut loc = rep.local();
        let mut rng = Rng::new(ctx.seed, "C07/add-all-seconds", minute as u64);
        let mut ds: Vec<i128> = Vec::new();
        for s in 0..60 {
            let secs = (minute * 60 + s) as i64;
            for frac in fr8 {
                let t = RT { secs, frac };
                let tc = match mk(rep, t) {
                    Some(x) => x,
                    None => continue,
                };
                durations_for(t, &mut ds);
                // ~200 durations: every other catalogue entry (offset alternates) + 20 random
                let off = (secs as usize + (frac & 1) as usize) & 1;
                for (k, &dn) in ds.iter().enumerate() {
                    if k % 2 == off || ds.len() <= 200 {
                        if let Some(d) = td_from_ns(dn) {
                            check_add(&mut loc, &ix, tc, t, d, false);
                        }
                    }
                }
                for _ in 0..20 {
                    let dn = random_duration(&mut rng, t);
                    if let Some(d) = td_from_ns(dn) {
                        check_add(&mut loc, &ix, tc, t, d, false);
                    }
                }
            }
        }
    });
}

// ------------------------------------------------------------------------------------------------
// Phase 4: differences of two times
// ------------------------------------------------------------------------------------------------

fn differences(ctx: &Ctx, rep: &Report) {
    let (b_none, b_lhs, b_rhs, b_both, b_between, b_same, b_neg, b_zero) = (
        bi("diff_no_leap"), bi("diff_lhs_leap"), bi("diff_rhs_leap"), bi("diff_both_leap"), bi("diff_leap_between"),
        bi("diff_same_second_leap"), bi("diff_negative"), bi("diff_zero"),
    );
    // the set of times: boundary seconds x fractions, neighbours, random
    let n_times = ctx.n(3000, 8000) as usize;
    let mut set: Vec<RT> = Vec::new();
    let fr: [i64; 10] = [0, 1, 400_000_000, 999_999_999, 1_000_000_000, 1_000_000_001, 1_500_000_000, 1_600_000_000, 1_999_999_999, 800_000_000];
    for secs in [0i64, 1, 59, 60, 61, 3599, 3600, 10_799, 10_800, 10_859, 10_860, 14_459, 43_199, 43_200, 86_339, 86_340, 86_398, 86_399] {
        for f in fr {
            set.push(RT { secs, frac: f });
        }
    }
    let mut rng = Rng::new(ctx.seed, "C07/diff-set", 0);
    while set.len() < n_times {
        let t = random_time(&mut rng);
        set.push(t);
        if rng.chance(1, 4) && set.len() < n_times {
            // a neighbour: same second other fraction / adjacent second
            let secs = (t.secs + rng.range(-1, 1)).clamp(0, 86_399);
            set.push(RT { secs, frac: *rng.pick(&fr) });
        }
    }
    set.sort_by_key(|t| (t.secs, t.frac));
    set.dedup();
    let built: Vec<(RT, NaiveTime)> = set.iter().filter_map(|t| mk(rep, *t).map(|c| (*t, c))).collect();
    let n = built.len();
    par_shards(rep, ctx.threads, n, |i| {
        let mut loc = rep.local();
        let (a, ac) = built[i];
        for &(b, bc) in built[i..].iter() {
            let exp = ref_diff(a, b);
            // buckets
            match (a.leap(), b.leap()) {
                (false, false) => loc.bucket(b_none),
                (true, false) => loc.bucket(b_lhs),
                (false, true) => loc.bucket(b_rhs),
                (true, true) => loc.bucket(b_both),
            }
            if (a.leap() && a.secs < b.secs) || (b.leap() && b.secs < a.secs) {
                loc.bucket(b_between);
            }
            if (a.leap() || b.leap()) && a.secs == b.secs {
                loc.bucket(b_same);
            }
            if exp == 0 {
                loc.bucket(b_zero);
            } else {
                loc.bucket(b_neg); // one of the two orders below is negative
            }
            if a.leap() || b.leap() {
                loc.nontrivial(h2(40, h2(a.hash(), b.hash())));
            }
            let class = match (a.leap(), b.leap()) {
                (false, false) => "no-leap-operand",
                (true, false) | (false, true) => "one-leap-operand",
                (true, true) => "two-leap-operands",
            };
            let inp = || json!({"lhs": a.json(), "rhs": b.json()});
            loc.evals(2);
            let ab = loc.call("signed_duration_since", inp, || ac.signed_duration_since(bc));
            let ba = loc.call("signed_duration_since", || json!({"lhs": b.json(), "rhs": a.json()}), || bc.signed_duration_since(ac));
            if let (Some(ab), Some(ba)) = (ab, ba) {
                let (abn, ban) = (td_ns(&ab), td_ns(&ba));
                if abn != exp {
                    loc.violation(&format!("C07/signed_duration_since/{}/wrong-difference", class), json!({"lhs": a.json(), "rhs": b.json(), "expected_ns": exp.to_string(), "observed_ns": abn.to_string()}));
                }
                if ban != -exp {
                    loc.violation(&format!("C07/signed_duration_since/{}/wrong-difference", class), json!({"lhs": b.json(), "rhs": a.json(), "expected_ns": (-exp).to_string(), "observed_ns": ban.to_string()}));
                }
                if abn != -ban || guard(|| -ba).ok() != Some(ab) {
                    loc.violation(&format!("C07/signed_duration_since/{}/not-antisymmetric", class), json!({"a": a.json(), "b": b.json(), "a-b_ns": abn.to_string(), "b-a_ns": ban.to_string()}));
                }
                // operator form
                if (i + b.secs as usize) % 5 == 0 {
                    loc.eval();
                    if let Some(op) = loc.call("NaiveTime-NaiveTime", inp, || ac - bc) {
                        if td_ns(&op) != exp {
                            loc.violation(&format!("C07/NaiveTime-NaiveTime/{}/wrong-difference", class), json!({"lhs": a.json(), "rhs": b.json(), "expected_ns": exp.to_string(), "observed_ns": td_ns(&op).to_string()}));
                        }
                    }
                }
                loc.sample(|| json!({"op": "signed_duration_since", "lhs": a.json(), "rhs": b.json(), "result_ns": abn.to_string()}));
            }
        }
    });
}

// ------------------------------------------------------------------------------------------------
// Phase 5: date-times with a leap-second operand
// ------------------------------------------------------------------------------------------------

fn datetimes(ctx: &Ctx, rep: &Report) {
    let (b_some, b_none, b_fwd, b_back, b_end, b_diff) = (
        bi("dt_leap_add_some"), bi("dt_leap_add_none_out_of_range"), bi("dt_leap_carry_forward"), bi("dt_leap_carry_backward"),
        bi("dt_near_range_end"), bi("dt_diff_leap"),
    );
    let cat = gen::catalogue_days();
    let total = ctx.n(1_500_000, 20_000_000);
    let n_shards = 64usize;
    let (min_day, max_day) = (rc::min_day(), rc::max_day());
    par_shards(rep, ctx.threads, n_shards, |shard| {
        let mut rng = Rng::new(ctx.seed, "C07/datetime", shard as u64);
        let mut loc = rep.local();
        let mut ds: Vec<i128> = Vec::new();
        for i in 0..total / n_shards as u64 {
            // operand: a leap-second representation (7 of 8) on a boundary-biased date
            let day = match rng.below(6) {
                0 => min_day + rng.range(0, 2),
                1 => max_day - rng.range(0, 2),
                _ => gen::random_day(&mut rng, &cat),
            };
            let mut t = random_time(&mut rng);
            if !t.leap() && !rng.chance(1, 8) {
                t.frac += G;
            }
            if rng.chance(1, 3) {
                t.secs = *rng.pick(&[86_399i64, 86_399, 59, 0, 86_340, 43_259]);
            }
            let tc = match mk(rep, t) {
                Some(x) => x,
                None => continue,
            };
            let date = match guard(|| NaiveDate::from_num_days_from_ce_opt(day as i32)) {
                Ok(Some(d)) => d,
                _ => {
                    rep.harness_error(format!("c07: cannot build day {}", day));
                    continue;
                }
            };
            let dt = NaiveDateTime::new(date, tc);
            let near_end = day - min_day < 3 || max_day - day < 3;
            if near_end {
                loc.bucket(b_end);
            }
            // duration: catalogue entry for this time, distance to a range end, or random
            let dn = match rng.below(6) {
                0 | 1 => {
                    durations_for(t, &mut ds);
                    *rng.pick(&ds)
                }
                2 => {
                    // just reaching / just passing a range end
                    let p = t.secs as i128 * NS + t.frac as i128;
                    let to_end = if rng.chance(1, 2) {
                        (max_day - day + 1) as i128 * DAY_NS - p + if t.leap() { NS } else { 0 }
                    } else {
                        -((day - min_day) as i128 * DAY_NS + p)
                    };
                    (to_end + rng.range(-2, 2) as i128 + *rng.pick(&[0i128, 0, NS, -NS])).clamp(TD_MIN_NS, TD_MAX_NS)
                }
                _ => random_duration(&mut rng, t),
            };
            let d = match td_from_ns(dn) {
                Some(d) => d,
                None => continue,
            };
            for sub in [false, true] {
                let eff = if sub { -dn } else { dn };
                let (er, ec, class, _) = ref_add(t, eff);
                let eday = day as i128 + ec / 86_400;
                let exp: Option<(i64, RT)> = if eday >= min_day as i128 && eday <= max_day as i128 { Some((eday as i64, er)) } else { None };
                let entry = if sub { "NaiveDateTime::checked_sub_signed" } else { "NaiveDateTime::checked_add_signed" };
                let inp = || json!({"day": day, "time": t.json(), "duration": td_json(&d)});
                loc.eval();
                let got = match loc.call(entry, inp, || if sub { dt.checked_sub_signed(d) } else { dt.checked_add_signed(d) }) {
                    Some(g) => g,
                    None => continue,
                };
                if t.leap() {
                    loc.bucket(if exp.is_some() { b_some } else { b_none });
                    if ec > 0 {
                        loc.bucket(b_fwd);
                    } else if ec < 0 {
                        loc.bucket(b_back);
                    }
                    loc.nontrivial(h2(50 + sub as u64, h2(day as u64, h2(t.hash(), h2(dn as u64, (dn >> 64) as u64)))));
                }
                let got_r = got.map(|g| (g.date().num_days_from_ce() as i64, RT::of(&g.time())));
                if got_r != exp {
                    let kind = match (got_r, exp) {
                        (Some(_), None) => "some-for-out-of-range-result",
                        (None, Some(_)) => "none-for-in-range-result",
                        (Some((gd, gt)), Some((ed, et))) => {
                            if gt != et {
                                "wrong-time"
                            } else if gd != ed {
                                "wrong-date-carry"
                            } else {
                                "impossible"
                            }
                        }
                        _ => "impossible",
                    };
                    loc.violation(
                        &format!("C07/{}/{}/{}", entry, class.name(), kind),
                        json!({"day": day, "time": t.json(), "duration_ns": dn.to_string(), "expected": exp.map(|(d, t)| json!({"day": d, "time": t.json()})), "observed": got_r.map(|(d, t)| json!({"day": d, "time": t.json()}))}),
                    );
                } else if let Some(g) = got {
                    // operator forms are documented to panic only on overflow: compare when Some
                    if i % 4 == 0 {
                        loc.eval();
                        let op = loc.call(if sub { "NaiveDateTime-TimeDelta" } else { "NaiveDateTime+TimeDelta" }, inp, || if sub { dt - d } else { dt + d });
                        if let Some(op) = op {
                            if op != g {
                                loc.violation(&format!("C07/{}/operator-differs-from-checked-form", if sub { "NaiveDateTime-TimeDelta" } else { "NaiveDateTime+TimeDelta" }), json!({"day": day, "time": t.json(), "duration_ns": dn.to_string()}));
                            }
                        }
                        // the assigning forms and the std::time::Duration forms are the same operation
                        let mut family: Vec<(&'static str, NaiveDateTime)> = Vec::new();
                        if let Some(v) = loc.call(if sub { "NaiveDateTime-=TimeDelta" } else { "NaiveDateTime+=TimeDelta" }, inp, || {
                            let mut x = dt;
                            if sub {
                                x -= d
                            } else {
                                x += d
                            }
                            x
                        }) {
                            family.push((if sub { "NaiveDateTime-=TimeDelta" } else { "NaiveDateTime+=TimeDelta" }, v));
                        }
                        if let Ok(sd) = d.to_std() {
                            if let Some(v) = loc.call(if sub { "NaiveDateTime-std::Duration" } else { "NaiveDateTime+std::Duration" }, inp, || if sub { dt - sd } else { dt + sd }) {
                                family.push((if sub { "NaiveDateTime-std::Duration" } else { "NaiveDateTime+std::Duration" }, v));
                            }
                            if let Some(v) = loc.call(if sub { "NaiveDateTime-=std::Duration" } else { "NaiveDateTime+=std::Duration" }, inp, || {
                                let mut x = dt;
                                if sub {
                                    x -= sd
                                } else {
                                    x += sd
                                }
                                x
                            }) {
                                family.push((if sub { "NaiveDateTime-=std::Duration" } else { "NaiveDateTime+=std::Duration" }, v));
                            }
                        }
                        for (name, v) in family {
                            if v != g {
                                loc.violation(&format!("C07/{}/operator-differs-from-checked-form", name), json!({"day": day, "time": t.json(), "duration_ns": dn.to_string()}));
                            }
                        }
                    }
                }
            }
            // differences of date-times: same date => the time rule; any dates => antisymmetry
            if i % 2 == 0 {
                let t2 = random_time(&mut rng);
                if let Some(t2c) = mk(rep, t2) {
                    let same = rng.chance(1, 2);
                    let day2 = if same { day } else { (day + rng.range(-2, 2)).clamp(min_day, max_day) };
                    if let Ok(Some(date2)) = guard(|| NaiveDate::from_num_days_from_ce_opt(day2 as i32)) {
                        let dt2 = NaiveDateTime::new(date2, t2c);
                        let inp = || json!({"lhs": {"day": day, "time": t.json()}, "rhs": {"day": day2, "time": t2.json()}});
                        loc.evals(2);
                        let ab = loc.call("NaiveDateTime::signed_duration_since", inp, || dt.signed_duration_since(dt2));
                        let ba = loc.call("NaiveDateTime::signed_duration_since", inp, || dt2.signed_duration_since(dt));
                        if let (Some(ab), Some(ba)) = (ab, ba) {
                            if t.leap() || t2.leap() {
                                loc.bucket(b_diff);
                                loc.nontrivial(h2(52, h2(h2(day as u64, t.hash()), h2(day2 as u64, t2.hash()))));
                            }
                            if td_ns(&ab) != -td_ns(&ba) {
                                loc.violation("C07/NaiveDateTime::signed_duration_since/not-antisymmetric", json!({"a": {"day": day, "time": t.json()}, "b": {"day": day2, "time": t2.json()}, "a-b_ns": td_ns(&ab).to_string(), "b-a_ns": td_ns(&ba).to_string()}));
                            }
                            if day2 == day && td_ns(&ab) != ref_diff(t, t2) {
                                loc.violation("C07/NaiveDateTime::signed_duration_since/same-date/wrong-difference", json!({"day": day, "lhs": t.json(), "rhs": t2.json(), "expected_ns": ref_diff(t, t2).to_string(), "observed_ns": td_ns(&ab).to_string()}));
                            }
                        }
                    }
                }
            }
        }
    });
}

// ------------------------------------------------------------------------------------------------
// Phase 6: offset shifts keep the leap fraction
// ------------------------------------------------------------------------------------------------

fn offsets(ctx: &Ctx, rep: &Report) {
    let (b_keep, b_carry, b_dt) = (bi("offset_keeps_leap"), bi("offset_day_carry"), bi("offset_datetime_time_leap"));
    let ocat = gen::catalogue_offsets();
    let dcat = gen::catalogue_days();
    let total = ctx.n(1_000_000, 10_000_000);
    let n_shards = 32usize;
    let (min_day, max_day) = (rc::min_day(), rc::max_day());
    par_shards(rep, ctx.threads, n_shards, |shard| {
        let mut rng = Rng::new(ctx.seed, "C07/offsets", shard as u64);
        let mut loc = rep.local();
        for _ in 0..total / n_shards as u64 {
            let t = random_time(&mut rng);
            let tc = match mk(rep, t) {
                Some(x) => x,
                None => continue,
            };
            let o = gen::random_offset(&mut rng, &ocat);
            let off = match guard(|| FixedOffset::east_opt(o as i32)) {
                Ok(Some(x)) => x,
                _ => {
                    rep.harness_error(format!("c07: FixedOffset::east_opt({}) failed", o));
                    continue;
                }
            };
            let shift = |sign: i64| -> (RT, i64) {
                let s = t.secs + sign * o;
                (RT { secs: s.rem_euclid(86_400), frac: t.frac }, s.div_euclid(86_400))
            };
            let (ea, da) = shift(1);
            let (es, dsub) = shift(-1);
            if t.leap() {
                loc.bucket(b_keep);
                loc.nontrivial(h2(60, h2(t.hash(), o as u64)));
            }
            if da != 0 || dsub != 0 {
                loc.bucket(b_carry);
            }
            let inp = || json!({"time": t.json(), "offset_secs": o});
            let opclass = if t.leap() { "leap-operand" } else { "nonleap-operand" };
            loc.evals(2);
            if let Some(g) = loc.call("NaiveTime+FixedOffset", inp, || tc + off) {
                if RT::of(&g) != ea {
                    loc.violation(&format!("C07/NaiveTime+FixedOffset/{}/wrong-time", opclass), json!({"time": t.json(), "offset_secs": o, "expected": ea.json(), "observed": RT::of(&g).json()}));
                }
            }
            if let Some(g) = loc.call("NaiveTime-FixedOffset", inp, || tc - off) {
                if RT::of(&g) != es {
                    loc.violation(&format!("C07/NaiveTime-FixedOffset/{}/wrong-time", opclass), json!({"time": t.json(), "offset_secs": o, "expected": es.json(), "observed": RT::of(&g).json()}));
                }
            }
            // date-time forms
            let day = match rng.below(8) {
                0 => min_day + rng.range(0, 1),
                1 => max_day - rng.range(0, 1),
                _ => gen::random_day(&mut rng, &dcat),
            };
            let date = match guard(|| NaiveDate::from_num_days_from_ce_opt(day as i32)) {
                Ok(Some(d)) => d,
                _ => continue,
            };
            let dt = NaiveDateTime::new(date, tc);
            for (sub, et, ed) in [(false, ea, da), (true, es, dsub)] {
                let entry = if sub { "NaiveDateTime::checked_sub_offset" } else { "NaiveDateTime::checked_add_offset" };
                let eday = day + ed;
                let exp = if eday >= min_day && eday <= max_day { Some((eday, et)) } else { None };
                loc.eval();
                if let Some(g) = loc.call(entry, || json!({"day": day, "time": t.json(), "offset_secs": o}), || if sub { dt.checked_sub_offset(off) } else { dt.checked_add_offset(off) }) {
                    let got = g.map(|g| (g.date().num_days_from_ce() as i64, RT::of(&g.time())));
                    if got != exp {
                        loc.violation(
                            &format!("C07/{}/{}/wrong-result", entry, opclass),
                            json!({"day": day, "time": t.json(), "offset_secs": o, "expected": exp.map(|(d, t)| json!({"day": d, "time": t.json()})), "observed": got.map(|(d, t)| json!({"day": d, "time": t.json()}))}),
                        );
                    }
                }
            }
            // DateTime<FixedOffset>::time() and its Timelike accessors keep the leap fraction
            if day - min_day > 2 && max_day - day > 2 {
                loc.eval();
                let r = loc.call("DateTime<FixedOffset>::time", || json!({"day": day, "time": t.json(), "offset_secs": o}), || {
                    let z = off.from_utc_datetime(&dt);
                    (z.time(), z.hour(), z.minute(), z.second(), z.nanosecond(), z.naive_local().time(), z.naive_utc().time())
                });
                if let Some((zt, h, m, s, n, lt, ut)) = r {
                    if t.leap() {
                        loc.bucket(b_dt);
                    }
                    let ok = RT::of(&zt) == ea
                        && RT::of(&lt) == ea
                        && RT::of(&ut) == t
                        && h as i64 == ea.secs / 3600
                        && m as i64 == ea.secs / 60 % 60
                        && s as i64 == ea.secs % 60
                        && n as i64 == ea.frac;
                    if !ok {
                        loc.violation(
                            &format!("C07/DateTime<FixedOffset>::time/{}/wrong-local-time", opclass),
                            json!({"day": day, "utc_time": t.json(), "offset_secs": o, "expected": ea.json(), "observed": {"time": RT::of(&zt).json(), "hmsn": [h, m, s, n], "naive_local": RT::of(&lt).json(), "naive_utc": RT::of(&ut).json()}}),
                        );
                    }
                }
            }
        }
    });
}
