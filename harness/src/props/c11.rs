//! C11 — RFC 2822 output round-trips and obsolete forms are read as specified.
//!
//! Writer oracle: for wall-clock years 0..=9999 and whole-minute offsets the text of
//! `DateTime::to_rfc2822` (and of the `Fixed::RFC2822` item) equals `Www, D Mon YYYY HH:MM:SS +HHMM`
//! built from R-cal, and parses back to the same offset and instant (whole seconds, leap kept).
//! Reader oracle: strings generated from the RFC 2822 date-time grammar (current + obsolete forms
//! the property lists) with the denoted value known by construction must be accepted with exactly
//! that value; the same strings with a contradicting weekday must be rejected. Forms the RFC allows
//! but the property does not list, single-edit mutations and arbitrary text: "returns normally",
//! "if accepted, the value is the one an independent lenient reference reader denotes", and "a
//! string whose only fault is a contradicting weekday is rejected".

use crate::gen;
use crate::mon::{guard, h2, hstr, par_shards, Ctx, Local, Outcome, Report};
use crate::refcal as rc;
use crate::refinst::{self as ri, RDt};
use crate::rng::Rng;
use chrono::format::{Fixed, Item, Parsed};
use chrono::{DateTime, FixedOffset, Utc};
use serde_json::{json, Value};
use std::fmt::Write as _;

const B: &[&str] = &[
    // writer
    "w_year0", "w_year9999", "w_year_lt1000", "w_day_1digit", "w_day_2digit", "w_leap_second", "w_frac_nonzero",
    "w_offset_negative", "w_offset_zero", "w_offset_positive", "w_offset_extreme", "w_first_second_of_domain",
    "w_last_second_of_domain", "w_utc_outside_0_9999", "w_item_route", "w_utc_type",
    "w_wd_mon", "w_wd_tue", "w_wd_wed", "w_wd_thu", "w_wd_fri", "w_wd_sat", "w_wd_sun",
    "w_mon_1", "w_mon_2", "w_mon_3", "w_mon_4", "w_mon_5", "w_mon_6", "w_mon_7", "w_mon_8", "w_mon_9", "w_mon_10",
    "w_mon_11", "w_mon_12",
    // reader, required forms
    "r_weekday_present", "r_weekday_absent", "r_weekday_case", "r_day_1digit", "r_day_zero_padded", "r_day_2digit",
    "r_month_case", "r_year_2digit_00_49", "r_year_2digit_50_99", "r_year_49", "r_year_50", "r_year_3digit",
    "r_year_4digit", "r_year_4digit_lt1000", "r_year_5plus_digits", "r_seconds_present", "r_seconds_absent",
    "r_second_60", "r_zone_numeric_pos", "r_zone_numeric_neg", "r_zone_numeric_zero", "r_zone_minus0000",
    "r_zone_UT", "r_zone_GMT", "r_zone_EST", "r_zone_EDT", "r_zone_CST", "r_zone_CDT", "r_zone_MST", "r_zone_MDT",
    "r_zone_PST", "r_zone_PDT", "r_zone_name_case", "r_zone_military", "r_zone_military_Z", "r_comment_none",
    "r_comment_one", "r_comment_multi", "r_comment_nested", "r_comment_escaped_paren", "r_comment_escaped_backslash",
    "r_comment_after_ws", "r_ws_run_multi", "r_ws_htab", "r_ws_crlf", "r_canonical_form", "r_item_route",
    "r_contradicting_weekday", "r_systematic_years", "r_systematic_zones", "r_weekday_window_exhaustive",
    // RFC-valid forms the property does not list (no acceptance claim)
    "x_leading_ws", "x_ws_around_colon", "x_trailing_ws", "x_comment_between_tokens", "x_no_space_after_comma",
    "x_ws_before_comma", "x_nonascii_comment", "x_accepted", "x_rejected",
    // mutations / arbitrary text
    "m_mutated", "m_both_accept", "m_both_reject", "m_chrono_only", "m_reference_only", "m_reference_weekday_contradiction",
    "a_token_soup", "a_unicode", "a_accepted",
];
const FLOOR: &[&str] = &[
    "w_year0", "w_year9999", "w_year_lt1000", "w_day_1digit", "w_day_2digit", "w_leap_second", "w_frac_nonzero",
    "w_offset_negative", "w_offset_zero", "w_offset_positive", "w_offset_extreme", "w_first_second_of_domain",
    "w_last_second_of_domain", "w_utc_outside_0_9999", "w_item_route", "w_utc_type",
    "w_wd_mon", "w_wd_tue", "w_wd_wed", "w_wd_thu", "w_wd_fri", "w_wd_sat", "w_wd_sun",
    "w_mon_1", "w_mon_2", "w_mon_3", "w_mon_4", "w_mon_5", "w_mon_6", "w_mon_7", "w_mon_8", "w_mon_9", "w_mon_10",
    "w_mon_11", "w_mon_12",
    "r_weekday_present", "r_weekday_absent", "r_weekday_case", "r_day_1digit", "r_day_zero_padded", "r_day_2digit",
    "r_month_case", "r_year_2digit_00_49", "r_year_2digit_50_99", "r_year_49", "r_year_50", "r_year_3digit",
    "r_year_4digit", "r_year_4digit_lt1000", "r_year_5plus_digits", "r_seconds_present", "r_seconds_absent",
    "r_second_60", "r_zone_numeric_pos", "r_zone_numeric_neg", "r_zone_numeric_zero", "r_zone_minus0000",
    "r_zone_UT", "r_zone_GMT", "r_zone_EST", "r_zone_EDT", "r_zone_CST", "r_zone_CDT", "r_zone_MST", "r_zone_MDT",
    "r_zone_PST", "r_zone_PDT", "r_zone_name_case", "r_zone_military", "r_zone_military_Z", "r_comment_none",
    "r_comment_one", "r_comment_multi", "r_comment_nested", "r_comment_escaped_paren", "r_comment_escaped_backslash",
    "r_comment_after_ws", "r_ws_run_multi", "r_ws_htab", "r_ws_crlf", "r_canonical_form", "r_item_route",
    "r_contradicting_weekday", "r_systematic_years", "r_systematic_zones", "r_weekday_window_exhaustive",
    "x_leading_ws", "x_ws_around_colon", "x_trailing_ws", "x_comment_between_tokens", "x_no_space_after_comma",
    "m_mutated", "m_both_accept", "m_both_reject", "a_token_soup", "a_unicode",
];

/// Bucket indices resolved once per shard.
struct Ids {
    m: std::collections::HashMap<&'static str, usize>,
}
impl Ids {
    fn new() -> Ids {
        Ids { m: B.iter().enumerate().map(|(i, n)| (*n, i)).collect() }
    }
    #[inline]
    fn g(&self, n: &str) -> usize {
        *self.m.get(n).unwrap_or_else(|| panic!("C11: unknown bucket {}", n))
    }
}

const WD: [&str; 7] = ["Mon", "Tue", "Wed", "Thu", "Fri", "Sat", "Sun"];
const WD_B: [&str; 7] = ["w_wd_mon", "w_wd_tue", "w_wd_wed", "w_wd_thu", "w_wd_fri", "w_wd_sat", "w_wd_sun"];
const MON: [&str; 12] = ["Jan", "Feb", "Mar", "Apr", "May", "Jun", "Jul", "Aug", "Sep", "Oct", "Nov", "Dec"];
const MON_B: [&str; 12] = [
    "w_mon_1", "w_mon_2", "w_mon_3", "w_mon_4", "w_mon_5", "w_mon_6", "w_mon_7", "w_mon_8", "w_mon_9", "w_mon_10",
    "w_mon_11", "w_mon_12",
];
/// RFC 2822 §4.3 zone names and their offsets in hours.
const ZONES: [(&str, i64); 10] = [
    ("UT", 0), ("GMT", 0), ("EST", -5), ("EDT", -4), ("CST", -6), ("CDT", -5), ("MST", -7), ("MDT", -6), ("PST", -8),
    ("PDT", -7),
];
const ZONE_B: [&str; 10] = [
    "r_zone_UT", "r_zone_GMT", "r_zone_EST", "r_zone_EDT", "r_zone_CST", "r_zone_CDT", "r_zone_MST", "r_zone_MDT",
    "r_zone_PST", "r_zone_PDT",
];

// ------------------------------------------------------------------------------------------------
// Denoted values
// ------------------------------------------------------------------------------------------------

/// What a string denotes: wall-clock day, second of day (second 59 of its minute if `leap`), offset.
#[derive(Clone, Copy, Debug, PartialEq, Eq)]
struct Den {
    day: i64,
    secs: i64,
    leap: bool,
    off: i64,
}

impl Den {
    fn wall(&self) -> RDt {
        RDt::new(self.day, self.secs, if self.leap { 1_000_000_000 } else { 0 })
    }
    fn utc(&self) -> RDt {
        let mut r = RDt::from_ns(RDt::new(self.day, self.secs, 0).ns() - self.off as i128 * ri::NS);
        if self.leap {
            r.frac += 1_000_000_000;
        }
        r
    }
    fn unix(&self) -> i64 {
        (self.day - rc::UNIX_EPOCH_DAY) * 86_400 + self.secs - self.off
    }
    fn json(&self) -> Value {
        let (y, m, d) = rc::civil_from_days(self.day);
        json!({"wall_ymd": [y, m, d], "wall_second_of_day": self.secs, "leap_second": self.leap, "offset_s": self.off, "unix": self.unix()})
    }
}

/// A parsed chrono value read through accessors.
#[derive(Clone, Copy, Debug, PartialEq, Eq)]
struct Obs {
    wall: RDt,
    utc: RDt,
    off: i64,
    ts: i64,
}

fn observe(dt: &DateTime<FixedOffset>) -> Obs {
    Obs {
        wall: RDt::of(&dt.naive_local()),
        utc: RDt::of(&dt.naive_utc()),
        off: dt.offset().local_minus_utc() as i64,
        ts: dt.timestamp(),
    }
}

fn obs_json(o: &Obs) -> Value {
    json!({"wall": [o.wall.day, o.wall.secs, o.wall.frac], "wall_ymd": o.wall.ymd(), "utc": [o.utc.day, o.utc.secs, o.utc.frac], "offset_s": o.off, "unix": o.ts})
}

/// None if the observation is exactly the denoted value, else the kind of difference.
fn differs(o: &Obs, d: &Den) -> Option<&'static str> {
    if o.off != d.off {
        return Some("wrong-offset");
    }
    let w = d.wall();
    if o.wall != w {
        if o.wall.day == w.day && o.wall.secs == w.secs {
            return Some("leap-second-not-preserved");
        }
        return Some("wrong-wall-clock");
    }
    if o.utc != d.utc() || o.ts != d.unix() {
        return Some("wrong-instant");
    }
    None
}

// ------------------------------------------------------------------------------------------------
// Reference writer
// ------------------------------------------------------------------------------------------------

/// `Www, D Mon YYYY HH:MM:SS +HHMM` from R-cal (wall year 0..=9999, whole-minute offset).
fn ref_render(d: &Den) -> String {
    let (y, m, dd) = rc::civil_from_days(d.day);
    let wd = rc::weekday(d.day) as usize;
    let (h, mi, s) = (d.secs / 3600, d.secs / 60 % 60, d.secs % 60 + if d.leap { 1 } else { 0 });
    let sign = if d.off < 0 { '-' } else { '+' };
    let a = d.off.abs();
    format!(
        "{}, {} {} {:04} {:02}:{:02}:{:02} {}{:02}{:02}",
        WD[wd], dd, MON[(m - 1) as usize], y, h, mi, s, sign, a / 3600, a / 60 % 60
    )
}

// ------------------------------------------------------------------------------------------------
// Lenient reference reader (RFC 2822 §3.3 + §4.3, CFWS allowed between all tokens)
// ------------------------------------------------------------------------------------------------

#[derive(Clone, Copy, Debug, PartialEq, Eq)]
enum Ref {
    /// in the grammar, denotes this value
    Ok(Den),
    /// in the grammar and all fields valid, but the weekday contradicts the date
    WeekdayContradicts,
    /// not in the (lenient) grammar, a field out of range, or denotation not unambiguous
    No,
}

struct Cur<'a> {
    c: &'a [char],
    p: usize,
}

impl Cur<'_> {
    fn peek(&self) -> Option<char> {
        self.c.get(self.p).copied()
    }
    fn next(&mut self) -> Option<char> {
        let r = self.peek();
        if r.is_some() {
            self.p += 1;
        }
        r
    }
    /// at '(' : consume one comment with nesting and quoted-pairs
    fn comment(&mut self) -> Result<(), ()> {
        let mut depth = 0usize;
        loop {
            match self.next().ok_or(())? {
                '(' => depth += 1,
                ')' => {
                    depth -= 1;
                    if depth == 0 {
                        return Ok(());
                    }
                }
                '\\' => {
                    self.next().ok_or(())?;
                }
                _ => {}
            }
        }
    }
    /// CFWS: white space and comments; Ok(true) if anything was consumed
    fn gap(&mut self) -> Result<bool, ()> {
        let start = self.p;
        loop {
            match self.peek() {
                Some(ch) if ch.is_whitespace() => self.p += 1,
                Some('(') => self.comment()?,
                _ => break,
            }
        }
        Ok(self.p > start)
    }
    /// greedy run of ASCII digits: (value, length); value saturates (length decides validity)
    fn digits(&mut self) -> (i64, usize) {
        let mut v = 0i64;
        let mut n = 0usize;
        while let Some(ch) = self.peek() {
            if !ch.is_ascii_digit() {
                break;
            }
            v = v.saturating_mul(10).saturating_add(ch as i64 - '0' as i64);
            n += 1;
            self.p += 1;
        }
        (v, n)
    }
    /// greedy run of ASCII letters, upper-cased
    fn letters(&mut self) -> String {
        let mut s = String::new();
        while let Some(ch) = self.peek() {
            if !ch.is_ascii_alphabetic() {
                break;
            }
            s.push(ch.to_ascii_uppercase());
            self.p += 1;
        }
        s
    }
}

fn ref_read(s: &str) -> Ref {
    let chars: Vec<char> = s.chars().collect();
    let mut c = Cur { c: &chars, p: 0 };
    match ref_read_inner(&mut c) {
        Some(r) => r,
        None => Ref::No,
    }
}

fn ref_read_inner(c: &mut Cur) -> Option<Ref> {
    c.gap().ok()?;
    let mut weekday: Option<i64> = None;
    if c.peek()?.is_ascii_alphabetic() {
        let name = c.letters();
        let i = WD.iter().position(|w| w.to_ascii_uppercase() == name)?;
        weekday = Some(i as i64);
        c.gap().ok()?;
        if c.next()? != ',' {
            return None;
        }
        c.gap().ok()?;
    }
    let (day, n) = c.digits();
    if !(1..=2).contains(&n) {
        return None;
    }
    if !c.gap().ok()? {
        return None;
    }
    let name = c.letters();
    let month = MON.iter().position(|m| m.to_ascii_uppercase() == name)? as i64 + 1;
    if !c.gap().ok()? {
        return None;
    }
    let (mut year, n) = c.digits();
    if !(2..=18).contains(&n) {
        return None;
    }
    if n == 2 {
        year += if year < 50 { 2000 } else { 1900 };
    } else if n == 3 {
        year += 1900;
    }
    if !c.gap().ok()? {
        return None;
    }
    let (hour, n) = c.digits();
    if n != 2 {
        return None;
    }
    c.gap().ok()?;
    if c.next()? != ':' {
        return None;
    }
    c.gap().ok()?;
    let (minute, n) = c.digits();
    if n != 2 {
        return None;
    }
    let mut gap_before_zone = c.gap().ok()?;
    let mut second = 0i64;
    if c.peek() == Some(':') {
        c.p += 1;
        c.gap().ok()?;
        let (sec, n) = c.digits();
        if n != 2 {
            return None;
        }
        second = sec;
        gap_before_zone = c.gap().ok()?;
    }
    if !gap_before_zone {
        return None;
    }
    let off = match c.peek()? {
        sign @ ('+' | '-') => {
            c.p += 1;
            let (v, n) = c.digits();
            if n != 4 || v % 100 > 59 {
                return None;
            }
            let o = (v / 100) * 3600 + (v % 100) * 60;
            if o >= 86_400 {
                return None;
            }
            if sign == '-' {
                -o
            } else {
                o
            }
        }
        ch if ch.is_ascii_alphabetic() => {
            let name = c.letters();
            if let Some((_, h)) = ZONES.iter().find(|(z, _)| *z == name) {
                h * 3600
            } else if name.len() == 1 && name != "J" {
                0
            } else {
                return None;
            }
        }
        _ => return None,
    };
    c.gap().ok()?;
    if c.p != c.c.len() {
        return None;
    }
    if year > rc::MAX_YEAR || !rc::valid_ymd(year, month, day) || hour > 23 || minute > 59 || second > 60 {
        return None;
    }
    let dn = rc::day_number(year, month, day);
    if let Some(w) = weekday {
        if w != rc::weekday(dn) {
            return Some(Ref::WeekdayContradicts);
        }
    }
    let leap = second == 60;
    Some(Ref::Ok(Den { day: dn, secs: hour * 3600 + minute * 60 + second.min(59), leap, off }))
}

fn self_test() -> Result<(), String> {
    let den = |y, m, d, h: i64, mi: i64, s: i64, off: i64| Den { day: rc::day_number(y, m, d), secs: h * 3600 + mi * 60 + s, leap: false, off };
    let cases: Vec<(&str, Ref)> = vec![
        ("Fri, 21 Nov 1997 09:55:06 -0600", Ref::Ok(den(1997, 11, 21, 9, 55, 6, -21600))),
        ("Tue, 1 Jul 2003 10:52:37 +0200", Ref::Ok(den(2003, 7, 1, 10, 52, 37, 7200))),
        ("Thu, 13 Feb 1969 23:32 -0330 (Newfoundland Time)", Ref::Ok(den(1969, 2, 13, 23, 32, 0, -12600))),
        (
            "Thu,\r\n      13\r\n        Feb\r\n          1969\r\n      23:32\r\n               -0330 (Newfoundland Time)",
            Ref::Ok(den(1969, 2, 13, 23, 32, 0, -12600)),
        ),
        ("21 Nov 97 09:55:06 GMT", Ref::Ok(den(1997, 11, 21, 9, 55, 6, 0))),
        ("Fri, 21 Nov 1997 09(comment):   55  :  06 -0600", Ref::Ok(den(1997, 11, 21, 9, 55, 6, -21600))),
        ("Mon, 21 Nov 1997 09:55:06 -0600", Ref::WeekdayContradicts),
        ("1 Jan 49 00:00 pdt", Ref::Ok(den(2049, 1, 1, 0, 0, 0, -25200))),
        ("1 Jan 50 00:00 K", Ref::Ok(den(1950, 1, 1, 0, 0, 0, 0))),
        ("1 Jan 112 00:00 z (a\\)(b(c)))", Ref::Ok(den(2012, 1, 1, 0, 0, 0, 0))),
        ("1 Jan 2000 00:00 J", Ref::No),
        ("1 Jan 2000 00:00 +0000 (", Ref::No),
        ("31 Apr 2000 00:00 +0000", Ref::No),
        ("1 Jan 2000 00:00+0000", Ref::No),
    ];
    for (s, want) in cases {
        let got = ref_read(s);
        if got != want {
            return Err(format!("C11 reference reader self-test: {:?} -> {:?}, want {:?}", s, got, want));
        }
    }
    let leap = Den { day: rc::day_number(2016, 12, 31), secs: 86_399, leap: true, off: 0 };
    if ref_read("Sat, 31 Dec 2016 23:59:60 +0000") != Ref::Ok(leap) {
        return Err("C11 reference reader self-test: leap second".into());
    }
    if ref_render(&den(2003, 7, 1, 10, 52, 37, 7200)) != "Tue, 1 Jul 2003 10:52:37 +0200"
        || ref_render(&leap) != "Sat, 31 Dec 2016 23:59:60 +0000"
        || ref_render(&den(99, 12, 25, 0, 0, 0, -34_200)) != "Fri, 25 Dec 0099 00:00:00 -0930"
    {
        return Err("C11 reference writer self-test".into());
    }
    if leap.utc() != RDt::new(leap.day, 86_399, 1_000_000_000) || den(1970, 1, 1, 1, 0, 0, 3600).unix() != 0 {
        return Err("C11 denoted-value self-test".into());
    }
    Ok(())
}

// ------------------------------------------------------------------------------------------------
// Grammar generator: a Spec is the denoted value + every style choice; rendering is a pure function
// ------------------------------------------------------------------------------------------------

#[derive(Clone, Copy, Debug, PartialEq, Eq)]
enum WdStyle {
    Absent,
    Right,
    /// weekday shifted by 1..=6 days: contradicts the date
    Wrong(i64),
}

#[derive(Clone, Copy, Debug, PartialEq, Eq)]
enum YStyle {
    Two,
    Three,
    Four,
    /// zero-padded to this width (>= 5)
    Long(usize),
}

#[derive(Clone, Copy, Debug, PartialEq, Eq)]
enum Zone {
    Numeric,
    MinusZero,
    Name(usize, u8),
    Mil(char),
}

#[derive(Clone, Debug)]
struct Spec {
    y: i64,
    m: i64,
    d: i64,
    hh: i64,
    mi: i64,
    /// 0..=60
    ss: i64,
    off: i64,
    wd: WdStyle,
    wd_mask: u8,
    day_pad: bool,
    mon_mask: u8,
    ystyle: YStyle,
    secs_present: bool,
    zone: Zone,
    /// white-space runs where the canonical form has one space: after the comma, after the day,
    /// after the month, after the year, before the zone
    ws: [String; 5],
    /// trailing comments: (white space before it, comment text)
    comments: Vec<(String, String)>,
    // ---- forms the RFC allows but the property does not list ----
    x_lead: String,
    x_colon: [String; 4],
    x_trail: String,
    x_mid: Option<(usize, String)>,
    x_nospace_comma: bool,
    x_ws_before_comma: String,
}

fn cased(name: &str, mask: u8) -> String {
    name.chars()
        .enumerate()
        .map(|(i, c)| {
            if i < 8 && mask >> i & 1 == 1 {
                if c.is_ascii_uppercase() {
                    c.to_ascii_lowercase()
                } else {
                    c.to_ascii_uppercase()
                }
            } else {
                c
            }
        })
        .collect()
}

impl Spec {
    fn canonical(y: i64, m: i64, d: i64, hh: i64, mi: i64, ss: i64, off: i64) -> Spec {
        let sp = || " ".to_string();
        Spec {
            y, m, d, hh, mi, ss, off,
            wd: WdStyle::Right,
            wd_mask: 0,
            day_pad: false,
            mon_mask: 0,
            ystyle: if (0..=9999).contains(&y) { YStyle::Four } else { YStyle::Long(5) },
            secs_present: true,
            zone: Zone::Numeric,
            ws: [sp(), sp(), sp(), sp(), sp()],
            comments: Vec::new(),
            x_lead: String::new(),
            x_colon: [String::new(), String::new(), String::new(), String::new()],
            x_trail: String::new(),
            x_mid: None,
            x_nospace_comma: false,
            x_ws_before_comma: String::new(),
        }
    }

    fn den(&self) -> Den {
        Den { day: rc::day_number(self.y, self.m, self.d), secs: self.hh * 3600 + self.mi * 60 + self.ss.min(59), leap: self.ss == 60, off: self.off }
    }

    fn has_extras(&self) -> bool {
        !self.x_lead.is_empty()
            || self.x_colon.iter().any(|s| !s.is_empty())
            || !self.x_trail.is_empty()
            || self.x_mid.is_some()
            || self.x_nospace_comma
            || !self.x_ws_before_comma.is_empty()
    }

    fn render(&self) -> String {
        let mut o = String::with_capacity(64);
        o.push_str(&self.x_lead);
        let gap = |o: &mut String, k: usize| {
            o.push_str(&self.ws[k]);
            if let Some((slot, c)) = &self.x_mid {
                if *slot == k {
                    o.push_str(c);
                    o.push(' ');
                }
            }
        };
        match self.wd {
            WdStyle::Absent => {}
            WdStyle::Right | WdStyle::Wrong(_) => {
                let shift = if let WdStyle::Wrong(k) = self.wd { k } else { 0 };
                let w = (rc::weekday(rc::day_number(self.y, self.m, self.d)) + shift).rem_euclid(7);
                o.push_str(&cased(WD[w as usize], self.wd_mask));
                o.push_str(&self.x_ws_before_comma);
                o.push(',');
                if !self.x_nospace_comma {
                    gap(&mut o, 0);
                }
            }
        }
        if self.day_pad {
            let _ = write!(o, "{:02}", self.d);
        } else {
            let _ = write!(o, "{}", self.d);
        }
        gap(&mut o, 1);
        o.push_str(&cased(MON[(self.m - 1) as usize], self.mon_mask));
        gap(&mut o, 2);
        match self.ystyle {
            YStyle::Two => {
                let _ = write!(o, "{:02}", self.y % 100);
            }
            YStyle::Three => {
                let _ = write!(o, "{:03}", self.y - 1900);
            }
            YStyle::Four => {
                let _ = write!(o, "{:04}", self.y);
            }
            YStyle::Long(w) => {
                let _ = write!(o, "{:0w$}", self.y, w = w);
            }
        }
        gap(&mut o, 3);
        let _ = write!(o, "{:02}{}:{}{:02}", self.hh, self.x_colon[0], self.x_colon[1], self.mi);
        if self.secs_present {
            let _ = write!(o, "{}:{}{:02}", self.x_colon[2], self.x_colon[3], self.ss);
        }
        gap(&mut o, 4);
        match self.zone {
            Zone::Numeric => {
                let a = self.off.abs();
                let _ = write!(o, "{}{:02}{:02}", if self.off < 0 { '-' } else { '+' }, a / 3600, a / 60 % 60);
            }
            Zone::MinusZero => o.push_str("-0000"),
            Zone::Name(i, mask) => o.push_str(&cased(ZONES[i].0, mask)),
            Zone::Mil(c) => o.push(c),
        }
        for (w, c) in &self.comments {
            o.push_str(w);
            o.push_str(c);
        }
        o.push_str(&self.x_trail);
        o
    }

    /// is the spec internally consistent (harness self-check)
    fn consistent(&self) -> bool {
        let year_ok = match self.ystyle {
            YStyle::Two => (1950..=2049).contains(&self.y),
            YStyle::Three => (1900..=2899).contains(&self.y),
            YStyle::Four => (0..=9999).contains(&self.y),
            YStyle::Long(w) => w >= 5 && self.y >= 0 && self.y < 262_142,
        };
        let zone_ok = match self.zone {
            Zone::Numeric => self.off % 60 == 0 && self.off.abs() < 86_400,
            Zone::MinusZero | Zone::Mil(_) => self.off == 0,
            Zone::Name(i, _) => self.off == ZONES[i].1 * 3600,
        };
        year_ok
            && zone_ok
            && rc::valid_ymd(self.y, self.m, self.d)
            && (0..24).contains(&self.hh)
            && (0..60).contains(&self.mi)
            && (0..=60).contains(&self.ss)
            && (self.secs_present || self.ss == 0)
    }
}

/// FWS run of 1..=4 atoms out of SP, HTAB, CRLF SP, CRLF HTAB (at most one CRLF).
fn gen_ws(rng: &mut Rng) -> String {
    if rng.chance(1, 2) {
        return " ".into();
    }
    let n = 1 + rng.below(4);
    let mut s = String::new();
    let mut crlf = false;
    for _ in 0..n {
        match rng.below(6) {
            0..=2 => s.push(' '),
            3 => s.push('\t'),
            _ => {
                if crlf {
                    s.push(' ');
                } else {
                    crlf = true;
                    s.push_str(if rng.chance(1, 2) { "\r\n " } else { "\r\n\t" });
                }
            }
        }
    }
    s
}

/// ctext: printable ASCII except '(' ')' '\\'
fn gen_ctext_char(rng: &mut Rng) -> char {
    loop {
        let c = (33 + rng.below(94)) as u8 as char;
        if c != '(' && c != ')' && c != '\\' {
            return c;
        }
    }
}

/// comment = "(" *([FWS] ccontent) [FWS] ")", ccontent = ctext / quoted-pair / comment
fn gen_comment(rng: &mut Rng, depth: u32, nonascii: bool) -> String {
    let mut s = String::from("(");
    let n = rng.below(6);
    for _ in 0..n {
        match rng.below(10) {
            0..=3 => {
                for _ in 0..1 + rng.below(5) {
                    s.push(gen_ctext_char(rng));
                }
            }
            4 => s.push(if rng.chance(3, 4) { ' ' } else { '\t' }),
            5..=7 => {
                s.push('\\');
                s.push(match rng.below(8) {
                    0 | 1 => '(',
                    2 | 3 => ')',
                    4 | 5 => '\\',
                    6 => ' ',
                    _ => (33 + rng.below(94)) as u8 as char,
                });
            }
            _ => {
                if depth < 3 {
                    s.push_str(&gen_comment(rng, depth + 1, nonascii));
                } else {
                    s.push('x');
                }
            }
        }
        if nonascii && rng.chance(1, 3) {
            s.push(*rng.pick(&['é', '\u{2212}', '日', '\u{1F600}', '\u{a0}', '\u{301}']));
        }
    }
    s.push(')');
    s
}

fn gen_mask(rng: &mut Rng, len: u32) -> u8 {
    match rng.below(4) {
        0 | 1 => 0,
        2 => ((1u32 << len) - 1) as u8,
        _ => rng.below(1 << len) as u8,
    }
}

/// A random spec using only the freedoms the property lists (class A).
fn gen_spec(rng: &mut Rng) -> Spec {
    // year style first, then a year that fits it
    let (ystyle, y) = match rng.below(20) {
        0..=4 => {
            let yy = match rng.below(6) {
                0 => 49,
                1 => 50,
                2 => *rng.pick(&[0i64, 1, 48, 51, 69, 70, 99]),
                _ => rng.range(0, 99),
            };
            (YStyle::Two, if yy < 50 { 2000 + yy } else { 1900 + yy })
        }
        5..=7 => {
            let yyy = match rng.below(4) {
                0 => *rng.pick(&[0i64, 1, 9, 49, 50, 99, 100, 112, 999]),
                _ => rng.range(0, 999),
            };
            (YStyle::Three, 1900 + yyy)
        }
        8..=17 => {
            let y = match rng.below(6) {
                0 => *rng.pick(&[0i64, 1, 4, 49, 50, 99, 100, 400, 999, 1000, 1582, 1900, 1970, 2000, 2038, 9999]),
                1 | 2 => rng.range(1900, 2100),
                3 => rng.range(0, 999),
                _ => rng.range(0, 9999),
            };
            (YStyle::Four, y)
        }
        _ => {
            if rng.chance(1, 2) {
                let y = match rng.below(3) {
                    0 => *rng.pick(&[10_000i64, 10_001, 99_999, 100_000, 262_141]),
                    _ => rng.range(10_000, 262_141),
                };
                (YStyle::Long(if y >= 100_000 { 6 + rng.below(2) as usize } else { 5 + rng.below(3) as usize }), y)
            } else {
                (YStyle::Long(5 + rng.below(4) as usize), rng.range(0, 9999))
            }
        }
    };
    let m = rng.range(1, 12);
    let dim = rc::days_in_month(y, m);
    let d = match rng.below(8) {
        0 => 1,
        1 => dim,
        2 => *rng.pick(&[9i64, 10, 28]),
        _ => rng.range(1, dim),
    };
    let hh = match rng.below(5) {
        0 => *rng.pick(&[0i64, 12, 23]),
        _ => rng.range(0, 23),
    };
    let mi = match rng.below(5) {
        0 => *rng.pick(&[0i64, 59]),
        _ => rng.range(0, 59),
    };
    let (secs_present, ss) = match rng.below(10) {
        0..=3 => (false, 0),
        4 => (true, 60),
        5 => (true, *rng.pick(&[0i64, 59])),
        _ => (true, rng.range(0, 59)),
    };
    let (zone, off) = match rng.below(20) {
        0..=7 => {
            let mins = match rng.below(6) {
                0 => *rng.pick(&[0i64, 1, -1, 59, -59, 60, -60, 1439, -1439, 330, -210, 765]),
                1 => rng.range(-23, 23) * 60,
                _ => rng.range(-1439, 1439),
            };
            (Zone::Numeric, mins * 60)
        }
        8 => (Zone::MinusZero, 0),
        9..=15 => {
            let i = rng.below(ZONES.len() as u64) as usize;
            (Zone::Name(i, gen_mask(rng, ZONES[i].0.len() as u32)), ZONES[i].1 * 3600)
        }
        _ => {
            // single military letters: A-I, K-Z in either case (J is not in the RFC's obs-zone)
            let c = loop {
                let c = (b'A' + rng.below(26) as u8) as char;
                if c != 'J' {
                    break c;
                }
            };
            (Zone::Mil(if rng.chance(1, 2) { c.to_ascii_lowercase() } else { c }), 0)
        }
    };
    let mut comments = Vec::new();
    let nc = match rng.below(8) {
        0..=3 => 0,
        4 | 5 => 1,
        6 => 2,
        _ => 3,
    };
    for _ in 0..nc {
        let w = match rng.below(4) {
            0 => String::new(),
            1 => " ".to_string(),
            _ => gen_ws(rng),
        };
        comments.push((w, gen_comment(rng, 1, false)));
    }
    let mut s = Spec::canonical(y, m, d, hh, mi, ss, off);
    s.wd = if rng.chance(3, 5) { WdStyle::Right } else { WdStyle::Absent };
    s.wd_mask = gen_mask(rng, 3);
    s.day_pad = d < 10 && rng.chance(1, 2);
    s.mon_mask = gen_mask(rng, 3);
    s.ystyle = ystyle;
    s.secs_present = secs_present;
    s.zone = zone;
    s.ws = [gen_ws(rng), gen_ws(rng), gen_ws(rng), gen_ws(rng), gen_ws(rng)];
    s.comments = comments;
    s
}

/// Add one or two RFC-valid freedoms the property does not list (class X). Returns bucket names.
fn add_extras(rng: &mut Rng, s: &mut Spec) -> Vec<&'static str> {
    let mut names = Vec::new();
    let lws = |rng: &mut Rng| -> String {
        match rng.below(5) {
            0 => "\t".into(),
            1 => "  ".into(),
            2 => "\r\n ".into(),
            _ => " ".into(),
        }
    };
    for _ in 0..1 + rng.below(2) {
        match rng.below(7) {
            0 => {
                s.x_lead = lws(rng);
                names.push("x_leading_ws");
            }
            1 => {
                // not after the colon before the seconds? generate all four positions; no acceptance claim
                let k = rng.below(if s.secs_present { 4 } else { 2 }) as usize;
                s.x_colon[k] = lws(rng);
                names.push("x_ws_around_colon");
            }
            2 => {
                s.x_trail = lws(rng);
                names.push("x_trailing_ws");
            }
            3 => {
                let slot = if s.wd == WdStyle::Absent { 1 + rng.below(4) } else { rng.below(5) } as usize;
                s.x_mid = Some((slot, gen_comment(rng, 2, false)));
                names.push("x_comment_between_tokens");
            }
            4 => {
                if s.wd != WdStyle::Absent {
                    s.x_nospace_comma = true;
                    names.push("x_no_space_after_comma");
                }
            }
            5 => {
                if s.wd != WdStyle::Absent {
                    s.x_ws_before_comma = lws(rng);
                    names.push("x_ws_before_comma");
                }
            }
            _ => {
                let w = if rng.chance(1, 2) { " ".to_string() } else { String::new() };
                s.comments.push((w, gen_comment(rng, 1, true)));
                names.push("x_nonascii_comment");
            }
        }
    }
    names
}

// ------------------------------------------------------------------------------------------------
// Checks
// ------------------------------------------------------------------------------------------------

const ITEMS: &[Item<'static>] = &[Item::Fixed(Fixed::RFC2822)];

/// Unmonitored helper used only for diagnosis: does chrono read `s` as exactly `d`?
fn chrono_reads_as(s: &str, d: &Den) -> bool {
    matches!(guard(|| DateTime::parse_from_rfc2822(s).ok().map(|dt| observe(&dt))), Ok(Some(o)) if differs(&o, d).is_none())
}

/// Which style choice is responsible for a failing class-A spec: the first one (in a fixed order)
/// whose canonicalisation alone makes chrono read the string correctly.
fn blame(spec: &Spec) -> String {
    let mut dims: Vec<(String, Spec)> = Vec::new();
    let mut add = |name: &str, f: &dyn Fn(&mut Spec)| {
        let mut v = spec.clone();
        f(&mut v);
        dims.push((name.to_string(), v));
    };
    if !spec.comments.is_empty() {
        add("comment", &|v| v.comments.clear());
    }
    if spec.ws.iter().any(|w| w != " ") {
        add("white-space-run", &|v| v.ws = [" ".into(), " ".into(), " ".into(), " ".into(), " ".into()]);
    }
    if spec.wd == WdStyle::Absent {
        add("weekday-absent", &|v| v.wd = WdStyle::Right);
    } else if spec.wd_mask != 0 {
        add("weekday-case", &|v| v.wd_mask = 0);
    }
    if spec.wd == WdStyle::Right {
        add("weekday-present", &|v| v.wd = WdStyle::Absent);
    }
    if spec.day_pad {
        add("day-zero-padded", &|v| v.day_pad = false);
    }
    if spec.d < 10 {
        add("day-1digit", &|v| v.d += 10);
    }
    if spec.mon_mask != 0 {
        add("month-case", &|v| v.mon_mask = 0);
    }
    let fix_year = |v: &mut Spec| {
        if !(0..=9999).contains(&v.y) {
            v.y = 2000;
            v.d = v.d.min(28);
        }
        v.ystyle = YStyle::Four;
    };
    match spec.ystyle {
        YStyle::Two => add("year-2digit", &fix_year),
        YStyle::Three => add("year-3digit", &fix_year),
        YStyle::Long(_) => add("year-5plus-digits", &fix_year),
        YStyle::Four => {}
    }
    if !spec.secs_present {
        add("seconds-omitted", &|v| v.secs_present = true);
    }
    if spec.ss == 60 {
        add("second-60", &|v| v.ss = 59);
    }
    match spec.zone {
        Zone::Numeric => {}
        Zone::MinusZero => add("zone-minus0000", &|v| v.zone = Zone::Numeric),
        Zone::Name(i, mask) => {
            if mask != 0 {
                add("zone-name-case", &|v| v.zone = Zone::Name(i, 0));
            }
            add(&format!("zone-{}", ZONES[i].0), &|v| v.zone = Zone::Numeric);
        }
        Zone::Mil(c) => {
            if c.is_ascii_lowercase() {
                add("zone-military-lower-case", &|v| v.zone = Zone::Mil(c.to_ascii_uppercase()));
            }
            add("zone-military", &|v| v.zone = Zone::Numeric);
        }
    }
    for (name, v) in &dims {
        if v.consistent() && chrono_reads_as(&v.render(), &v.den()) {
            return name.clone();
        }
    }
    // nothing alone helps: is even the canonical form of the same value misread?
    let mut c = Spec::canonical(spec.y, spec.m, spec.d, spec.hh, spec.mi, spec.ss.min(59), spec.off);
    if !(0..=9999).contains(&c.y) {
        c.y = 2000;
        c.d = c.d.min(28);
        c.ystyle = YStyle::Four;
    }
    if chrono_reads_as(&c.render(), &c.den()) {
        "combination".into()
    } else {
        "canonical-form".into()
    }
}

/// Parse through the public entry point under the panic monitor.
fn parse_mon(loc: &mut Local, s: &str) -> Option<Result<Obs, String>> {
    loc.call("parse_from_rfc2822", || json!(s), || DateTime::parse_from_rfc2822(s).map(|dt| observe(&dt)).map_err(|e| format!("{:?}", e.kind())))
}

/// Parse through `format::parse` with the `Fixed::RFC2822` item, then `Parsed::to_datetime`.
fn parse_item_mon(loc: &mut Local, s: &str) -> Option<Result<Obs, String>> {
    loc.call(
        "Fixed::RFC2822-parse",
        || json!(s),
        || {
            let mut p = Parsed::new();
            chrono::format::parse(&mut p, s, ITEMS.iter())
                .and_then(|_| p.to_datetime())
                .map(|dt| observe(&dt))
                .map_err(|e| format!("{:?}", e.kind()))
        },
    )
}

/// (has a nested comment, has an escaped parenthesis, has an escaped backslash)
fn comment_features(c: &str) -> (bool, bool, bool) {
    let (mut nested, mut ep, mut eb) = (false, false, false);
    let mut depth = 0;
    let mut it = c.chars();
    while let Some(ch) = it.next() {
        match ch {
            '\\' => match it.next() {
                Some('(') | Some(')') => ep = true,
                Some('\\') => eb = true,
                _ => {}
            },
            '(' => {
                depth += 1;
                if depth > 1 {
                    nested = true;
                }
            }
            ')' => depth -= 1,
            _ => {}
        }
    }
    (nested, ep, eb)
}

fn spec_buckets(loc: &mut Local, ids: &Ids, s: &Spec) -> bool {
    let mut nontrivial = false;
    let mut b = |n: &str, nt: bool| {
        loc.bucket(ids.g(n));
        nontrivial |= nt;
    };
    match s.wd {
        WdStyle::Absent => b("r_weekday_absent", true),
        _ => {
            b("r_weekday_present", false);
            if s.wd_mask != 0 {
                b("r_weekday_case", true);
            }
        }
    }
    if s.d < 10 {
        if s.day_pad {
            b("r_day_zero_padded", true);
        } else {
            b("r_day_1digit", false);
        }
    } else {
        b("r_day_2digit", false);
    }
    if s.mon_mask != 0 {
        b("r_month_case", true);
    }
    match s.ystyle {
        YStyle::Two => {
            b(if s.y >= 2000 { "r_year_2digit_00_49" } else { "r_year_2digit_50_99" }, true);
            if s.y == 2049 {
                b("r_year_49", true);
            }
            if s.y == 1950 {
                b("r_year_50", true);
            }
        }
        YStyle::Three => b("r_year_3digit", true),
        YStyle::Four => {
            b("r_year_4digit", false);
            if s.y < 1000 {
                b("r_year_4digit_lt1000", true);
            }
        }
        YStyle::Long(_) => b("r_year_5plus_digits", true),
    }
    if s.secs_present {
        b("r_seconds_present", false);
        if s.ss == 60 {
            b("r_second_60", true);
        }
    } else {
        b("r_seconds_absent", true);
    }
    match s.zone {
        Zone::Numeric => b(if s.off > 0 { "r_zone_numeric_pos" } else if s.off < 0 { "r_zone_numeric_neg" } else { "r_zone_numeric_zero" }, s.off < 0),
        Zone::MinusZero => b("r_zone_minus0000", true),
        Zone::Name(i, mask) => {
            b(ZONE_B[i], true);
            if mask != 0 {
                b("r_zone_name_case", true);
            }
        }
        Zone::Mil(c) => b(if c.eq_ignore_ascii_case(&'z') { "r_zone_military_Z" } else { "r_zone_military" }, true),
    }
    match s.comments.len() {
        0 => b("r_comment_none", false),
        1 => b("r_comment_one", true),
        _ => b("r_comment_multi", true),
    }
    for (w, c) in &s.comments {
        let (nested, esc_paren, esc_bs) = comment_features(c);
        if nested {
            b("r_comment_nested", true);
        }
        if esc_paren {
            b("r_comment_escaped_paren", true);
        }
        if esc_bs {
            b("r_comment_escaped_backslash", true);
        }
        if !w.is_empty() {
            b("r_comment_after_ws", true);
        }
    }
    let used_ws: Vec<&String> = s.ws.iter().enumerate().filter(|(k, _)| *k > 0 || s.wd != WdStyle::Absent).map(|(_, w)| w).collect();
    if used_ws.iter().any(|w| w.len() > 1) {
        b("r_ws_run_multi", true);
    }
    if used_ws.iter().any(|w| w.contains('\t')) {
        b("r_ws_htab", true);
    }
    if used_ws.iter().any(|w| w.contains('\r')) {
        b("r_ws_crlf", true);
    }
    let _ = &mut b;
    if !nontrivial {
        loc.bucket(ids.g("r_canonical_form"));
    }
    nontrivial
}

/// Class A: must be accepted with exactly the denoted value.
fn reader_case(loc: &mut Local, ids: &Ids, spec: &Spec, item_route: bool) -> String {
    let s = spec.render();
    let den = spec.den();
    if !spec.consistent() || spec.has_extras() || matches!(spec.wd, WdStyle::Wrong(_)) {
        loc.rep.harness_error(format!("C11: inconsistent class-A spec {:?}", spec));
        return s;
    }
    // generator vs reference reader: two formulations of the same grammar must agree
    match ref_read(&s) {
        Ref::Ok(d) if d == den => {}
        other => {
            loc.rep.harness_error(format!("C11: reference reader disagrees with generator on {:?}: {:?} vs {:?}", s, other, den));
            return s;
        }
    }
    loc.eval();
    if spec_buckets(loc, ids, spec) {
        loc.nontrivial(hstr(&s));
    }
    let entry = if item_route { "Fixed::RFC2822-parse" } else { "parse_from_rfc2822" };
    let r = if item_route {
        loc.bucket(ids.g("r_item_route"));
        parse_item_mon(loc, &s)
    } else {
        parse_mon(loc, &s)
    };
    match r {
        None => {}
        Some(Err(e)) => {
            let sig = format!("C11/{}/valid-rejected/{}", entry, blame(spec));
            loc.violation(&sig, json!({"input": s, "expected": den.json(), "observed": format!("Err({})", e)}));
        }
        Some(Ok(o)) => {
            if let Some(kind) = differs(&o, &den) {
                let sig = format!("C11/{}/{}/{}", entry, kind, blame(spec));
                loc.violation(&sig, json!({"input": s, "expected": den.json(), "observed": obs_json(&o)}));
            }
            loc.sample(|| json!({"input": s, "denoted": den.json(), "observed": obs_json(&o)}));
        }
    }
    s
}

/// Class B: a contradicting weekday must be rejected.
fn wrong_weekday_case(loc: &mut Local, ids: &Ids, spec: &Spec, shift: i64) {
    let mut v = spec.clone();
    v.wd = WdStyle::Wrong(shift);
    let s = v.render();
    if ref_read(&s) != Ref::WeekdayContradicts {
        loc.rep.harness_error(format!("C11: reference reader does not see the contradiction in {:?}", s));
        return;
    }
    loc.eval();
    loc.bucket(ids.g("r_contradicting_weekday"));
    loc.nontrivial(hstr(&s));
    if let Some(Ok(o)) = parse_mon(loc, &s) {
        loc.violation(
            "C11/parse_from_rfc2822/contradicting-weekday-accepted",
            json!({"input": s, "date_weekday": WD[rc::weekday(spec.den().day) as usize], "expected": "Err", "observed": obs_json(&o)}),
        );
    }
}

/// Class X: RFC-valid beyond the listed freedoms. No acceptance claim; value if accepted.
fn extras_case(loc: &mut Local, ids: &Ids, spec: &Spec, names: &[&'static str]) {
    let s = spec.render();
    let den = spec.den();
    match ref_read(&s) {
        Ref::Ok(d) if d == den => {}
        other => {
            loc.rep.harness_error(format!("C11: reference reader disagrees with generator on class-X {:?}: {:?} vs {:?}", s, other, den));
            return;
        }
    }
    loc.eval();
    loc.nontrivial(hstr(&s));
    for n in names {
        loc.bucket(ids.g(n));
    }
    match parse_mon(loc, &s) {
        Some(Ok(o)) => {
            loc.bucket(ids.g("x_accepted"));
            if let Some(kind) = differs(&o, &den) {
                let sig = format!("C11/parse_from_rfc2822/{}/unlisted-rfc-form", kind);
                loc.violation(&sig, json!({"input": s, "forms": names, "expected": den.json(), "observed": obs_json(&o)}));
            }
        }
        Some(Err(_)) => loc.bucket(ids.g("x_rejected")),
        None => {}
    }
}

/// Mutated / arbitrary text: returns normally; consistent with the reference reader when both accept;
/// rejected when the only fault is a contradicting weekday.
fn consistency_case(loc: &mut Local, ids: &Ids, s: &str, class: &'static str) {
    loc.eval();
    let r = parse_mon(loc, s);
    let mine = ref_read(s);
    let arbitrary = class == "arbitrary";
    match (r, mine) {
        (None, _) => {}
        (Some(Ok(o)), Ref::Ok(d)) => {
            loc.bucket(ids.g(if arbitrary { "a_accepted" } else { "m_both_accept" }));
            loc.nontrivial(hstr(s));
            if let Some(kind) = differs(&o, &d) {
                let sig = format!("C11/parse_from_rfc2822/accepted-value-differs-from-reference-reader/{}/{}", kind, class);
                loc.violation(&sig, json!({"input": s, "reference": d.json(), "observed": obs_json(&o)}));
            }
        }
        (Some(Ok(o)), Ref::WeekdayContradicts) => {
            let sig = format!("C11/parse_from_rfc2822/contradicting-weekday-accepted/{}", class);
            loc.violation(&sig, json!({"input": s, "expected": "Err", "observed": obs_json(&o)}));
        }
        (Some(Ok(_)), Ref::No) => {
            if !arbitrary {
                loc.bucket(ids.g("m_chrono_only"));
            }
            // informational: strings chrono accepts that the reference grammar does not contain
            if CHRONO_ONLY_NOTES.fetch_add(1, std::sync::atomic::Ordering::Relaxed) < 8 {
                loc.rep.note(format!("accepted by chrono only ({}): {:?}", class, s));
            }
        }
        (Some(Err(_)), Ref::Ok(_)) => {
            if !arbitrary {
                loc.bucket(ids.g("m_reference_only"));
            }
        }
        (Some(Err(_)), Ref::WeekdayContradicts) => {
            if !arbitrary {
                loc.bucket(ids.g("m_reference_weekday_contradiction"));
            }
            loc.nontrivial(hstr(s));
        }
        (Some(Err(_)), Ref::No) => {
            if !arbitrary {
                loc.bucket(ids.g("m_both_reject"));
            }
        }
    }
}

static CHRONO_ONLY_NOTES: std::sync::atomic::AtomicU64 = std::sync::atomic::AtomicU64::new(0);

const INSERTS: &[&str] = &[
    "0", "1", "2", "3", "4", "5", "6", "7", "8", "9", ":", ",", "+", "-", " ", "\t", "\r", "\n", "(", ")", "\\", "a", "Z", "J", "T",
    ".", "/", "\u{2212}", "\u{a0}", "\u{ff11}", "\u{0660}", "\u{301}", "\u{2003}", "\u{1F600}", "\0", "é",
];

/// One edit of a valid string.
fn mutate(rng: &mut Rng, s: &str) -> String {
    let chars: Vec<char> = s.chars().collect();
    let n = chars.len();
    if n == 0 {
        return "x".into();
    }
    let p = rng.below(n as u64) as usize;
    let collect = |v: &[char]| v.iter().collect::<String>();
    match rng.below(12) {
        0 => {
            let mut v = chars.clone();
            v.remove(p);
            collect(&v)
        }
        1 => {
            let mut o: String = chars[..p].iter().collect();
            if rng.chance(1, 5) {
                // any UTF-8 lead byte (readers that compare or slice bytewise)
                o.push(*rng.pick(&gen::lead_byte_chars()));
            } else {
                o.push_str(*rng.pick(INSERTS));
            }
            o.extend(chars[p..].iter());
            o
        }
        2 => {
            let mut o: String = chars[..p].iter().collect();
            o.push_str(*rng.pick(INSERTS));
            o.extend(chars[p + 1..].iter());
            o
        }
        3 => {
            let mut v = chars.clone();
            v.insert(p, chars[p]);
            collect(&v)
        }
        4 => collect(&chars[..p]),
        5 => {
            // flip the case of a letter
            let letters: Vec<usize> = (0..n).filter(|i| chars[*i].is_ascii_alphabetic()).collect();
            let mut v = chars.clone();
            if !letters.is_empty() {
                let i = *rng.pick(&letters);
                v[i] = if v[i].is_ascii_uppercase() { v[i].to_ascii_lowercase() } else { v[i].to_ascii_uppercase() };
            }
            collect(&v)
        }
        6..=8 => {
            // change one digit (the value changes: the reference reader says what to)
            let digits: Vec<usize> = (0..n).filter(|i| chars[*i].is_ascii_digit()).collect();
            let mut v = chars.clone();
            if !digits.is_empty() {
                let i = *rng.pick(&digits);
                v[i] = (b'0' + rng.below(10) as u8) as char;
            }
            collect(&v)
        }
        9 => {
            let mut v = chars.clone();
            if p + 1 < n {
                v.swap(p, p + 1);
            }
            collect(&v)
        }
        10 => {
            // look-alike substitution
            let mut v = chars.clone();
            for c in v.iter_mut() {
                let r = match *c {
                    '-' => Some('\u{2212}'),
                    ' ' => Some('\u{a0}'),
                    '1' => Some('\u{ff11}'),
                    ':' => Some('\u{ff1a}'),
                    _ => None,
                };
                if let Some(r) = r {
                    if rng.chance(1, 3) {
                        *c = r;
                        break;
                    }
                }
            }
            collect(&v)
        }
        _ => {
            // swap two white-space separated fields
            let parts: Vec<&str> = s.split(' ').collect();
            if parts.len() >= 2 {
                let mut v: Vec<String> = parts.iter().map(|x| x.to_string()).collect();
                let i = rng.below(v.len() as u64) as usize;
                let j = rng.below(v.len() as u64) as usize;
                v.swap(i, j);
                v.join(" ")
            } else {
                s.to_string()
            }
        }
    }
}

const SOUP: &[&str] = &[
    "Mon", "Tue,", "wed,", "Thu", "Fri,", "Sat,", "Sun,", ",", "1", "01", "9", "10", "28", "29", "30", "31", "32", "0", "00", "Jan", "feb",
    "MAR", "Apr", "May", "Jun", "Jul", "Aug", "Sep", "Oct", "Nov", "Dec", "January", "49", "50", "99", "099", "112", "1970", "2000", "2024", "9999",
    "10000", "12", "23", "24", ":", "12:30", "12:30:45", "23:59:60", "00:00", ":60", ":59", " ", " ", " ", "\t", "\r\n ", "+0000", "-0000",
    "+0530", "-0700", "+2359", "+2400", "-9959", "+05:30", "GMT", "ut", "EST", "edt", "CST", "PDT", "Z", "z", "J", "A", "y", "UTC", "(", ")", "\\", "(a)",
    "(a (b))", "(\\))", "()", "\u{2212}0700", "\u{a0}",
];

fn token_soup(rng: &mut Rng) -> String {
    let mut s = String::new();
    if rng.chance(2, 3) {
        // roughly date-time shaped
        let shape: [&[&str]; 9] = [
            &["Mon, ", "Tue,", "sat, ", "", "", "Sun ,"],
            &["1 ", "01 ", "31 ", "29 ", "0 ", "32 ", "7", "123 "],
            &["Jan ", "Feb ", "dec ", "JUN", "Foo ", "Sept "],
            &["2000 ", "00 ", "49 ", "50 ", "099 ", "1900 ", "12345 ", "2024", "1 ", "99999999999999999999 "],
            &["12", "00", "23", "24", "7", " 09 "],
            &[":", " : ", "", "::"],
            &["30", "00", "59", "60", "5"],
            &[":45 ", ":60 ", " ", ": 45 ", ":45", "", ":5 ", ":61 "],
            &["+0000", "-0000", "GMT", "z", "J", "+2400", "-2359", "PDT (x)", "est(", "+00", "+000000", "UTC", "+0060", " (a)(b)", "A B"],
        ];
        for alt in shape.iter() {
            if rng.chance(1, 12) {
                s.push_str(*rng.pick(SOUP));
            } else {
                s.push_str(*rng.pick(*alt));
            }
        }
        if rng.chance(1, 4) {
            s.push_str(*rng.pick(SOUP));
        }
    } else {
        for _ in 0..3 + rng.below(10) {
            s.push_str(*rng.pick(SOUP));
            if rng.chance(1, 2) {
                s.push(' ');
            }
        }
    }
    s
}

// ------------------------------------------------------------------------------------------------
// Writer
// ------------------------------------------------------------------------------------------------

const FIELD: [&str; 6] = ["weekday", "day", "month", "year", "time", "zone"];

/// name of the first blank-separated field in which two renderings differ
fn text_diff_field(got: &str, want: &str) -> &'static str {
    let a: Vec<&str> = got.split(' ').collect();
    let b: Vec<&str> = want.split(' ').collect();
    if a.len() != b.len() || a.len() != 6 {
        return "shape";
    }
    for i in 0..6 {
        if a[i] != b[i] {
            return FIELD[i];
        }
    }
    "shape"
}

/// One writer case: wall-clock (day, secs, frac) with optional leap second, whole-minute offset.
#[allow(clippy::too_many_arguments)]
fn writer_case(loc: &mut Local, ids: &Ids, day: i64, secs: i64, frac: i64, leap: bool, off: i64, routes: bool) {
    let den = Den { day, secs, leap, off };
    let (y, m, d) = rc::civil_from_days(day);
    if !(0..=9999).contains(&y) || off % 60 != 0 || off.abs() >= 86_400 || (leap && secs % 60 != 59) {
        loc.rep.harness_error(format!("C11: writer case outside the property's domain: {:?}", den));
        return;
    }
    let mut utc = den.utc();
    utc.frac += frac;
    let (naive, fo) = match (utc.to_chrono(), FixedOffset::east_opt(off as i32)) {
        (Some(n), Some(f)) => (n, f),
        _ => {
            loc.rep.harness_error(format!("C11: cannot build input {:?}", den));
            return;
        }
    };
    let dt: DateTime<FixedOffset> = DateTime::from_naive_utc_and_offset(naive, fo);
    loc.eval();
    // buckets
    let mut nt = false;
    {
        let mut b = |n: &str, x: bool| {
            loc.bucket(ids.g(n));
            nt |= x;
        };
        b(WD_B[rc::weekday(day) as usize], false);
        b(MON_B[(m - 1) as usize], false);
        if y == 0 {
            b("w_year0", true);
        }
        if y == 9999 {
            b("w_year9999", true);
        }
        if y < 1000 {
            b("w_year_lt1000", true);
        }
        b(if d < 10 { "w_day_1digit" } else { "w_day_2digit" }, d < 10);
        if leap {
            b("w_leap_second", true);
        }
        if frac != 0 {
            b("w_frac_nonzero", false);
        }
        b(if off < 0 { "w_offset_negative" } else if off == 0 { "w_offset_zero" } else { "w_offset_positive" }, off < 0);
        if off.abs() == 86_340 {
            b("w_offset_extreme", true);
        }
        if (y, m, d, secs) == (0, 1, 1, 0) {
            b("w_first_second_of_domain", true);
        }
        if (y, m, d, secs) == (9999, 12, 31, 86_399) {
            b("w_last_second_of_domain", true);
        }
        let uy = utc.ymd().0;
        if !(0..=9999).contains(&uy) {
            b("w_utc_outside_0_9999", true);
        }
    }
    if nt {
        loc.nontrivial(h2(h2(day as u64, secs as u64), h2(off as u64, leap as u64)));
    }
    let want = ref_render(&den);
    let input = || json!({"utc": [utc.day, utc.secs, utc.frac], "offset_s": off, "wall": den.json()});
    let text = match loc.call("to_rfc2822", input, || dt.to_rfc2822()) {
        Some(t) => t,
        None => return,
    };
    if text != want {
        let sig = format!("C11/to_rfc2822/text-differs/{}", text_diff_field(&text, &want));
        loc.violation(&sig, json!({"input": input(), "expected": want, "observed": text}));
    }
    // parse back what chrono wrote
    match parse_mon(loc, &text) {
        None => {}
        Some(Err(e)) => {
            loc.violation("C11/to_rfc2822/round-trip-rejected", json!({"input": input(), "text": text, "observed": format!("Err({})", e)}));
        }
        Some(Ok(o)) => {
            if let Some(kind) = differs(&o, &den) {
                let sig = format!("C11/to_rfc2822/round-trip-{}", kind);
                loc.violation(&sig, json!({"input": input(), "text": text, "expected": den.json(), "observed": obs_json(&o)}));
            }
            loc.sample(|| json!({"input": input(), "text": text, "parsed_back": obs_json(&o)}));
        }
    }
    if routes {
        // the Fixed::RFC2822 item
        loc.bucket(ids.g("w_item_route"));
        let r = loc.call("Fixed::RFC2822-format", input, || {
            let mut s = String::new();
            write!(s, "{}", dt.format_with_items(ITEMS.iter())).map(|_| s)
        });
        match r {
            Some(Ok(t)) if t == want => {}
            Some(Ok(t)) => {
                let sig = format!("C11/Fixed::RFC2822-format/text-differs/{}", text_diff_field(&t, &want));
                loc.violation(&sig, json!({"input": input(), "expected": want, "observed": t}));
            }
            Some(Err(_)) => loc.violation("C11/Fixed::RFC2822-format/fmt-error", json!({"input": input(), "expected": want})),
            None => {}
        }
        match parse_item_mon(loc, &want) {
            Some(Ok(o)) => {
                if let Some(kind) = differs(&o, &den) {
                    let sig = format!("C11/Fixed::RFC2822-parse/round-trip-{}", kind);
                    loc.violation(&sig, json!({"text": want, "expected": den.json(), "observed": obs_json(&o)}));
                }
            }
            Some(Err(e)) => {
                loc.violation("C11/Fixed::RFC2822-parse/round-trip-rejected", json!({"text": want, "observed": format!("Err({})", e)}));
            }
            None => {}
        }
        if off == 0 {
            loc.bucket(ids.g("w_utc_type"));
            let du: DateTime<Utc> = DateTime::from_naive_utc_and_offset(naive, Utc);
            if let Some(t) = loc.call("DateTime<Utc>::to_rfc2822", input, || du.to_rfc2822()) {
                if t != want {
                    let sig = format!("C11/DateTime<Utc>::to_rfc2822/text-differs/{}", text_diff_field(&t, &want));
                    loc.violation(&sig, json!({"input": input(), "expected": want, "observed": t}));
                }
            }
        }
    }
}

fn writer_offset(rng: &mut Rng, k: u64) -> i64 {
    match rng.below(8) {
        0 => 0,
        1 => *rng.pick(&[86_340i64, -86_340, 60, -60, 3600, -3600, 19_800, -12_600, 45_900, 43_200, -43_200]),
        // every whole-minute offset is reached by the cycling term
        2 | 3 => ((k % 2879) as i64 - 1439) * 60,
        _ => rng.range(-1439, 1439) * 60,
    }
}

/// Every day of the years 0..=9999, `reps` random (time, offset) per day.
fn writer_walk(ctx: &Ctx, rep: &Report) {
    let lo = rc::day_number(0, 1, 1);
    let hi = rc::day_number(9999, 12, 31);
    let total = hi - lo + 1;
    let n_shards = 256usize;
    let per = (total + n_shards as i64 - 1) / n_shards as i64;
    let reps = ctx.n(1, 10);
    par_shards(rep, ctx.threads, n_shards, |shard| {
        let ids = Ids::new();
        let mut loc = rep.local();
        let mut rng = Rng::new(ctx.seed, "C11/writer-walk", shard as u64);
        let a = lo + per * shard as i64;
        let b = (a + per - 1).min(hi);
        let mut k = shard as u64 * 977;
        for day in a..=b {
            for _ in 0..reps {
                k += 1;
                let mut secs = gen::random_secs(&mut rng);
                let leap = rng.chance(1, 8);
                if leap {
                    secs = secs - secs % 60 + 59;
                }
                let frac = if rng.chance(1, 3) { 0 } else { gen::random_frac(&mut rng) };
                let off = writer_offset(&mut rng, k);
                writer_case(&mut loc, &ids, day, secs, frac, leap, off, k % 16 == 0 || off == 0 && k % 4 == 0);
            }
        }
    });
}

/// Boundary product: catalogue days inside 0..=9999 x catalogue seconds (+ leap) x all 2879 offsets (sampled).
fn writer_boundary(ctx: &Ctx, rep: &Report) {
    let lo = rc::day_number(0, 1, 1);
    let hi = rc::day_number(9999, 12, 31);
    let mut days: Vec<i64> = gen::catalogue_days().into_iter().filter(|d| (lo..=hi).contains(d)).collect();
    for d in [lo, lo + 1, hi - 1, hi] {
        days.push(d);
    }
    days.sort();
    days.dedup();
    let secs_cat = gen::catalogue_secs();
    let step = ctx.n(97, 7) as usize; // stride through the 2879 offsets; start rotates per (day, sec)
    let n_shards = days.len();
    par_shards(rep, ctx.threads, n_shards, |shard| {
        let ids = Ids::new();
        let mut loc = rep.local();
        let day = days[shard];
        for (si, &secs) in secs_cat.iter().enumerate() {
            for leap in [false, true] {
                if leap && secs % 60 != 59 {
                    continue;
                }
                let mut offs: Vec<i64> = vec![0, 60, -60, 86_340, -86_340, 3600, -3600];
                let mut o = ((shard * 31 + si * 7) % step) as i64;
                while o < 2879 {
                    offs.push((o - 1439) * 60);
                    o += step as i64;
                }
                for off in offs {
                    let frac = if (off / 60) % 3 == 0 { 0 } else { 999_999_999 };
                    writer_case(&mut loc, &ids, day, secs, frac, leap, off, true);
                }
            }
        }
    });
}

// ------------------------------------------------------------------------------------------------
// Reader drivers
// ------------------------------------------------------------------------------------------------

/// Deterministic part: every 2- and 3-digit year, every zone name in every case pattern, every
/// military letter, each on an otherwise canonical string and on one obsolete-looking string.
fn reader_systematic(ctx: &Ctx, rep: &Report) {
    par_shards(rep, ctx.threads, 4, |shard| {
        let ids = Ids::new();
        let mut loc = rep.local();
        let mut rng = Rng::new(ctx.seed, "C11/systematic", shard as u64);
        let base = |rng: &mut Rng, y: i64| {
            let m = rng.range(1, 12);
            let d = rng.range(1, rc::days_in_month(y, m));
            Spec::canonical(y, m, d, rng.range(0, 23), rng.range(0, 59), rng.range(0, 59), 0)
        };
        match shard {
            0 => {
                // trailing comments nested far deeper than the generator goes (a depth counter must not wrap)
                for depth in [4usize, 100, 255, 256, 257, 1000, 65_535, 65_536, 70_000] {
                    for item_route in [false, true] {
                        let mut s = base(&mut rng, 2003);
                        s.comments = vec![(" ".to_string(), format!("{}x{}", "(".repeat(depth), ")".repeat(depth)))];
                        loc.bucket(ids.g("r_systematic_years"));
                        reader_case(&mut loc, &ids, &s, item_route);
                    }
                }
                for yy in 0..100i64 {
                    for variant in 0..4 {
                        let mut s = base(&mut rng, if yy < 50 { 2000 + yy } else { 1900 + yy });
                        s.ystyle = YStyle::Two;
                        s.wd = if variant & 1 == 0 { WdStyle::Right } else { WdStyle::Absent };
                        s.secs_present = variant & 2 == 0;
                        if !s.secs_present {
                            s.ss = 0;
                        }
                        loc.bucket(ids.g("r_systematic_years"));
                        reader_case(&mut loc, &ids, &s, false);
                        if s.wd == WdStyle::Right {
                            wrong_weekday_case(&mut loc, &ids, &s, 1 + (yy % 6));
                        }
                    }
                }
            }
            1 => {
                for yyy in 0..1000i64 {
                    let mut s = base(&mut rng, 1900 + yyy);
                    s.ystyle = YStyle::Three;
                    s.wd = if yyy % 2 == 0 { WdStyle::Right } else { WdStyle::Absent };
                    loc.bucket(ids.g("r_systematic_years"));
                    reader_case(&mut loc, &ids, &s, yyy % 5 == 0);
                }
                // four-digit years below 1000 and 5-digit renderings are never touched by the rule
                for y in (0..1000i64).step_by(7).chain([0, 1, 49, 50, 99, 100, 999]) {
                    for w in [4usize, 5, 6] {
                        let mut s = base(&mut rng, y);
                        s.ystyle = if w == 4 { YStyle::Four } else { YStyle::Long(w) };
                        loc.bucket(ids.g("r_systematic_years"));
                        reader_case(&mut loc, &ids, &s, false);
                    }
                }
            }
            2 => {
                for (i, (name, h)) in ZONES.iter().enumerate() {
                    for mask in 0..(1u8 << name.len()) {
                        for variant in 0..2 {
                            let yr = rng.range(1950, 2049);
                            let mut s = base(&mut rng, yr);
                            s.zone = Zone::Name(i, mask);
                            s.off = h * 3600;
                            if variant == 1 {
                                s.secs_present = false;
                                s.ss = 0;
                                s.comments.push((" ".into(), "(zone comment)".into()));
                            }
                            loc.bucket(ids.g("r_systematic_zones"));
                            reader_case(&mut loc, &ids, &s, false);
                        }
                    }
                }
                for c in ('A'..='Z').chain('a'..='z') {
                    if c.eq_ignore_ascii_case(&'j') {
                        continue;
                    }
                    for variant in 0..2 {
                        let yr = rng.range(1950, 2049);
                            let mut s = base(&mut rng, yr);
                        s.zone = Zone::Mil(c);
                        if variant == 1 {
                            s.comments.push((String::new(), "(mil)".into()));
                        }
                        loc.bucket(ids.g("r_systematic_zones"));
                        reader_case(&mut loc, &ids, &s, false);
                    }
                }
                // every whole-minute numeric zone
                for mins in -1439..=1439i64 {
                    let yr = rng.range(1, 9998);
                    let mut s = base(&mut rng, yr);
                    s.off = mins * 60;
                    loc.bucket(ids.g("r_systematic_zones"));
                    reader_case(&mut loc, &ids, &s, false);
                }
            }
            _ => {
                // hand-written comment shapes aimed at the state machine
                let shapes = [
                    "()", "(())", "((()))", "(()())", "(a(b)c(d)e)", "(\\))", "(\\()", "(\\\\)", "(\\\\\\))", "(a\\)b)", "(a\\(b)",
                    "(\\a)", "((\\)))", "((\\())", "(\\)\\()", "( x ( x ) x )", "(a b\tc)", "(\\ )", "(:+-0123456789,)", "(GMT)", "(\\\\)(\\))",
                    "(\\\\(a))", "(((\\))))",
                ];
                for (i, c) in shapes.iter().enumerate() {
                    for (j, w) in ["", " ", "\t ", "\r\n "].iter().enumerate() {
                        let mut s = base(&mut rng, 2000 + i as i64);
                        s.comments.push((w.to_string(), c.to_string()));
                        if j % 2 == 1 {
                            s.comments.push((String::new(), shapes[(i + j) % shapes.len()].to_string()));
                        }
                        if j == 3 {
                            s.zone = Zone::Name(i % ZONES.len(), 0);
                            s.off = ZONES[i % ZONES.len()].1 * 3600;
                        }
                        reader_case(&mut loc, &ids, &s, j == 2);
                    }
                }
            }
        }
    });
}

/// Every day of 1899..=2101 with the right weekday (accepted) and each of the six wrong ones (rejected);
/// thorough: every day of 0..=9999 with two wrong ones.
fn reader_weekday_window(ctx: &Ctx, rep: &Report) {
    let thorough = ctx.tier == crate::mon::Tier::Thorough;
    let (y0, y1) = if thorough { (0, 9999) } else { (1899, 2101) };
    let lo = rc::day_number(y0, 1, 1);
    let hi = rc::day_number(y1, 12, 31);
    let n_shards = 64usize;
    let per = (hi - lo + 1 + n_shards as i64 - 1) / n_shards as i64;
    par_shards(rep, ctx.threads, n_shards, |shard| {
        let ids = Ids::new();
        let mut loc = rep.local();
        let a = lo + per * shard as i64;
        let b = (a + per - 1).min(hi);
        for day in a..=b {
            let (y, m, d) = rc::civil_from_days(day);
            let s = Spec::canonical(y, m, d, day.rem_euclid(24), day.rem_euclid(60), day.rem_euclid(61) % 60, (day.rem_euclid(53) - 26) * 1800);
            loc.bucket(ids.g("r_weekday_window_exhaustive"));
            reader_case(&mut loc, &ids, &s, false);
            if thorough && !(1899..=2101).contains(&y) {
                wrong_weekday_case(&mut loc, &ids, &s, 1 + day.rem_euclid(6));
                wrong_weekday_case(&mut loc, &ids, &s, 1 + (day + 3).rem_euclid(6));
            } else {
                for k in 1..=6 {
                    wrong_weekday_case(&mut loc, &ids, &s, k);
                }
            }
        }
    });
}

/// Random grammar strings (class A), contradicting weekdays (B), unlisted RFC forms (X), mutations.
fn reader_grammar(ctx: &Ctx, rep: &Report) {
    let n = ctx.n(250_000, 20_000_000);
    let n_shards = 256usize;
    let per = n.div_ceil(n_shards as u64);
    par_shards(rep, ctx.threads, n_shards, |shard| {
        let ids = Ids::new();
        let mut loc = rep.local();
        let mut rng = Rng::new(ctx.seed, "C11/grammar", shard as u64);
        for i in 0..per {
            let spec = gen_spec(&mut rng);
            let s = reader_case(&mut loc, &ids, &spec, i % 8 == 0);
            if rng.chance(1, 2) {
                let mut v = spec.clone();
                v.wd = WdStyle::Right;
                wrong_weekday_case(&mut loc, &ids, &v, rng.range(1, 6));
            }
            if rng.chance(1, 3) {
                let mut v = spec.clone();
                let names = add_extras(&mut rng, &mut v);
                if !names.is_empty() {
                    extras_case(&mut loc, &ids, &v, &names);
                }
            }
            for _ in 0..2 {
                let mut t = mutate(&mut rng, &s);
                if rng.chance(1, 8) {
                    t = mutate(&mut rng, &t);
                }
                loc.bucket(ids.g("m_mutated"));
                consistency_case(&mut loc, &ids, &t, "mutated");
            }
            // mutations of the canonical rendering of the same value reach the value comparison more often
            if rng.chance(1, 2) && (0..=9999).contains(&spec.y) {
                let c = ref_render(&Den { leap: false, ..spec.den() });
                let t = mutate(&mut rng, &c);
                loc.bucket(ids.g("m_mutated"));
                consistency_case(&mut loc, &ids, &t, "mutated");
            }
        }
    });
}

fn reader_arbitrary(ctx: &Ctx, rep: &Report) {
    let n = ctx.n(150_000, 8_000_000);
    let n_shards = 128usize;
    let per = n.div_ceil(n_shards as u64);
    par_shards(rep, ctx.threads, n_shards, |shard| {
        let ids = Ids::new();
        let mut loc = rep.local();
        let mut rng = Rng::new(ctx.seed, "C11/arbitrary", shard as u64);
        for _ in 0..per {
            if rng.chance(2, 3) {
                let s = token_soup(&mut rng);
                loc.bucket(ids.g("a_token_soup"));
                consistency_case(&mut loc, &ids, &s, "arbitrary");
            } else {
                let mut s = gen::random_unicode(&mut rng, 48);
                if rng.chance(1, 3) {
                    // arbitrary text glued to a valid prefix
                    s = format!("{}{}", &"Tue, 1 Jul 2003 10:52:37 +0200"[..rng.below(31) as usize], s);
                }
                loc.bucket(ids.g("a_unicode"));
                consistency_case(&mut loc, &ids, &s, "arbitrary");
            }
        }
    });
}

pub fn run(ctx: &Ctx) -> Outcome {
    let rep = Report::with_bitmap_bits("C11", B, FLOOR, 28);
    for r in [rc::self_test(), ri::self_test(), self_test()] {
        if let Err(e) = r {
            rep.harness_error(e);
            return rep.finish(ctx, "self-test failed", &[]);
        }
    }
    CHRONO_ONLY_NOTES.store(0, std::sync::atomic::Ordering::Relaxed);
    reader_systematic(ctx, &rep);
    writer_walk(ctx, &rep);
    writer_boundary(ctx, &rep);
    reader_weekday_window(ctx, &rep);
    reader_grammar(ctx, &rep);
    reader_arbitrary(ctx, &rep);
    rep.finish(
        ctx,
        "writer: every day of the wall-clock years 0..=9999 with random time/fraction/leap second and whole-minute offset (all 2879 offsets cycled), plus catalogue days x catalogue seconds x strided offsets, each rendered by to_rfc2822 (sampled: Fixed::RFC2822 item, DateTime<Utc>), compared with the reference text and parsed back; reader: strings rendered from a random (value, style) specification of the RFC 2822 date-time grammar using only the freedoms the property lists (optional weekday, 1-2 digit day, name case, 2/3/4/5+ digit years, optional seconds, second 60, numeric/-0000/named/military zones, 0-3 trailing comments with nesting and quoted-pairs, white-space runs where the canonical form has a space), all 2/3-digit years, all zone-name case patterns, all military letters, all numeric whole-minute zones, every day of a window with the right and the six wrong weekdays; the same value with a contradicting weekday; RFC-valid forms the property does not list, single-edit mutations, token soup and arbitrary Unicode are checked for normal return, agreement with an independent lenient reference reader when both accept, and rejection of a contradicting weekday. A reader case is non-trivial if it uses at least one non-canonical choice (distinct = distinct strings); a writer case is non-trivial if day<10, year<1000 or a year/domain boundary, leap second, negative or extreme offset, or UTC year outside 0..=9999 (distinct = distinct (day, second, leap, offset)); mutated/arbitrary strings count when chrono and the reference reader both accept or the reference sees only a weekday contradiction",
        &[
            "R-cal / R-inst are correct (self-tested at start)",
            "the lenient reference reader and the grammar generator are two formulations of RFC 2822 §3.3/§4.3; every generated string is cross-checked between them (disagreement = harness error)",
            "zone letter J is not an RFC 2822 military zone (obs-zone excludes it); nothing is asserted for it",
            "no acceptance claim for white space or comments where the canonical form has no space (leading, around colons, trailing, between tokens) nor for zones >= 24 h; only value-if-accepted",
        ],
    )
}
