//! C03 — adding and subtracting elapsed time is exact or refused, never wrapped.
//! Oracle: R-inst (i128 nanoseconds). Leap-second operands are excluded (they belong to C07).

use crate::gen;
use crate::mon::{guard, h2, par_shards, Ctx, Local, Outcome, Report};
use crate::refcal as rc;
use crate::refinst::{self as ri, RDt, DAY_NS, NS};
use crate::rng::Rng;
use crate::zones::{step_off, StepTz, STEP_T0, STEP_T1};
use chrono::{DateTime, Days, FixedOffset, NaiveDate, NaiveDateTime, TimeDelta, TimeZone, Utc};
use serde_json::json;

const B: &[&str] = &[
    "dt_add_some", "dt_add_none_above", "dt_add_none_below", "dt_add_hits_max_exact", "dt_add_hits_min_exact", "dt_add_max_plus_1ns",
    "dt_add_min_minus_1ns", "dt_delta_extreme", "dt_negative_fraction_delta", "dt_day_carry", "dt_distance_pairs", "dt_distance_full_range",
    "date_days_some", "date_days_none", "date_days_gt_i32", "date_days_u64_max", "date_same_year_fast_path_edge", "date_cross_400y",
    "date_signed_truncation", "date_signed_none", "iter_days_fwd", "iter_days_rev", "iter_weeks_fwd", "iter_weeks_rev", "iter_at_range_end",
    "ops_agree", "ops_std_duration", "zoned_add", "zoned_distance", "zoned_none_at_range_end", "zoned_variable_offset",
];
const FLOOR: &[&str] = B;

fn bi(n: &str) -> usize {
    B.iter().position(|x| *x == n).unwrap()
}

struct Ix {
    add_some: usize, none_above: usize, none_below: usize, hits_max: usize, hits_min: usize, max_p1: usize, min_m1: usize,
    delta_extreme: usize, neg_frac: usize, day_carry: usize, dist_pairs: usize, dist_full: usize, days_some: usize, days_none: usize,
    days_gt_i32: usize, days_u64max: usize, fast_edge: usize, cross400: usize, signed_trunc: usize, signed_none: usize,
    it_df: usize, it_dr: usize, it_wf: usize, it_wr: usize, it_end: usize, ops: usize, ops_std: usize, z_add: usize, z_dist: usize, z_none: usize,
}

fn ix() -> Ix {
    Ix {
        add_some: bi("dt_add_some"), none_above: bi("dt_add_none_above"), none_below: bi("dt_add_none_below"), hits_max: bi("dt_add_hits_max_exact"),
        hits_min: bi("dt_add_hits_min_exact"), max_p1: bi("dt_add_max_plus_1ns"), min_m1: bi("dt_add_min_minus_1ns"), delta_extreme: bi("dt_delta_extreme"),
        neg_frac: bi("dt_negative_fraction_delta"), day_carry: bi("dt_day_carry"), dist_pairs: bi("dt_distance_pairs"), dist_full: bi("dt_distance_full_range"),
        days_some: bi("date_days_some"), days_none: bi("date_days_none"), days_gt_i32: bi("date_days_gt_i32"), days_u64max: bi("date_days_u64_max"),
        fast_edge: bi("date_same_year_fast_path_edge"), cross400: bi("date_cross_400y"), signed_trunc: bi("date_signed_truncation"), signed_none: bi("date_signed_none"),
        it_df: bi("iter_days_fwd"), it_dr: bi("iter_days_rev"), it_wf: bi("iter_weeks_fwd"), it_wr: bi("iter_weeks_rev"), it_end: bi("iter_at_range_end"),
        ops: bi("ops_agree"), ops_std: bi("ops_std_duration"), z_add: bi("zoned_add"), z_dist: bi("zoned_distance"), z_none: bi("zoned_none_at_range_end"),
    }
}

fn show(o: &Option<NaiveDateTime>) -> String {
    format!("{:?}", o)
}

/// a ± d on NaiveDateTime (non-leap a)
fn case_dt_add(loc: &mut Local, x: &Ix, a: RDt, d_ns: i128, sub: bool) {
    let Some(d) = ri::td_from_ns(d_ns) else { return };
    let Some(av) = a.to_chrono() else {
        loc.rep.harness_error(format!("cannot build {:?}", a));
        return;
    };
    loc.eval();
    let target = if sub { a.ns() - d_ns } else { a.ns() + d_ns };
    let exp = if target >= ri::min_ns() && target <= ri::max_ns() { Some(RDt::from_ns(target)) } else { None };
    let entry = if sub { "NaiveDateTime::checked_sub_signed" } else { "NaiveDateTime::checked_add_signed" };
    let input = || json!({"a": format!("{:?}", av), "delta_ns": d_ns.to_string(), "delta": format!("{:?}", d)});
    let got = match guard(|| if sub { av.checked_sub_signed(d) } else { av.checked_add_signed(d) }) {
        Ok(g) => g,
        Err(p) => return loc.violation(&format!("C03/{}/panic@{}", entry, p.site()), json!({"input": input(), "panic": p.to_json()})),
    };
    if let Some(why) = got.and_then(|g| ri::date_defect(&g.date())) {
        return loc.violation(&format!("C03/{}/returned-value-is-not-a-valid-date", entry), json!({"input": input(), "defect": why}));
    }
    let got_r = got.map(|g| RDt::of(&g));
    if got_r != exp {
        let kind = match (got_r, exp) {
            (Some(_), None) => "some-for-unrepresentable",
            (None, Some(_)) => "none-for-representable",
            _ => "wrong-instant",
        };
        loc.violation(&format!("C03/{}/{}", entry, kind), json!({"input": input(), "expected": format!("{:?}", exp), "observed": show(&got)}));
    }
    // buckets
    match exp {
        Some(_) => loc.bucket(x.add_some),
        None => loc.bucket(if target > ri::max_ns() { x.none_above } else { x.none_below }),
    }
    if target == ri::max_ns() {
        loc.bucket(x.hits_max)
    }
    if target == ri::min_ns() {
        loc.bucket(x.hits_min)
    }
    if target == ri::max_ns() + 1 {
        loc.bucket(x.max_p1)
    }
    if target == ri::min_ns() - 1 {
        loc.bucket(x.min_m1)
    }
    if d_ns == ri::TD_MAX_NS || d_ns == ri::TD_MIN_NS {
        loc.bucket(x.delta_extreme)
    }
    if d_ns < 0 && d_ns.rem_euclid(NS) != 0 {
        loc.bucket(x.neg_frac)
    }
    if let Some(e) = exp {
        if e.day != a.day {
            loc.bucket(x.day_carry)
        }
    }
    let nontrivial = exp.is_none() || (target - ri::max_ns()).abs() < 3 * DAY_NS || (target - ri::min_ns()).abs() < 3 * DAY_NS || exp.map(|e| e.day != a.day).unwrap_or(false) || d_ns.abs() <= 1;
    if nontrivial {
        loc.nontrivial(h2(if sub { 2 } else { 1 }, h2(a.ns() as u64, d_ns as u64)));
    }
    loc.sample(|| json!({"op": entry, "a": format!("{:?}", av), "delta": format!("{:?}", d), "result": show(&got)}));

    // operator forms agree with the checked form when that succeeds
    if let Some(g) = got {
        loc.bucket(x.ops);
        let r = guard(|| {
            let o1 = if sub { av - d } else { av + d };
            let mut o2 = av;
            if sub {
                o2 -= d
            } else {
                o2 += d
            }
            (o1, o2)
        });
        match r {
            Ok((o1, o2)) => {
                if o1 != g || o2 != g {
                    loc.violation(&format!("C03/{}/operator-form-differs", entry), json!({"input": input(), "checked": show(&got), "op": format!("{:?}", o1), "op_assign": format!("{:?}", o2)}));
                }
            }
            Err(p) => loc.violation(&format!("C03/{}/operator-panics-though-checked-some@{}", entry, p.site()), json!({"input": input(), "panic": p.to_json()})),
        }
        // std::time::Duration forms (non-negative durations only)
        if d_ns >= 0 {
            if let Ok(sd) = d.to_std() {
                loc.bucket(x.ops_std);
                let r = guard(|| {
                    let o1 = if sub { av - sd } else { av + sd };
                    let mut o2 = av;
                    if sub {
                        o2 -= sd
                    } else {
                        o2 += sd
                    }
                    (o1, o2)
                });
                match r {
                    Ok((o1, o2)) => {
                        if o1 != g || o2 != g {
                            loc.violation(&format!("C03/{}/std-duration-operator-differs", entry), json!({"input": input(), "checked": show(&got), "op": format!("{:?}", o1)}));
                        }
                    }
                    Err(p) => loc.violation(&format!("C03/{}/std-duration-operator-panics@{}", entry, p.site()), json!({"input": input(), "panic": p.to_json()})),
                }
            }
        }
    }
}

/// zone-aware: the same instants whatever the offset
fn case_zoned_add(loc: &mut Local, x: &Ix, a: RDt, off: i64, d_ns: i128, sub: bool) {
    let Some(d) = ri::td_from_ns(d_ns) else { return };
    let Some(av) = a.to_chrono() else { return };
    let Some(fo) = FixedOffset::east_opt(off as i32) else { return };
    loc.eval();
    loc.bucket(x.z_add);
    let z: DateTime<FixedOffset> = fo.from_utc_datetime(&av);
    let u: DateTime<Utc> = Utc.from_utc_datetime(&av);
    let target = if sub { a.ns() - d_ns } else { a.ns() + d_ns };
    let exp = if target >= ri::min_ns() && target <= ri::max_ns() { Some(RDt::from_ns(target)) } else { None };
    if exp.is_none() {
        loc.bucket(x.z_none)
    }
    let entry = if sub { "DateTime::checked_sub_signed" } else { "DateTime::checked_add_signed" };
    let input = || json!({"utc": format!("{:?}", av), "offset": off, "delta_ns": d_ns.to_string()});
    let r = guard(|| if sub { (z.checked_sub_signed(d), u.checked_sub_signed(d)) } else { (z.checked_add_signed(d), u.checked_add_signed(d)) });
    match r {
        Ok((gz, gu)) => {
            let rz = gz.map(|g| RDt::of(&g.naive_utc()));
            let ru = gu.map(|g| RDt::of(&g.naive_utc()));
            if rz != exp || ru != exp {
                loc.violation(&format!("C03/{}/wrong-instant-or-refusal", entry), json!({"input": input(), "expected": format!("{:?}", exp), "fixed_offset": format!("{:?}", rz), "utc": format!("{:?}", ru)}));
            }
            if let Some(g) = gz {
                if g.offset().local_minus_utc() as i64 != off {
                    loc.violation(&format!("C03/{}/offset-changed", entry), json!({"input": input()}));
                }
                // the whole operator family: +, -, +=, -= with TimeDelta and (for non-negative durations)
                // with std::time::Duration, on the zone-aware value
                match guard(|| {
                    let o1 = if sub { z - d } else { z + d };
                    let mut o2 = z;
                    if sub {
                        o2 -= d
                    } else {
                        o2 += d
                    }
                    let std_forms = if d_ns >= 0 {
                        d.to_std().ok().map(|sd| {
                            let s1 = if sub { z - sd } else { z + sd };
                            let mut s2 = z;
                            if sub {
                                s2 -= sd
                            } else {
                                s2 += sd
                            }
                            (s1, s2)
                        })
                    } else {
                        None
                    };
                    (o1, o2, std_forms)
                }) {
                    Ok((o1, o2, sf)) => {
                        let same = |v: &DateTime<FixedOffset>| *v == g && v.naive_utc() == g.naive_utc() && v.offset() == g.offset();
                        if !same(&o1) || !same(&o2) || sf.map(|(a, b)| !same(&a) || !same(&b)).unwrap_or(false) {
                            loc.violation(&format!("C03/{}/operator-form-differs", entry), json!({"input": input(), "checked": format!("{:?}", g.naive_utc()), "op": format!("{:?}", o1.naive_utc()), "op_assign": format!("{:?}", o2.naive_utc()), "std_forms": format!("{:?}", sf.map(|(a, b)| (a.naive_utc(), b.naive_utc())))}));
                        }
                    }
                    Err(p) => loc.violation(&format!("C03/{}/operator-panics-though-checked-some@{}", entry, p.site()), json!({"input": input(), "panic": p.to_json()})),
                }
            }
        }
        Err(p) => loc.violation(&format!("C03/{}/panic@{}", entry, p.site()), json!({"input": input(), "panic": p.to_json()})),
    }
    if exp.is_none() || off.abs() >= 86_000 {
        loc.nontrivial(h2(3, h2(a.ns() as u64, h2(off as u64, d_ns as u64))));
    }
}

/// Elapsed-time arithmetic on a date-time in a zone whose offset varies (`zones::StepTz`): the checked
/// form must give the instant u + δ, and every operator / assigning form must agree with the checked
/// form in everything observable (instant, offset carried, wall clock) — with a constant offset, a form
/// that moves the stored UTC value but keeps the old offset cannot be told apart.
fn case_step_zone(loc: &mut Local, bk: usize, rng: &mut Rng) {
    let t = if rng.chance(1, 2) { STEP_T0 } else { STEP_T1 };
    let u = match rng.below(3) {
        0 => t + rng.range(-7300, 7300),
        1 => t + rng.range(-3 * 86_400, 3 * 86_400),
        _ => t + rng.range(-400, 400) * 86_400 + rng.range(-4000, 4000),
    };
    let delta = match rng.below(3) {
        0 => rng.range(-7300, 7300),
        1 => rng.range(-3 * 86_400, 3 * 86_400),
        _ => rng.range(-400, 400) * 86_400 + rng.range(-4000, 4000),
    };
    let Some(un) = DateTime::from_timestamp(u, 0).map(|d| d.naive_utc()) else { return };
    let dt: DateTime<StepTz> = StepTz.from_utc_datetime(&un);
    loc.eval();
    loc.bucket(bk);
    let (td, ntd) = (TimeDelta::seconds(delta), TimeDelta::seconds(-delta));
    let sd = std::time::Duration::from_secs(delta.unsigned_abs());
    let input = || json!({"utc": u, "delta_s": delta});
    let checked = match guard(|| (dt.checked_add_signed(td), dt.checked_sub_signed(ntd))) {
        Ok((Some(a), Some(b))) => {
            for c in [a, b] {
                if c.timestamp() != u + delta || c.offset().local_minus_utc() != step_off(u + delta) {
                    loc.violation("C03/DateTime<variable-offset zone>::checked_add_signed/wrong-instant-or-offset", json!({"input": input(), "observed_utc": c.timestamp(), "observed_offset": c.offset().local_minus_utc()}));
                }
            }
            a
        }
        Ok(_) => {
            loc.violation("C03/DateTime<variable-offset zone>::checked_add_signed/refused-mid-range", input());
            return;
        }
        Err(p) => {
            loc.violation(&format!("C03/DateTime<variable-offset zone>::checked_add_signed/panic@{}", p.site()), json!({"input": input(), "panic": p.to_json()}));
            return;
        }
    };
    type Form = (&'static str, Box<dyn Fn(DateTime<StepTz>) -> DateTime<StepTz>>);
    let mut forms: Vec<Form> = vec![
        ("add-TimeDelta", Box::new(move |x| x + td)),
        ("sub-TimeDelta", Box::new(move |x| x - ntd)),
        ("add_assign-TimeDelta", Box::new(move |mut x| {
            x += td;
            x
        })),
        ("sub_assign-TimeDelta", Box::new(move |mut x| {
            x -= ntd;
            x
        })),
    ];
    if delta >= 0 {
        forms.push(("add-std-Duration", Box::new(move |x| x + sd)));
        forms.push(("add_assign-std-Duration", Box::new(move |mut x| {
            x += sd;
            x
        })));
    } else {
        forms.push(("sub-std-Duration", Box::new(move |x| x - sd)));
        forms.push(("sub_assign-std-Duration", Box::new(move |mut x| {
            x -= sd;
            x
        })));
    }
    for (name, f) in forms {
        match guard(|| f(dt)) {
            Ok(r) => {
                if r != checked || r.naive_utc() != checked.naive_utc() || r.offset() != checked.offset() || r.naive_local() != checked.naive_local() {
                    loc.violation(
                        &format!("C03/DateTime<variable-offset zone>/{}/operator-form-differs-from-checked-form", name),
                        json!({"input": input(), "checked": format!("{:?} {:?}", checked.naive_utc(), checked.offset()), "operator": format!("{:?} {:?}", r.naive_utc(), r.offset())}),
                    );
                }
            }
            Err(p) => loc.violation(&format!("C03/DateTime<variable-offset zone>/{}/operator-panics-though-checked-some@{}", name, p.site()), json!({"input": input(), "panic": p.to_json()})),
        }
    }
    loc.nontrivial(h2(17, h2(u as u64, delta as u64)));
}

/// `NaiveDateTime ± FixedOffset` and `DateTime<Tz> ± FixedOffset` (shift by the offset's seconds;
/// the operator forms are documented to panic when the result is out of range)
fn case_offset_ops(loc: &mut Local, x: &Ix, a: RDt, off: i64) {
    let (Some(av), Some(fo)) = (a.to_chrono(), FixedOffset::east_opt(off as i32)) else { return };
    loc.eval();
    loc.bucket(x.ops);
    for sub in [false, true] {
        let target = if sub { a.ns() - off as i128 * NS } else { a.ns() + off as i128 * NS };
        let exp = if target >= ri::min_ns() && target <= ri::max_ns() { Some(RDt::from_ns(target)) } else { None };
        let name = if sub { "NaiveDateTime::checked_sub_offset" } else { "NaiveDateTime::checked_add_offset" };
        match guard(|| if sub { av.checked_sub_offset(fo) } else { av.checked_add_offset(fo) }) {
            Ok(g) => {
                if g.map(|v| RDt::of(&v)) != exp {
                    loc.violation(&format!("C03/{}/wrong-instant-or-refusal", name), json!({"a": format!("{:?}", av), "offset": off, "expected": format!("{:?}", exp), "observed": show(&g)}));
                }
                if let Some(gv) = g {
                    match guard(|| {
                        let n1 = if sub { av - fo } else { av + fo };
                        let z = Utc.from_utc_datetime(&av);
                        let z1 = if sub { z - fo } else { z + fo };
                        (n1, z1.naive_utc())
                    }) {
                        Ok((n1, z1)) => {
                            if n1 != gv || z1 != gv {
                                loc.violation(&format!("C03/{}/operator-form-differs", name), json!({"a": format!("{:?}", av), "offset": off, "checked": show(&g), "naive_op": format!("{:?}", n1), "datetime_op": format!("{:?}", z1)}));
                            }
                        }
                        Err(p) => loc.violation(&format!("C03/{}/operator-panics-though-checked-some@{}", name, p.site()), json!({"a": format!("{:?}", av), "offset": off, "panic": p.to_json()})),
                    }
                }
            }
            Err(p) => loc.violation(&format!("C03/{}/panic@{}", name, p.site()), json!({"a": format!("{:?}", av), "offset": off, "panic": p.to_json()})),
        }
    }
    if a.day <= rc::min_day() + 1 || a.day >= rc::max_day() - 1 {
        loc.nontrivial(h2(41, h2(a.ns() as u64, off as u64)));
    }
}

/// a - b, b + (a - b) == a, order follows the distance
fn case_distance(loc: &mut Local, x: &Ix, a: RDt, b: RDt, offs: Option<(i64, i64)>) {
    let (Some(av), Some(bv)) = (a.to_chrono(), b.to_chrono()) else { return };
    loc.eval();
    loc.bucket(x.dist_pairs);
    let exp = a.ns() - b.ns();
    if exp.abs() > (ri::max_ns() - ri::min_ns()) - 400 * DAY_NS {
        loc.bucket(x.dist_full)
    }
    let input = || json!({"a": format!("{:?}", av), "b": format!("{:?}", bv)});
    let got = match guard(|| av.signed_duration_since(bv)) {
        Ok(g) => g,
        Err(p) => return loc.violation(&format!("C03/NaiveDateTime::signed_duration_since/panic@{}", p.site()), json!({"input": input(), "panic": p.to_json()})),
    };
    if ri::td_ns(&got) != exp {
        loc.violation("C03/NaiveDateTime::signed_duration_since/wrong-distance", json!({"input": input(), "expected_ns": exp.to_string(), "observed_ns": ri::td_ns(&got).to_string()}));
    }
    match guard(|| (av - bv, bv.checked_add_signed(got), av.cmp(&bv), av < bv, av == bv)) {
        Ok((op, back, ord, lt, eq)) => {
            if op != got {
                loc.violation("C03/NaiveDateTime::sub/operator-form-differs", json!({"input": input()}));
            }
            if back != Some(av) {
                loc.violation("C03/NaiveDateTime::signed_duration_since/b-plus-difference-is-not-a", json!({"input": input(), "back": show(&back)}));
            }
            let exp_ord = exp.cmp(&0);
            if ord != exp_ord || lt != (exp < 0) || eq != (exp == 0) {
                loc.violation("C03/NaiveDateTime::cmp/order-disagrees-with-distance", json!({"input": input(), "distance_ns": exp.to_string(), "cmp": format!("{:?}", ord)}));
            }
        }
        Err(p) => loc.violation(&format!("C03/NaiveDateTime::sub-or-add-back/panic@{}", p.site()), json!({"input": input(), "panic": p.to_json()})),
    }
    if let Some((oa, ob)) = offs {
        if let (Some(fa), Some(fb)) = (FixedOffset::east_opt(oa as i32), FixedOffset::east_opt(ob as i32)) {
            loc.bucket(x.z_dist);
            let za = fa.from_utc_datetime(&av);
            let zb = fb.from_utc_datetime(&bv);
            // the operator forms by value and by reference (documented to equal signed_duration_since)
            match guard(|| (za - zb, za - &zb)) {
                Ok((o1, o2)) => {
                    if ri::td_ns(&o1) != exp || ri::td_ns(&o2) != exp {
                        loc.violation("C03/DateTime::sub/operator-form-differs-or-depends-on-offset", json!({"input": input(), "offsets": [oa, ob], "expected_ns": exp.to_string(), "by_value_ns": ri::td_ns(&o1).to_string(), "by_reference_ns": ri::td_ns(&o2).to_string()}));
                    }
                }
                Err(p) => loc.violation(&format!("C03/DateTime::sub/panic@{}", p.site()), json!({"input": input(), "offsets": [oa, ob], "panic": p.to_json()})),
            }
            match guard(|| (za.signed_duration_since(zb), za.signed_duration_since(Utc.from_utc_datetime(&bv)), za.cmp(&zb), zb.checked_add_signed(got).map(|v| v == za))) {
                Ok((d1, d2, ord, back)) => {
                    if ri::td_ns(&d1) != exp || ri::td_ns(&d2) != exp || ord != exp.cmp(&0) || back != Some(true) {
                        loc.violation("C03/DateTime::signed_duration_since/depends-on-offset", json!({"input": input(), "offsets": [oa, ob], "expected_ns": exp.to_string(), "observed_ns": ri::td_ns(&d1).to_string()}));
                    }
                }
                Err(p) => loc.violation(&format!("C03/DateTime::signed_duration_since/panic@{}", p.site()), json!({"input": input(), "offsets": [oa, ob], "panic": p.to_json()})),
            }
        }
    }
    if exp.abs() < 2 * DAY_NS || a.day == rc::min_day() || a.day == rc::max_day() || b.day == rc::min_day() || b.day == rc::max_day() {
        loc.nontrivial(h2(4, h2(a.ns() as u64, b.ns() as u64)));
    }
}

/// NaiveDate ± Days(n)
fn case_date_days(loc: &mut Local, x: &Ix, day: i64, n: u64, sub: bool) {
    let Some(dv) = NaiveDate::from_num_days_from_ce_opt(day as i32) else { return };
    loc.eval();
    let target: i128 = if sub { day as i128 - n as i128 } else { day as i128 + n as i128 };
    let exp = if target >= rc::min_day() as i128 && target <= rc::max_day() as i128 { Some(target as i64) } else { None };
    let entry = if sub { "NaiveDate::checked_sub_days" } else { "NaiveDate::checked_add_days" };
    let input = || json!({"date": dv.to_string(), "day_number": day, "days": n.to_string()});
    let got = match guard(|| if sub { dv.checked_sub_days(Days::new(n)) } else { dv.checked_add_days(Days::new(n)) }) {
        Ok(g) => g,
        Err(p) => return loc.violation(&format!("C03/{}/panic@{}", entry, p.site()), json!({"input": input(), "panic": p.to_json()})),
    };
    if let Some(why) = got.and_then(|g| ri::date_defect(&g)) {
        return loc.violation(&format!("C03/{}/returned-value-is-not-a-valid-date", entry), json!({"input": input(), "defect": why}));
    }
    let got_n = got.map(|g| g_days(&g));
    if got_n != exp {
        let kind = match (got_n, exp) {
            (Some(_), None) => "some-for-unrepresentable",
            (None, Some(_)) => "none-for-representable",
            _ => "wrong-date",
        };
        loc.violation(&format!("C03/{}/{}", entry, kind), json!({"input": input(), "expected_day_number": exp, "observed": got.map(|g| g.to_string())}));
    }
    loc.bucket(if exp.is_some() { x.days_some } else { x.days_none });
    if n > i32::MAX as u64 {
        loc.bucket(x.days_gt_i32)
    }
    if n == u64::MAX {
        loc.bucket(x.days_u64max)
    }
    if let Some(t) = exp {
        let (y0, o0) = rc::yo_from_days(day);
        let (y1, o1) = rc::yo_from_days(t);
        if y0 != y1 && (o1 <= 2 || o1 >= 365) || y0 == y1 && (o1 == 1 || o1 == rc::days_in_year(y1)) || o0 >= 365 {
            loc.bucket(x.fast_edge)
        }
        if y0.div_euclid(400) != y1.div_euclid(400) {
            loc.bucket(x.cross400)
        }
        // operator forms and the NaiveDateTime / iterator-free equivalents
        let r = guard(|| {
            let o = if sub { dv - Days::new(n) } else { dv + Days::new(n) };
            let ndt = dv.and_hms_opt(12, 34, 56).unwrap();
            let o2 = if sub { ndt.checked_sub_days(Days::new(n)) } else { ndt.checked_add_days(Days::new(n)) };
            // the operator form on NaiveDateTime as well
            let o3 = if sub { ndt - Days::new(n) } else { ndt + Days::new(n) };
            (o, if Some(o3) == o2 { o2 } else { None })
        });
        match r {
            Ok((o, o2)) => {
                if Some(o) != got || o2.map(|v| (g_days(&v.date()), v.time())) != got.map(|g| (g_days(&g), dv.and_hms_opt(12, 34, 56).unwrap().time())) {
                    loc.violation(&format!("C03/{}/operator-or-datetime-form-differs", entry), json!({"input": input(), "op": o.to_string(), "datetime_form": format!("{:?}", o2)}));
                }
            }
            Err(p) => loc.violation(&format!("C03/{}/operator-panics-though-checked-some@{}", entry, p.site()), json!({"input": input(), "panic": p.to_json()})),
        }
    }
    if exp.is_none() || n <= 1 || exp.map(|t| (t - rc::max_day()).abs() < 3 || (t - rc::min_day()).abs() < 3).unwrap_or(false) {
        loc.nontrivial(h2(if sub { 6 } else { 5 }, h2(day as u64, n)));
    }
}

fn g_days(d: &NaiveDate) -> i64 {
    use chrono::Datelike;
    d.num_days_from_ce() as i64
}

/// NaiveDate ± TimeDelta: whole days, truncated toward zero
fn case_date_signed(loc: &mut Local, x: &Ix, day: i64, d_ns: i128, sub: bool) {
    let Some(d) = ri::td_from_ns(d_ns) else { return };
    let Some(dv) = NaiveDate::from_num_days_from_ce_opt(day as i32) else { return };
    loc.eval();
    let whole = d_ns / DAY_NS; // truncation toward zero
    if d_ns % DAY_NS != 0 {
        loc.bucket(x.signed_trunc)
    }
    let target = if sub { day as i128 - whole } else { day as i128 + whole };
    let exp = if target >= rc::min_day() as i128 && target <= rc::max_day() as i128 { Some(target as i64) } else { None };
    if exp.is_none() {
        loc.bucket(x.signed_none)
    }
    let entry = if sub { "NaiveDate::checked_sub_signed" } else { "NaiveDate::checked_add_signed" };
    let input = || json!({"date": dv.to_string(), "delta_ns": d_ns.to_string()});
    let got = match guard(|| if sub { dv.checked_sub_signed(d) } else { dv.checked_add_signed(d) }) {
        Ok(g) => g,
        Err(p) => return loc.violation(&format!("C03/{}/panic@{}", entry, p.site()), json!({"input": input(), "panic": p.to_json()})),
    };
    if let Some(why) = got.and_then(|g| ri::date_defect(&g)) {
        return loc.violation(&format!("C03/{}/returned-value-is-not-a-valid-date", entry), json!({"input": input(), "defect": why}));
    }
    if got.map(|g| g_days(&g)) != exp {
        loc.violation(&format!("C03/{}/wrong-date-or-refusal", entry), json!({"input": input(), "expected_day_number": exp, "observed": got.map(|g| g.to_string())}));
    }
    if let Some(g) = got {
        match guard(|| {
            let o = if sub { dv - d } else { dv + d };
            let mut o2 = dv;
            if sub {
                o2 -= d
            } else {
                o2 += d
            }
            (o, o2)
        }) {
            Ok((o, o2)) => {
                if o != g || o2 != g {
                    loc.violation(&format!("C03/{}/operator-form-differs", entry), json!({"input": input()}));
                }
            }
            Err(p) => loc.violation(&format!("C03/{}/operator-panics-though-checked-some@{}", entry, p.site()), json!({"input": input(), "panic": p.to_json()})),
        }
        // date difference: exact whole days
        match guard(|| (g.signed_duration_since(dv), g - dv)) {
            Ok((dd, dd2)) => {
                let e = (g_days(&g) - day) as i128 * DAY_NS;
                if ri::td_ns(&dd) != e || dd2 != dd {
                    loc.violation("C03/NaiveDate::signed_duration_since/wrong-distance", json!({"a": g.to_string(), "b": dv.to_string(), "observed_ns": ri::td_ns(&dd).to_string()}));
                }
            }
            Err(p) => loc.violation(&format!("C03/NaiveDate::signed_duration_since/panic@{}", p.site()), json!({"a": g.to_string(), "b": dv.to_string(), "panic": p.to_json()})),
        }
    }
    if exp.is_none() || d_ns % DAY_NS != 0 && (d_ns % DAY_NS).abs() < 2 {
        loc.nontrivial(h2(7, h2(day as u64, d_ns as u64)));
    }
}

/// iterators: arithmetic progression, exact size hint, stop only at the range limit, fused
fn case_iter(loc: &mut Local, x: &Ix, day: i64, take: usize) {
    let Some(dv) = NaiveDate::from_num_days_from_ce_opt(day as i32) else { return };
    let (min, max) = (rc::min_day(), rc::max_day());
    for (weeks, rev) in [(false, false), (false, true), (true, false), (true, true)] {
        loc.eval();
        let step: i64 = if weeks { 7 } else { 1 };
        // an item is produced iff the next step stays in range
        let avail = if rev { (day - min) / step } else { (max - day) / step };
        let name = match (weeks, rev) {
            (false, false) => "iter_days",
            (false, true) => "iter_days.rev",
            (true, false) => "iter_weeks",
            (true, true) => "iter_weeks.rev",
        };
        loc.bucket(match (weeks, rev) {
            (false, false) => x.it_df,
            (false, true) => x.it_dr,
            (true, false) => x.it_wf,
            (true, true) => x.it_wr,
        });
        if (avail as usize) <= take {
            loc.bucket(x.it_end)
        }
        let r = guard(|| {
            let mut errs: Vec<String> = Vec::new();
            macro_rules! drive {
                ($it:expr) => {{
                    let mut it = $it;
                    if !rev {
                        let (lo, hi) = it.size_hint();
                        if lo as i64 != avail || hi != Some(avail as usize) || it.len() as i64 != avail {
                            errs.push(format!("size_hint {:?} / len {} but {} items remain", (lo, hi), it.len(), avail));
                        }
                    }
                    let mut k: i64 = 0;
                    loop {
                        if k as usize > take {
                            break;
                        }
                        let item = if rev { it.next_back() } else { it.next() };
                        match item {
                            Some(d) => {
                                let e = if rev { day - k * step } else { day + k * step };
                                if g_days(&d) != e {
                                    errs.push(format!("item {} is {} (day {}), expected day {}", k, d, g_days(&d), e));
                                    break;
                                }
                                if k >= avail {
                                    errs.push(format!("item {} produced although only {} items fit in the range", k, avail));
                                    break;
                                }
                                if !rev {
                                    let (lo, hi) = it.size_hint();
                                    if lo as i64 != avail - k - 1 || hi != Some((avail - k - 1) as usize) {
                                        errs.push(format!("size_hint after {} items: {:?}, expected {}", k + 1, (lo, hi), avail - k - 1));
                                        break;
                                    }
                                }
                                k += 1;
                            }
                            None => {
                                if k != avail {
                                    errs.push(format!("stopped after {} items, {} fit in the range", k, avail));
                                }
                                // fused
                                for _ in 0..3 {
                                    let again = if rev { it.next_back() } else { it.next() };
                                    if again.is_some() {
                                        errs.push("yields again after None".to_string());
                                    }
                                }
                                break;
                            }
                        }
                    }
                }};
            }
            if weeks {
                drive!(dv.iter_weeks())
            } else {
                drive!(dv.iter_days())
            }
            errs
        });
        match r {
            Ok(errs) => {
                for e in errs {
                    loc.violation(&format!("C03/NaiveDate::{}/progression-or-length", name), json!({"start": dv.to_string(), "day_number": day, "problem": e}));
                }
            }
            Err(p) => loc.violation(&format!("C03/NaiveDate::{}/panic@{}", name, p.site()), json!({"start": dv.to_string(), "panic": p.to_json()})),
        }
        if (avail as usize) <= take {
            loc.nontrivial(h2(8, h2(day as u64, weeks as u64 * 2 + rev as u64)));
        }
    }
}

fn delta_catalogue(a: RDt) -> Vec<i128> {
    let to_max = ri::max_ns() - a.ns();
    let to_min = ri::min_ns() - a.ns();
    let mut v: Vec<i128> = vec![
        0, 1, -1, 999_999_999, -999_999_999, NS, -NS, NS + 1, -NS - 1, DAY_NS - 1, -(DAY_NS - 1), DAY_NS, -DAY_NS, DAY_NS + 1, -DAY_NS - 1,
        (86_400 - a.secs) as i128 * NS - a.frac as i128, // exactly next midnight
        -(a.secs as i128 * NS + a.frac as i128),          // exactly this midnight
        -(a.secs as i128 * NS + a.frac as i128) - 1,      // 1 ns before midnight
        365 * DAY_NS, 366 * DAY_NS, 146_097 * DAY_NS, -146_097 * DAY_NS, ri::TD_MAX_NS, ri::TD_MIN_NS, ri::TD_MAX_NS - 1, ri::TD_MIN_NS + 1,
    ];
    // whole-day counts at the 32-bit narrowing boundaries (a day count that wraps lands in range)
    for e in [1i128 << 31, -(1i128 << 31), 1i128 << 32, -(1i128 << 32), (1i128 << 32) + 10, -(1i128 << 32) - 10, (1i128 << 33) - 365] {
        for k in [-DAY_NS, -1, 0, 1, DAY_NS] {
            v.push(e * DAY_NS + k);
        }
    }
    for k in [-2i128, -1, 0, 1, 2] {
        v.push(to_max + k);
        v.push(to_min + k);
        v.push(-(to_max + k));
        v.push(-(to_min + k));
    }
    v
}

fn random_delta(rng: &mut Rng) -> i128 {
    match rng.below(9) {
        0 => rng.range(-2_000_000_000, 2_000_000_000) as i128,
        1 => rng.range(-200_000, 200_000) as i128 * NS + rng.range(-999_999_999, 999_999_999) as i128,
        2 => rng.log_i64(63) as i128,
        3 => rng.log_i64(63) as i128 * 1000,
        4 => rng.range128(ri::TD_MIN_NS, ri::TD_MAX_NS),
        5 => rng.range(-400 * 366, 400 * 366) as i128 * DAY_NS + rng.range(-1, 1) as i128,
        6 => rng.range128(-(ri::max_ns() - ri::min_ns()), ri::max_ns() - ri::min_ns()),
        7 => rng.range(-100, 100) as i128 * DAY_NS + rng.range(-5, 5) as i128,
        _ => {
            // multiples of 2^31 / 2^32 days plus a short distance: must be refused, not wrapped
            let m = *rng.pick(&[1i128 << 31, -(1i128 << 31), 1i128 << 32, -(1i128 << 32), 3i128 << 32, -(5i128 << 32)]);
            (m + rng.range(-800_000, 800_000) as i128) * DAY_NS + rng.range(-1, 1) as i128 * rng.range(0, 86_399_999_999_999) as i128
        }
    }
}

pub fn run(ctx: &Ctx) -> Outcome {
    let rep = Report::new("C03", B, FLOOR);
    if let Err(e) = rc::self_test().and_then(|_| ri::self_test()) {
        rep.harness_error(e);
        return rep.finish(ctx, "self-test failed", &[]);
    }
    let x = ix();
    let cat_days = gen::catalogue_days();
    let cat_secs = gen::catalogue_secs();
    let cat_off = gen::catalogue_offsets();

    // 1. catalogue operands x catalogue deltas (both directions), NaiveDateTime and zoned
    let chunks: Vec<&[i64]> = cat_days.chunks(8).collect();
    par_shards(&rep, ctx.threads, chunks.len(), |i| {
        let mut loc = rep.local();
        for &day in chunks[i] {
            for &secs in &cat_secs {
                for frac in [0i64, 1, 500_000_000, 999_999_999] {
                    let a = RDt::new(day, secs, frac);
                    for d in delta_catalogue(a) {
                        case_dt_add(&mut loc, &x, a, d, false);
                        case_dt_add(&mut loc, &x, a, d, true);
                    }
                }
            }
            for &off in &[-86_399i64, -3600, -1, 0, 1, 1800, 86_399] {
                for secs in [0i64, 3599, 43_200, 86_399] {
                    case_offset_ops(&mut loc, &x, RDt::new(day, secs, 999_999_999), off);
                }
            }
            // zoned, a few offsets incl. the extremes
            let a = RDt::new(day, 43_200, 1);
            for &off in &[-86_399i64, -3600, 0, 1, 19_800, 86_399] {
                for d in delta_catalogue(a) {
                    case_zoned_add(&mut loc, &x, a, off, d, false);
                    case_zoned_add(&mut loc, &x, a, off, d, true);
                }
            }
            // dates: day counts
            let to_max = (rc::max_day() - day) as u64;
            let to_min = (day - rc::min_day()) as u64;
            let (_, o) = rc::yo_from_days(day);
            let (y, _) = rc::yo_from_days(day);
            let to_year_end = (rc::days_in_year(y) - o) as u64;
            for n in [0u64, 1, 2, 6, 7, 28, 31, 365, 366, to_year_end, to_year_end + 1, (o - 1) as u64, o as u64, 146_096, 146_097, 146_098, to_max, to_max + 1, to_max.saturating_sub(1), to_min, to_min + 1,
                      to_min.saturating_sub(1), i32::MAX as u64 - 1, i32::MAX as u64, i32::MAX as u64 + 1, u32::MAX as u64, u32::MAX as u64 + 1, 1 << 40, u64::MAX - 1, u64::MAX] {
                case_date_days(&mut loc, &x, day, n, false);
                case_date_days(&mut loc, &x, day, n, true);
            }
            for d in delta_catalogue(RDt::new(day, 0, 0)) {
                case_date_signed(&mut loc, &x, day, d, false);
                case_date_signed(&mut loc, &x, day, d, true);
            }
            for k in [-2i128, -1, 1, 2, 3] {
                for e in [-1i128, 0, 1] {
                    case_date_signed(&mut loc, &x, day, k * DAY_NS + e, false);
                    case_date_signed(&mut loc, &x, day, k * DAY_NS + e, true);
                }
            }
        }
    });

    // 1b. zone-aware values stepped by whole days (UTC, where wall clock and instant coincide):
    //     results landing exactly on MAX_UTC / MIN_UTC, one step beyond, and far inside
    {
        let mut loc = rep.local();
        let (minn, maxn) = (NaiveDateTime::MIN, NaiveDateTime::MAX);
        for n in [1u64, 2, 7, 30, 365, 366, 146_097, 1_000_000] {
            for (base, fwd) in [(maxn, true), (minn, false)] {
                for extra in [0u64, 1] {
                    // start n days inside, step n (+extra) days towards the end
                    let start = if fwd { base.checked_sub_days(Days::new(n)) } else { base.checked_add_days(Days::new(n)) };
                    let Some(start) = start else { continue };
                    let step = Days::new(n + extra);
                    let dt = Utc.from_utc_datetime(&start);
                    loc.eval();
                    loc.bucket(x.z_add);
                    let exp = if extra == 0 { Some(base) } else { None };
                    if exp.is_none() {
                        loc.bucket(x.z_none)
                    }
                    let name = if fwd { "DateTime<Utc>::checked_add_days" } else { "DateTime<Utc>::checked_sub_days" };
                    match guard(|| if fwd { dt.checked_add_days(step) } else { dt.checked_sub_days(step) }) {
                        Ok(g) => {
                            if g.map(|v| v.naive_utc()) != exp {
                                loc.violation(
                                    &format!("C03/{}/{}", name, if exp.is_some() { "none-for-result-exactly-at-range-end" } else { "some-beyond-range-end" }),
                                    json!({"start": format!("{:?}", start), "days": n + extra, "expected": format!("{:?}", exp), "observed": format!("{:?}", g.map(|v| v.naive_utc()))}),
                                );
                            }
                            if let (Some(v), true) = (g, exp.is_some()) {
                                if let Ok(o) = guard(|| if fwd { dt + step } else { dt - step }) {
                                    if o != v {
                                        loc.violation(&format!("C03/{}/operator-form-differs", name), json!({"start": format!("{:?}", start), "days": n}));
                                    }
                                }
                            }
                        }
                        Err(p) => loc.violation(&format!("C03/{}/panic@{}", name, p.site()), json!({"start": format!("{:?}", start), "days": n + extra, "panic": p.to_json()})),
                    }
                    loc.nontrivial(h2(31, h2(n + extra, fwd as u64)));
                }
            }
        }
    }

    // 2. iterators: near both range ends (run to exhaustion) and from catalogue/random dates (bounded prefix)
    {
        let take = ctx.tier.pick(400usize, 4000usize);
        let mut starts: Vec<i64> = Vec::new();
        for k in 0..40 {
            starts.push(rc::max_day() - k);
            starts.push(rc::min_day() + k);
        }
        starts.extend(cat_days.iter().copied());
        let chunks: Vec<&[i64]> = starts.chunks(16).collect();
        par_shards(&rep, ctx.threads, chunks.len(), |i| {
            let mut loc = rep.local();
            for &d in chunks[i] {
                case_iter(&mut loc, &x, d, take);
            }
        });
    }

    // 3. all ordered pairs of catalogue + random date-times: distances
    {
        let n_vals = ctx.tier.pick(1500usize, 5000usize);
        let mut rng = Rng::new(ctx.seed, "C03/pairs", 0);
        let mut vals: Vec<RDt> = vec![RDt::from_ns(ri::min_ns()), RDt::from_ns(ri::max_ns()), RDt::from_ns(ri::min_ns() + 1), RDt::from_ns(ri::max_ns() - 1), RDt::from_ns(ri::epoch_ns())];
        for (i, &d) in cat_days.iter().enumerate() {
            if vals.len() < n_vals / 2 {
                vals.push(RDt::new(d, cat_secs[i % cat_secs.len()], [0, 1, 999_999_999, 123_456_789][i % 4]));
            }
        }
        while vals.len() < n_vals {
            vals.push(gen::random_rdt(&mut rng, &cat_days));
        }
        let vals = &vals;
        par_shards(&rep, ctx.threads, vals.len(), |i| {
            let mut loc = rep.local();
            let mut rng = Rng::new(ctx.seed, "C03/pairs-off", i as u64);
            for (j, b) in vals.iter().enumerate() {
                let offs = if (i + j) % 5 == 0 { Some((gen::random_offset(&mut rng, &cat_off), gen::random_offset(&mut rng, &cat_off))) } else { None };
                case_distance(&mut loc, &x, vals[i], *b, offs);
            }
        });
    }

    // 4. random
    let total = ctx.n(3_000_000, 400_000_000);
    let n_shards = 128usize;
    let per = total / n_shards as u64;
    par_shards(&rep, ctx.threads, n_shards, |shard| {
        let mut rng = Rng::new(ctx.seed, "C03/random", shard as u64);
        let mut loc = rep.local();
        for _ in 0..per {
            let a = gen::random_rdt(&mut rng, &cat_days);
            match rng.below(10) {
                0..=3 => {
                    let d = if rng.chance(1, 6) { *rng.pick(&delta_catalogue(a)) } else { random_delta(&mut rng) };
                    case_dt_add(&mut loc, &x, a, d, rng.chance(1, 2));
                }
                4 => {
                    let d = if rng.chance(1, 4) { *rng.pick(&delta_catalogue(a)) } else { random_delta(&mut rng) };
                    case_zoned_add(&mut loc, &x, a, gen::random_offset(&mut rng, &cat_off), d, rng.chance(1, 2));
                }
                5..=6 => {
                    let n = match rng.below(6) {
                        0 => rng.below(800),
                        1 => rng.log_u64(64),
                        2 => (rc::max_day() - a.day) as u64 + rng.below(3),
                        3 => ((a.day - rc::min_day()) as u64 + rng.below(3)).saturating_sub(1),
                        4 => rng.below(200_000_000),
                        _ => i32::MAX as u64 - 2 + rng.below(5),
                    };
                    case_date_days(&mut loc, &x, a.day, n, rng.chance(1, 2));
                }
                7 => case_date_signed(&mut loc, &x, a.day, random_delta(&mut rng), rng.chance(1, 2)),
                8 => {
                    // independent pairs, and pairs less than two seconds apart (order within one second)
                    let near = RDt::from_ns((a.ns() + rng.range(-2_000_000_000, 2_000_000_000) as i128).clamp(ri::min_ns(), ri::max_ns()));
                    let b = if rng.chance(1, 3) { near } else { gen::random_rdt(&mut rng, &cat_days) };
                    case_distance(&mut loc, &x, a, b, Some((gen::random_offset(&mut rng, &cat_off), gen::random_offset(&mut rng, &cat_off))));
                }
                _ => {
                    if rng.chance(1, 50) {
                        case_iter(&mut loc, &x, a.day, 50);
                    } else if rng.chance(1, 4) {
                        case_step_zone(&mut loc, bi("zoned_variable_offset"), &mut rng);
                    }
                }
            }
        }
    });
    rep.finish(
        ctx,
        "catalogue date-times (range ends, year ends, leap days, cycle edges, epoch, ns-window edges × 20 seconds × 4 fractions) × per-operand delta catalogue (0, ±1 ns, ±1 s, ±1 day ∓ 1 ns, exact distance to MIN/MAX ±2 ns, to midnight, 400-year cycle, TimeDelta::MIN/MAX) in both directions, same on zone-aware values with 6 offsets; date ± Days(n) for 30 boundary counts up to u64::MAX; date ± TimeDelta with truncation; iterators from 80 dates at the range ends (to exhaustion) and catalogue dates (bounded prefix); all ordered pairs of N date-times for the distance laws; plus random draws of all of these. Non-trivial: result refused, within 3 days of a range end, crossing a day boundary, |delta| ≤ 1 ns, or iterator reaching the range end; distinct = distinct (operation, operand, argument) (hashed bitmap)",
        &["R-cal/R-inst oracles (self-tested each run)", "operands are non-leap-second values (leap seconds are C07's)"],
    )
}
