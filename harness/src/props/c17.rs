//! C17 — rounding and truncation land on the right multiple (src/round.rs).
//!
//! Oracle: i128 arithmetic on the wall-clock nanosecond count `t` since the Unix epoch and the
//! span `s`: trunc = floor(t/s)*s, up = ceil(t/s)*s, round = the nearer of the two, ties up. The
//! expected instant is that wall value minus the offset. Failure is expected exactly for s <= 0,
//! s not expressible as i64 nanoseconds, and wall timestamps outside i64 nanoseconds; never a
//! panic. `round_subsecs`/`trunc_subsecs`: the same within the second with span
//! 10^(9-min(d,9)), carrying into the next second (leaving a leap second when the carry reaches
//! :61).
//!
//! Inputs are built from integers through chrono's plain constructors and results are read back
//! through accessors (`RDt::of`); chrono's `naive_local`, `timestamp_nanos_opt`, `%` and TimeDelta
//! arithmetic are never used on the oracle side.

use crate::gen;
use crate::mon::{guard, h2, par_shards, Ctx, Local, Outcome, PanicInfo, Report};
use crate::refcal as rc;
use crate::refinst::{self as ri, RDt, NS};
use crate::rng::Rng;
use chrono::{DateTime, DurationRound, FixedOffset, NaiveDateTime, Offset, RoundingError, SubsecRound, TimeDelta, TimeZone, Utc};
use serde_json::{json, Value};

const B: &[&str] = &[
    // DurationRound: stamp / remainder classes (value oracle applied)
    "neg_stamp", "pos_stamp", "zero_stamp", "exact_multiple", "tie_exact", "tie_minus_1ns", "tie_plus_1ns", "multiple_plus_1ns",
    "multiple_minus_1ns", "round_goes_down", "round_goes_up", "span_gt_abs_stamp", "span_not_dividing_day", "span_1ns", "span_i64_max",
    "span_odd", "window_min_edge_ok", "window_max_edge_ok", "result_outside_window", "offset_nonzero", "offset_changes_multiple",
    "op_trunc", "op_round", "op_round_up", "type_naive", "type_utc", "type_fixed", "idempotence_checked",
    // DurationRound: failure classes
    "err_span_zero", "err_span_negative", "err_span_too_long", "err_stamp_below_window", "err_stamp_above_window", "err_span_and_stamp",
    "window_edge_first_outside", "wall_utc_fit_disagree", "wall_outside_naive_range", "leap_input_no_panic",
    // SubsecRound
    "subsec_trunc", "subsec_round", "subsec_unchanged_multiple", "subsec_round_down", "subsec_round_up", "subsec_tie", "subsec_carry_second",
    "subsec_carry_minute", "subsec_carry_day", "subsec_digits_0", "subsec_digits_1_to_8", "subsec_digits_9", "subsec_digits_gt_9",
    "subsec_digits_u16_max", "subsec_all_digit_counts_walk", "subsec_leap_within", "subsec_leap_carry_out", "subsec_unrepresentable_at_max",
    "subsec_fixed_wall_outside_naive_range", "subsec_type_naive", "subsec_type_utc", "subsec_type_fixed",
];
const FLOOR: &[&str] = B;

fn bi(n: &str) -> usize {
    B.iter().position(|x| *x == n).unwrap()
}

struct Ix {
    neg: usize, pos: usize, zero: usize, mult: usize, tie: usize, tie_m1: usize, tie_p1: usize, mult_p1: usize, mult_m1: usize,
    rdown: usize, rup: usize, span_gt: usize, span_nodiv: usize, span1: usize, span_max: usize, span_odd: usize, wmin_ok: usize,
    wmax_ok: usize, res_out: usize, off_nz: usize, off_changes: usize, op: [usize; 3], t_naive: usize, t_utc: usize, t_fixed: usize,
    idem: usize, e_zero: usize, e_neg: usize, e_long: usize, e_below: usize, e_above: usize, e_both: usize, edge_out: usize,
    disagree: usize, wall_out: usize, leap: usize,
    s_trunc: usize, s_round: usize, s_unch: usize, s_down: usize, s_up: usize, s_tie: usize, s_csec: usize, s_cmin: usize, s_cday: usize,
    s_d0: usize, s_d18: usize, s_d9: usize, s_dgt9: usize, s_dmax: usize, s_walk: usize, s_leap_in: usize, s_leap_out: usize,
    s_unrep: usize, s_wall_out: usize, s_naive: usize, s_utc: usize, s_fixed: usize,
}

fn ix() -> Ix {
    Ix {
        neg: bi("neg_stamp"), pos: bi("pos_stamp"), zero: bi("zero_stamp"), mult: bi("exact_multiple"), tie: bi("tie_exact"),
        tie_m1: bi("tie_minus_1ns"), tie_p1: bi("tie_plus_1ns"), mult_p1: bi("multiple_plus_1ns"), mult_m1: bi("multiple_minus_1ns"),
        rdown: bi("round_goes_down"), rup: bi("round_goes_up"), span_gt: bi("span_gt_abs_stamp"), span_nodiv: bi("span_not_dividing_day"),
        span1: bi("span_1ns"), span_max: bi("span_i64_max"), span_odd: bi("span_odd"), wmin_ok: bi("window_min_edge_ok"),
        wmax_ok: bi("window_max_edge_ok"), res_out: bi("result_outside_window"), off_nz: bi("offset_nonzero"),
        off_changes: bi("offset_changes_multiple"), op: [bi("op_trunc"), bi("op_round"), bi("op_round_up")], t_naive: bi("type_naive"),
        t_utc: bi("type_utc"), t_fixed: bi("type_fixed"), idem: bi("idempotence_checked"), e_zero: bi("err_span_zero"),
        e_neg: bi("err_span_negative"), e_long: bi("err_span_too_long"), e_below: bi("err_stamp_below_window"),
        e_above: bi("err_stamp_above_window"), e_both: bi("err_span_and_stamp"), edge_out: bi("window_edge_first_outside"),
        disagree: bi("wall_utc_fit_disagree"), wall_out: bi("wall_outside_naive_range"), leap: bi("leap_input_no_panic"),
        s_trunc: bi("subsec_trunc"), s_round: bi("subsec_round"), s_unch: bi("subsec_unchanged_multiple"), s_down: bi("subsec_round_down"),
        s_up: bi("subsec_round_up"), s_tie: bi("subsec_tie"), s_csec: bi("subsec_carry_second"), s_cmin: bi("subsec_carry_minute"),
        s_cday: bi("subsec_carry_day"), s_d0: bi("subsec_digits_0"), s_d18: bi("subsec_digits_1_to_8"), s_d9: bi("subsec_digits_9"),
        s_dgt9: bi("subsec_digits_gt_9"), s_dmax: bi("subsec_digits_u16_max"), s_walk: bi("subsec_all_digit_counts_walk"),
        s_leap_in: bi("subsec_leap_within"), s_leap_out: bi("subsec_leap_carry_out"), s_unrep: bi("subsec_unrepresentable_at_max"),
        s_wall_out: bi("subsec_fixed_wall_outside_naive_range"), s_naive: bi("subsec_type_naive"), s_utc: bi("subsec_type_utc"),
        s_fixed: bi("subsec_type_fixed"),
    }
}

// ------------------------------------------------------------------------------------------------
// The oracle
// ------------------------------------------------------------------------------------------------

#[derive(Clone, Copy, PartialEq, Eq, Debug)]
enum Op {
    Trunc = 0,
    Round = 1,
    Up = 2,
}
const OPS: [Op; 3] = [Op::Trunc, Op::Round, Op::Up];

impl Op {
    fn name(self) -> &'static str {
        match self {
            Op::Trunc => "duration_trunc",
            Op::Round => "duration_round",
            Op::Up => "duration_round_up",
        }
    }
}

/// The multiple of `s` (> 0) the operation must land on, for the epoch-relative count `t`.
fn oracle(t: i128, s: i128, op: Op) -> i128 {
    let below = t.div_euclid(s) * s; // greatest multiple not after t
    let r = t - below; // 0 <= r < s
    if r == 0 {
        return t;
    }
    let above = below + s; // least multiple not before t
    match op {
        Op::Trunc => below,
        Op::Up => above,
        Op::Round => {
            if above - t <= t - below {
                above
            } else {
                below
            }
        }
    }
}

/// ns since the Unix epoch of the i64-nanosecond window and of NaiveDateTime's range
const W_MIN: i128 = i64::MIN as i128;
const W_MAX: i128 = i64::MAX as i128;
fn r_min() -> i128 {
    ri::min_ns() - ri::epoch_ns()
}
fn r_max() -> i128 {
    ri::max_ns() - ri::epoch_ns()
}
fn fits(t: i128) -> bool {
    (W_MIN..=W_MAX).contains(&t)
}

/// Reference sub-second rounding/truncation on (day, secs, frac) with frac >= 1e9 = leap second.
/// The result may lie one second past the representable range (caller checks).
fn subsec_oracle(r: RDt, digits: u16, round: bool) -> RDt {
    let mut span: i64 = 1;
    for _ in 0..(9 - (digits.min(9) as u32)) {
        span *= 10;
    }
    let base = if r.frac >= NS as i64 { NS as i64 } else { 0 };
    let f = r.frac - base;
    let rem = f % span;
    if rem == 0 {
        return r;
    }
    let down = RDt::new(r.day, r.secs, r.frac - rem);
    if !round {
        return down;
    }
    let up = span - rem;
    if up <= rem {
        if f + up == NS as i64 {
            // carry: the second after this one (for a leap second: the second after :60)
            RDt::from_ns(RDt::new(r.day, r.secs, 0).ns() + NS)
        } else {
            RDt::new(r.day, r.secs, r.frac + up)
        }
    } else {
        down
    }
}

fn self_test() -> Result<(), String> {
    // the statement's own vocabulary on small numbers
    let cases: [(i128, i128, i128, i128, i128); 12] = [
        // t, s, trunc, round, up
        (0, 10, 0, 0, 0),
        (1, 10, 0, 0, 10),
        (4, 10, 0, 0, 10),
        (5, 10, 0, 10, 10),
        (6, 10, 0, 10, 10),
        (10, 10, 10, 10, 10),
        (-1, 10, -10, 0, 0),
        (-4, 10, -10, 0, 0),
        (-5, 10, -10, 0, 0), // tie goes up (towards +inf)
        (-6, 10, -10, -10, 0),
        (-10, 10, -10, -10, -10),
        (-7, 3, -9, -6, -6),
    ];
    for (t, s, a, b, c) in cases {
        if oracle(t, s, Op::Trunc) != a || oracle(t, s, Op::Round) != b || oracle(t, s, Op::Up) != c {
            return Err(format!("c17 oracle self-test failed for t={} s={}", t, s));
        }
    }
    // rustdoc examples of DurationRound: 2018-01-11T12:00:00.154
    let day = rc::day_number(2018, 1, 11);
    let t = RDt::new(day, 12 * 3600, 154_000_000).ns() - ri::epoch_ns();
    let at = |d: i64, secs: i64, frac: i64| RDt::new(d, secs, frac).ns() - ri::epoch_ns();
    let ms10 = 10_000_000i128;
    let dayns = 86_400 * NS;
    if oracle(t, ms10, Op::Round) != at(day, 43_200, 150_000_000)
        || oracle(t, dayns, Op::Round) != at(day + 1, 0, 0)
        || oracle(t, ms10, Op::Trunc) != at(day, 43_200, 150_000_000)
        || oracle(t, dayns, Op::Trunc) != at(day, 0, 0)
        || oracle(t, ms10, Op::Up) != at(day, 43_200, 160_000_000)
        || oracle(t, 3600 * NS, Op::Up) != at(day, 13 * 3600, 0)
        || oracle(t, dayns, Op::Up) != at(day + 1, 0, 0)
    {
        return Err("c17 oracle self-test: rustdoc examples".into());
    }
    // window constants: 1677-09-21T00:12:43.145224192 .. 2262-04-11T23:47:16.854775807
    if RDt::from_ns(W_MIN + ri::epoch_ns()) != RDt::new(rc::day_number(1677, 9, 21), 12 * 60 + 43, 145_224_192)
        || RDt::from_ns(W_MAX + ri::epoch_ns()) != RDt::new(rc::day_number(2262, 4, 11), 23 * 3600 + 47 * 60 + 16, 854_775_807)
    {
        return Err("c17 self-test: i64 window".into());
    }
    // sub-second rustdoc examples: .154 -> 2 digits .150, 1 digit .200/.100
    let r = RDt::new(day, 43_200, 154_000_000);
    if subsec_oracle(r, 2, true).frac != 150_000_000
        || subsec_oracle(r, 1, true).frac != 200_000_000
        || subsec_oracle(r, 2, false).frac != 150_000_000
        || subsec_oracle(r, 1, false).frac != 100_000_000
        || subsec_oracle(r, 9, true) != r
        || subsec_oracle(r, u16::MAX, false) != r
        || subsec_oracle(RDt::new(day, 86_399, 500_000_000), 0, true) != RDt::new(day + 1, 0, 0)
        || subsec_oracle(RDt::new(day, 86_399, 499_999_999), 0, true) != RDt::new(day, 86_399, 0)
        || subsec_oracle(RDt::new(day, 86_399, 1_750_500_000), 0, true) != RDt::new(day + 1, 0, 0)
        || subsec_oracle(RDt::new(day, 86_399, 1_750_500_000), 0, false) != RDt::new(day, 86_399, 1_000_000_000)
        || subsec_oracle(RDt::new(day, 86_399, 1_750_500_000), 3, true) != RDt::new(day, 86_399, 1_751_000_000)
    {
        return Err("c17 self-test: sub-second oracle".into());
    }
    Ok(())
}

// ------------------------------------------------------------------------------------------------
// The three observed types
// ------------------------------------------------------------------------------------------------

trait Tgt: Sized + Clone + DurationRound<Err = RoundingError> + SubsecRound {
    const NAME: &'static str;
    const KIND: u64;
    /// Build from the UTC reading + offset (seconds east); None when chrono cannot represent it.
    fn build(utc: RDt, off: i64) -> Option<Self>;
    /// Read back (UTC reading through accessors, offset seconds east).
    fn read(&self) -> (RDt, i64);
}

impl Tgt for NaiveDateTime {
    const NAME: &'static str = "NaiveDateTime";
    const KIND: u64 = 1;
    fn build(utc: RDt, off: i64) -> Option<Self> {
        if off != 0 {
            return None;
        }
        utc.to_chrono()
    }
    fn read(&self) -> (RDt, i64) {
        (RDt::of(self), 0)
    }
}

impl Tgt for DateTime<Utc> {
    const NAME: &'static str = "DateTime<Utc>";
    const KIND: u64 = 2;
    fn build(utc: RDt, off: i64) -> Option<Self> {
        if off != 0 {
            return None;
        }
        Some(Utc.from_utc_datetime(&utc.to_chrono()?))
    }
    fn read(&self) -> (RDt, i64) {
        (RDt::of(&self.naive_utc()), self.offset().fix().local_minus_utc() as i64)
    }
}

impl Tgt for DateTime<FixedOffset> {
    const NAME: &'static str = "DateTime<FixedOffset>";
    const KIND: u64 = 3;
    fn build(utc: RDt, off: i64) -> Option<Self> {
        let fo = FixedOffset::east_opt(off as i32)?;
        Some(fo.from_utc_datetime(&utc.to_chrono()?))
    }
    fn read(&self) -> (RDt, i64) {
        (RDt::of(&self.naive_utc()), self.offset().local_minus_utc() as i64)
    }
}

fn call_op<T: Tgt>(x: &T, span: TimeDelta, op: Op) -> Result<Result<T, RoundingError>, PanicInfo> {
    let x = x.clone();
    guard(move || match op {
        Op::Trunc => x.duration_trunc(span),
        Op::Round => x.duration_round(span),
        Op::Up => x.duration_round_up(span),
    })
}

fn show(r: &RDt) -> String {
    let (y, m, d) = r.ymd();
    let (h, mi, s) = r.hms();
    if r.frac >= NS as i64 {
        format!("{:+05}-{:02}-{:02}T{:02}:{:02}:{:02}(+1 leap).{:09}", y, m, d, h, mi, s, r.frac - NS as i64)
    } else {
        format!("{:+05}-{:02}-{:02}T{:02}:{:02}:{:02}.{:09}", y, m, d, h, mi, s, r.frac)
    }
}

fn span_json(span: &TimeDelta) -> Value {
    json!({"ns": ri::td_ns(span).to_string(), "secs": span.num_seconds(), "subsec_nanos": span.subsec_nanos()})
}

fn witness(name: &str, op: &str, utc: &RDt, off: i64, span: &TimeDelta, expected: String, observed: String) -> Value {
    let t_utc = utc.ns() - ri::epoch_ns();
    json!({
        "type": name, "op": op, "input_utc": show(utc), "offset_seconds_east": off,
        "utc_ns_since_epoch": t_utc.to_string(), "wall_ns_since_epoch": (t_utc + off as i128 * NS).to_string(),
        "span": span_json(span), "expected": expected, "observed": observed,
    })
}

fn err_name(e: RoundingError) -> &'static str {
    match e {
        RoundingError::DurationExceedsTimestamp => "DurationExceedsTimestamp",
        RoundingError::DurationExceedsLimit => "DurationExceedsLimit",
        RoundingError::TimestampExceedsLimit => "TimestampExceedsLimit",
    }
}

/// One input value x one span: all three operations, on type T.
#[allow(clippy::too_many_arguments)]
fn check_dr<T: Tgt>(loc: &mut Local, x: &Ix, utc: RDt, off: i64, span: TimeDelta, s: i128, type_bucket: usize) {
    let v = match guard(|| T::build(utc, off)) {
        Ok(Some(v)) => v,
        Ok(None) => return,
        Err(p) => {
            loc.rep.harness_error(format!("C17: building the input panicked at {}: {}", p.site(), p.msg));
            return;
        }
    };
    let leap = utc.is_leap();
    let t_utc = utc.ns() - ri::epoch_ns();
    let t = t_utc + off as i128 * NS; // wall-clock count
    let span_zero = s == 0;
    let span_neg = s < 0;
    let span_long = s > W_MAX;
    let span_bad = span_zero || span_neg || span_long;
    let wall_fits = fits(t);
    let utc_fits = fits(t_utc);
    // Which reading of "the date-time's nanosecond timestamp" decides the failure is ambiguous
    // between the statement (wall-clock basis) and the rustdoc (`DateTime::timestamp_nanos_opt`);
    // where the two readings differ both outcomes are accepted.
    let disagree = wall_fits != utc_fits;
    let wall_out = t < r_min() || t > r_max();
    for op in OPS {
        loc.eval();
        loc.bucket(x.op[op as usize]);
        loc.bucket(type_bucket);
        let entry = || format!("{}::{}", T::NAME, op.name());
        let got = match call_op(&v, span, op) {
            Ok(g) => g,
            Err(p) => {
                loc.violation(
                    &format!("C17/{}/panic@{}", entry(), p.site()),
                    json!({"case": witness(T::NAME, op.name(), &utc, off, &span, "a Result, not a panic".into(), "panic".into()), "panic": p.to_json()}),
                );
                if wall_out {
                    loc.bucket(x.wall_out);
                }
                continue;
            }
        };
        let case_hash = h2(h2(T::KIND * 4 + op as u64, t_utc as u64 ^ ((t_utc >> 64) as u64).rotate_left(17)), h2(off as u64, s as u64 ^ ((s >> 64) as u64).rotate_left(29)));
        if leap {
            // the timestamp of a leap-second representation is ambiguous: no value oracle, but the
            // span classes still decide failure, and far outside the window it must fail
            loc.bucket(x.leap);
            loc.nontrivial(case_hash);
            let far_out = !fits(t) && !fits(t - NS) && !fits(t_utc) && !fits(t_utc - NS);
            if (span_bad || far_out) && got.is_ok() {
                loc.violation(
                    &format!("C17/{}/ok-for-invalid-input/leap-second-input", entry()),
                    witness(T::NAME, op.name(), &utc, off, &span, "Err".into(), "Ok".into()),
                );
            }
            // whatever count is given to the leap second, the direction is fixed: truncation never
            // returns a later value, rounding up never an earlier one (order of the UTC readings)
            if let Ok(r) = &got {
                let (ru, _) = r.read();
                let wrong = match op {
                    Op::Trunc => ru > utc,
                    Op::Up => ru < utc,
                    _ => false,
                };
                if wrong {
                    loc.violation(
                        &format!("C17/{}/wrong-direction/leap-second-input", entry()),
                        witness(T::NAME, op.name(), &utc, off, &span, if op == Op::Trunc { "a value not after the input".into() } else { "a value not before the input".into() }, show(&ru)),
                    );
                }
            }
            continue;
        }
        let must_err = span_bad || (!wall_fits && !disagree);
        let may_err = must_err || disagree;
        // buckets of the failure classes
        if span_bad && !wall_fits {
            loc.bucket(x.e_both);
        } else if span_zero {
            loc.bucket(x.e_zero);
        } else if span_neg {
            loc.bucket(x.e_neg);
        } else if span_long {
            loc.bucket(x.e_long);
        } else if !wall_fits && !disagree {
            loc.bucket(if t < 0 { x.e_below } else { x.e_above });
            if t == W_MIN - 1 || t == W_MAX + 1 {
                loc.bucket(x.edge_out);
            }
        }
        if disagree {
            loc.bucket(x.disagree);
        }
        if wall_out {
            loc.bucket(x.wall_out);
        }
        match got {
            Err(e) => {
                if !may_err {
                    loc.violation(
                        &format!("C17/{}/err-for-valid-input/{}", entry(), err_name(e)),
                        witness(T::NAME, op.name(), &utc, off, &span, format!("Ok(wall ns {})", oracle(t, s, op)), format!("Err({})", err_name(e))),
                    );
                } else {
                    let kind_ok = match e {
                        RoundingError::DurationExceedsLimit => span_bad,
                        RoundingError::TimestampExceedsLimit => !wall_fits || !utc_fits,
                        RoundingError::DurationExceedsTimestamp => false,
                    };
                    if !kind_ok {
                        loc.violation(
                            &format!("C17/{}/wrong-error-kind/{}", entry(), err_name(e)),
                            witness(
                                T::NAME, op.name(), &utc, off, &span,
                                format!("an error kind that applies (span invalid: {}, wall stamp fits i64: {}, utc stamp fits i64: {})", span_bad, wall_fits, utc_fits),
                                format!("Err({})", err_name(e)),
                            ),
                        );
                    }
                }
                loc.nontrivial(case_hash);
            }
            Ok(res) => {
                if must_err {
                    let class = if span_zero {
                        "zero-span"
                    } else if span_neg {
                        "negative-span"
                    } else if span_long {
                        "span-too-long-for-i64-ns"
                    } else if t < 0 {
                        "stamp-below-i64-ns"
                    } else {
                        "stamp-above-i64-ns"
                    };
                    let (ru, _) = res.read();
                    loc.violation(
                        &format!("C17/{}/ok-for-invalid-input/{}", entry(), class),
                        witness(T::NAME, op.name(), &utc, off, &span, "Err".into(), format!("Ok({} utc)", show(&ru))),
                    );
                    continue;
                }
                // value oracle
                let want_wall = oracle(t, s, op);
                let want_utc = RDt::from_ns(want_wall - off as i128 * NS + ri::epoch_ns());
                let (got_utc, got_off) = res.read();
                let below = t.div_euclid(s) * s;
                let r = t - below;
                let tie = r * 2 == s;
                let mut nontrivial = false;
                // buckets
                loc.bucket(if t < 0 { x.neg } else if t > 0 { x.pos } else { x.zero });
                if r == 0 {
                    loc.bucket(x.mult);
                    nontrivial = true;
                } else if tie {
                    loc.bucket(x.tie);
                    nontrivial = true;
                } else if r * 2 == s - 1 || r * 2 == s - 2 {
                    loc.bucket(x.tie_m1);
                    nontrivial = true;
                } else if r * 2 == s + 1 || r * 2 == s + 2 {
                    loc.bucket(x.tie_p1);
                    nontrivial = true;
                }
                if r == 1 && s > 2 {
                    loc.bucket(x.mult_p1);
                    nontrivial = true;
                }
                if r == s - 1 && s > 2 {
                    loc.bucket(x.mult_m1);
                    nontrivial = true;
                }
                if op == Op::Round && r != 0 {
                    loc.bucket(if want_wall > t { x.rup } else { x.rdown });
                }
                if s > t.abs() {
                    loc.bucket(x.span_gt);
                    nontrivial = true;
                }
                if (86_400 * NS) % s != 0 {
                    loc.bucket(x.span_nodiv);
                }
                if s == 1 {
                    loc.bucket(x.span1);
                }
                if s == W_MAX {
                    loc.bucket(x.span_max);
                    nontrivial = true;
                }
                if s % 2 == 1 {
                    loc.bucket(x.span_odd);
                }
                if t - W_MIN <= 10 {
                    loc.bucket(x.wmin_ok);
                    nontrivial = true;
                }
                if W_MAX - t <= 10 {
                    loc.bucket(x.wmax_ok);
                    nontrivial = true;
                }
                if !fits(want_wall) {
                    loc.bucket(x.res_out);
                    nontrivial = true;
                }
                if t < 0 {
                    nontrivial = true;
                }
                if off != 0 {
                    loc.bucket(x.off_nz);
                    // would rounding the UTC reading have given another instant?
                    if utc_fits && oracle(t_utc, s, op) != want_wall - off as i128 * NS {
                        loc.bucket(x.off_changes);
                        nontrivial = true;
                    }
                }
                if nontrivial {
                    loc.nontrivial(case_hash);
                }
                if got_utc != want_utc {
                    let sign = if t < 0 { "neg-stamp" } else if t > 0 { "pos-stamp" } else { "zero-stamp" };
                    let rem = if r == 0 {
                        "exact-multiple"
                    } else if tie {
                        "tie"
                    } else if r * 2 < s {
                        "below-half"
                    } else {
                        "above-half"
                    };
                    let got_wall = got_utc.ns() - ri::epoch_ns() + off as i128 * NS;
                    loc.violation(
                        &format!("C17/{}/wrong-result/{}/{}", entry(), sign, rem),
                        witness(
                            T::NAME, op.name(), &utc, off, &span,
                            format!("{} utc (wall ns {})", show(&want_utc), want_wall),
                            format!("{} utc (wall ns {}; distance from input {} ns)", show(&got_utc), got_wall, got_wall - t),
                        ),
                    );
                    continue;
                }
                if got_off != off {
                    loc.violation(
                        &format!("C17/{}/offset-changed", entry()),
                        witness(T::NAME, op.name(), &utc, off, &span, format!("offset {}", off), format!("offset {}", got_off)),
                    );
                }
                // the statement's derived clauses, on the observed value (belt and braces: they
                // follow from equality with the oracle, so a failure here is an oracle bug)
                let got_wall = want_wall;
                if (got_wall - t).abs() >= s || (r == 0 && got_wall != t) {
                    loc.rep.harness_error(format!("C17 oracle inconsistency t={} s={} op={:?}", t, s, op));
                }
                loc.sample(|| {
                    json!({"case": witness(T::NAME, op.name(), &utc, off, &span, format!("{} utc", show(&want_utc)), format!("{} utc", show(&got_utc)))})
                });
                // idempotence: a second application on the result (a real second call)
                let res_wall_fits = fits(want_wall);
                let res_utc_fits = fits(want_wall - off as i128 * NS);
                if res_wall_fits || res_utc_fits {
                    let res_disagree = res_wall_fits != res_utc_fits;
                    loc.eval();
                    loc.bucket(x.idem);
                    match call_op(&res, span, op) {
                        Err(p) => loc.violation(
                            &format!("C17/{}/panic@{}", entry(), p.site()),
                            json!({"case": witness(T::NAME, op.name(), &want_utc, off, &span, "a Result, not a panic (second application)".into(), "panic".into()), "panic": p.to_json()}),
                        ),
                        Ok(Ok(again)) => {
                            let (a_utc, a_off) = again.read();
                            if a_utc != want_utc || a_off != off {
                                loc.violation(
                                    &format!("C17/{}/not-idempotent", entry()),
                                    witness(T::NAME, op.name(), &utc, off, &span, format!("second application returns {} utc again", show(&want_utc)), format!("{} utc", show(&a_utc))),
                                );
                            }
                        }
                        Ok(Err(e)) => {
                            if !res_disagree {
                                loc.violation(
                                    &format!("C17/{}/not-idempotent/err-on-own-result", entry()),
                                    witness(T::NAME, op.name(), &utc, off, &span, format!("second application returns {} utc again", show(&want_utc)), format!("Err({})", err_name(e))),
                                );
                            }
                        }
                    }
                }
            }
        }
    }
}

// ------------------------------------------------------------------------------------------------
// DurationRound workload
// ------------------------------------------------------------------------------------------------

const DAY: i128 = 86_400 * NS;

const FIXED_SPANS: &[i128] = &[
    1, 2, 3, 4, 5, 7, 9, 10, 11, 13, 16, 60, 100, 101, 997, 1000, 1024, 7919, 10_000, 100_000, 104_729, 1_000_000, 1_000_003,
    10_000_000, 100_000_000, 999_999_937, 999_999_999, 1_000_000_000, 1_000_000_001, 1_000_000_007, 2_147_483_647, 2_147_483_648,
    4_294_967_296, 10_000_000_000, 60_000_000_000, 100_000_000_000, 900_000_000_000, 1_000_000_000_000, 3_600_000_000_000,
    3_600_000_000_001, 3_599_999_999_999, 10_000_000_000_000, 43_200_000_000_000, 86_400_000_000_000, 86_399_999_999_999,
    86_400_000_000_001, 100_000_000_000_000, 604_800_000_000_000, 1_000_000_000_000_000, 2_629_746_000_000_000,
    10_000_000_000_000_000, 31_556_952_000_000_000, 100_000_000_000_000_000, 1_000_000_000_000_000_000,
    2_305_843_009_213_693_951, 4_611_686_018_427_387_904, 4_611_686_018_427_387_903, 9_223_372_036_854_775_806,
    9_223_372_036_854_775_807,
];

/// Spans that must be refused
fn bad_span(rng: &mut Rng) -> i128 {
    match rng.below(12) {
        0 | 1 => 0,
        2 => -1,
        3 => -(rng.log_u64(62) as i128) - 1,
        4 => ri::TD_MIN_NS,
        5 => i64::MIN as i128,
        6 => i64::MIN as i128 - 1,
        7 => W_MAX + 1,
        8 => W_MAX + 2 + rng.below(1_000_000_000) as i128,
        9 => ri::TD_MAX_NS,
        10 => rng.range128(W_MAX + 1, ri::TD_MAX_NS),
        _ => -(*rng.pick(FIXED_SPANS)),
    }
}

fn good_span(rng: &mut Rng, t: i128) -> i128 {
    let a = t.abs();
    let s = match rng.below(16) {
        0..=4 => *rng.pick(FIXED_SPANS),
        5 => a,
        6 => a + 1,
        7 => a - 1,
        8 => a * 2,
        9 => a / [2, 3, 7, 10][rng.below(4) as usize],
        10 => W_MAX - rng.below(3) as i128,
        11 => {
            // 10^k +- 1
            let mut p = 1i128;
            for _ in 0..rng.below(19) {
                p *= 10;
            }
            p + rng.range(-1, 1) as i128
        }
        _ => rng.log_u64(63) as i128,
    };
    if s < 1 || s > W_MAX {
        1 + rng.log_u64(62) as i128
    } else {
        s
    }
}

/// A wall-clock count (ns since the epoch), boundary-biased.
fn gen_wall(rng: &mut Rng, cat_days: &[i64], cat_secs: &[i64], cat_fracs: &[i64]) -> i128 {
    match rng.below(20) {
        0 => W_MIN + rng.range(-12, 12) as i128,
        1 => W_MAX + rng.range(-12, 12) as i128,
        2 => rng.range(-2000, 2000) as i128,
        3 => rng.log_i64(45) as i128,
        4..=7 => rng.next() as i64 as i128,
        8..=9 => rng.log_i64(63) as i128,
        10 => rng.range128(r_min(), r_max()),
        11 => r_max() - rng.range128(-DAY, 2 * DAY),
        12 => r_min() + rng.range128(-DAY, 2 * DAY),
        13 => {
            let r = RDt::new(*rng.pick(cat_days), *rng.pick(cat_secs), *rng.pick(cat_fracs));
            r.ns() - ri::epoch_ns()
        }
        14 => W_MAX + rng.range128(-2 * DAY, 2 * DAY),
        15 => W_MIN + rng.range128(-2 * DAY, 2 * DAY),
        16 => {
            // whole seconds / minutes / days near today
            let secs = rng.range(-4_000_000_000, 4_000_000_000) as i128;
            match rng.below(3) {
                0 => secs * NS,
                1 => secs / 60 * 60 * NS,
                _ => secs / 86_400 * DAY,
            }
        }
        _ => rng.next() as i64 as i128,
    }
}

/// Constructed on purpose: exact multiples, exact ties and their neighbours, in the window.
fn constructed(rng: &mut Rng) -> (i128, i128) {
    let mut s = match rng.below(4) {
        0 | 1 => *rng.pick(FIXED_SPANS),
        2 => 1 + rng.log_u64(62) as i128,
        _ => 2 * (1 + rng.log_u64(61) as i128), // even: has an exact tie
    };
    if s > W_MAX {
        s = W_MAX;
    }
    let kmin = W_MIN.div_euclid(s);
    let kmax = W_MAX.div_euclid(s);
    let k = match rng.below(8) {
        0 => 0,
        1 => -1,
        2 => 1,
        3 => kmin + rng.below(2) as i128,
        4 => kmax - rng.below(2) as i128,
        5 => rng.range(-50, 50) as i128,
        _ => rng.range128(kmin, kmax),
    };
    let half = s / 2;
    let d = match rng.below(12) {
        0 | 1 => 0,
        2 => 1,
        3 => -1,
        4 | 5 => half,
        6 => half + 1,
        7 => half - 1,
        8 => (s + 1) / 2,
        9 => s - 1,
        10 => -half,
        _ => -(half + 1),
    };
    let mut t = k * s + d;
    if !fits(t) {
        t = k * s + d.rem_euclid(s);
        if !fits(t) {
            t = d;
        }
    }
    (t, s)
}

fn dr_case(loc: &mut Local, x: &Ix, wall: i128, off: i64, s: i128, leap: bool) {
    let span = match ri::td_from_ns(s) {
        Some(d) => d,
        None => return,
    };
    // the oracle's own reading of the span must agree with how it was built
    if ri::td_ns(&span) != s {
        loc.rep.harness_error(format!("C17: span {} does not read back", s));
        return;
    }
    let utc_ns = wall - off as i128 * NS + ri::epoch_ns();
    let mut utc = RDt::from_ns(utc_ns);
    if leap {
        utc.secs = utc.secs - utc.secs % 60 + 59;
        utc.frac += NS as i64;
    }
    if !utc.in_range() {
        return;
    }
    if off == 0 {
        check_dr::<NaiveDateTime>(loc, x, utc, 0, span, s, x.t_naive);
        check_dr::<DateTime<Utc>>(loc, x, utc, 0, span, s, x.t_utc);
        check_dr::<DateTime<FixedOffset>>(loc, x, utc, 0, span, s, x.t_fixed);
    } else {
        check_dr::<DateTime<FixedOffset>>(loc, x, utc, off, span, s, x.t_fixed);
        // the same wall reading as a naive value (when it is representable)
        let w = RDt::from_ns(wall + ri::epoch_ns());
        if w.in_range() && !leap {
            check_dr::<NaiveDateTime>(loc, x, w, 0, span, s, x.t_naive);
        }
    }
}

fn duration_round_fixed(ctx: &Ctx, rep: &Report) {
    // Deterministic part, independent of the seed: every boundary instant x every fixed span x a
    // few offsets; window edges and range ends with every catalogue offset.
    let offs = gen::catalogue_offsets();
    let mut walls: Vec<i128> = Vec::new();
    for k in -12..=12i128 {
        walls.push(W_MIN + k);
        walls.push(W_MAX + k);
        walls.push(k);
        walls.push(k * NS);
        walls.push(k * DAY);
    }
    for k in 0..3i128 {
        walls.push(r_min() + k);
        walls.push(r_max() - k);
        walls.push(r_min() + 86_399 * NS - k);
        walls.push(r_max() - 86_399 * NS + k);
    }
    let spans: Vec<i128> = FIXED_SPANS.iter().copied().chain([0i128, -1, W_MAX + 1, ri::TD_MAX_NS, ri::TD_MIN_NS, i64::MIN as i128]).collect();
    par_shards(rep, ctx.threads, walls.len(), |i| {
        let x = ix();
        let mut loc = rep.local();
        let t = walls[i];
        for &s in &spans {
            for &off in &[0i64, 1, -1, 3600, -3600, 86_399, -86_399, 20_700] {
                dr_case(&mut loc, &x, t, off, s, false);
            }
            // leap-second representations of the same instants: panic / failure-class monitor only
            dr_case(&mut loc, &x, t, 0, s, true);
            dr_case(&mut loc, &x, t, -12_600, s, true);
        }
    });
    // within the offset of the window edges / the range ends: every catalogue offset.
    par_shards(rep, ctx.threads, offs.len(), |i| {
        let x = ix();
        let mut loc = rep.local();
        let off = offs[i];
        for &base in &[W_MIN, W_MAX, r_min(), r_max()] {
            for &d in &[-1i128, 0, 1] {
                for &s in &[1i128, 7, 1000, NS, 3600 * NS, DAY, W_MAX] {
                    // here the wall reading is the given count (the UTC reading moves with the offset) ...
                    dr_case(&mut loc, &x, base + d, off, s, false);
                    // ... and here the UTC reading is the given count (the wall reading moves)
                    dr_case(&mut loc, &x, base + d + off as i128 * NS, off, s, false);
                }
            }
        }
    });
}

fn duration_round_random(ctx: &Ctx, rep: &Report) {
    let total = ctx.n(5_000_000, 150_000_000);
    let n_shards = 256usize;
    let per = (total / n_shards as u64).max(1);
    let cat_days = gen::catalogue_days();
    let cat_secs = gen::catalogue_secs();
    let cat_fracs = gen::catalogue_fracs();
    let cat_offs = gen::catalogue_offsets();
    par_shards(rep, ctx.threads, n_shards, |shard| {
        let mut rng = Rng::new(ctx.seed, "C17/duration", shard as u64);
        let mut loc = rep.local();
        let x = ix();
        for _ in 0..per {
            let off = if rng.chance(1, 3) { 0 } else { gen::random_offset(&mut rng, &cat_offs) };
            let (wall, s) = match rng.below(10) {
                0..=3 => constructed(&mut rng),
                4 => {
                    let t = gen_wall(&mut rng, &cat_days, &cat_secs, &cat_fracs);
                    (t, bad_span(&mut rng))
                }
                _ => {
                    let t = gen_wall(&mut rng, &cat_days, &cat_secs, &cat_fracs);
                    (t, good_span(&mut rng, t))
                }
            };
            let leap = rng.chance(1, 24);
            dr_case(&mut loc, &x, wall, off, s, leap);
            // the neighbourhood of a constructed point moved by the offset: a tie/multiple of the
            // UTC reading that is not one of the wall reading
            if off != 0 && rng.chance(1, 4) {
                dr_case(&mut loc, &x, wall + off as i128 * NS, off, s, false);
            }
        }
    });
}

// ------------------------------------------------------------------------------------------------
// SubsecRound
// ------------------------------------------------------------------------------------------------

fn check_subsec<T: Tgt>(loc: &mut Local, x: &Ix, utc: RDt, off: i64, digits: u16, type_bucket: usize) {
    let v = match guard(|| T::build(utc, off)) {
        Ok(Some(v)) => v,
        Ok(None) => return,
        Err(p) => {
            loc.rep.harness_error(format!("C17: building the input panicked at {}: {}", p.site(), p.msg));
            return;
        }
    };
    let wall_ns = RDt::new(utc.day, utc.secs, utc.frac % NS as i64).ns() - ri::epoch_ns() + off as i128 * NS;
    let wall_out = wall_ns < r_min() || wall_ns > r_max();
    for round in [false, true] {
        loc.eval();
        loc.bucket(type_bucket);
        loc.bucket(if round { x.s_round } else { x.s_trunc });
        let name = if round { "round_subsecs" } else { "trunc_subsecs" };
        let want = subsec_oracle(utc, digits, round);
        let representable = want.in_range();
        let vv = v.clone();
        let got = guard(move || if round { vv.round_subsecs(digits) } else { vv.trunc_subsecs(digits) });
        // buckets
        let span: i64 = {
            let mut p = 1i64;
            for _ in 0..(9 - digits.min(9) as u32) {
                p *= 10;
            }
            p
        };
        let f = utc.frac % NS as i64;
        let rem = f % span;
        let mut nontrivial = false;
        match digits {
            0 => loc.bucket(x.s_d0),
            1..=8 => loc.bucket(x.s_d18),
            9 => loc.bucket(x.s_d9),
            u16::MAX => {
                loc.bucket(x.s_dmax);
                loc.bucket(x.s_dgt9);
            }
            _ => loc.bucket(x.s_dgt9),
        }
        if rem == 0 {
            loc.bucket(x.s_unch);
        } else if round {
            if rem * 2 == span {
                loc.bucket(x.s_tie);
                nontrivial = true;
            }
            if want.frac < utc.frac && want.day == utc.day && want.secs == utc.secs {
                loc.bucket(x.s_down);
            } else {
                loc.bucket(x.s_up);
                if want.secs != utc.secs || want.day != utc.day {
                    nontrivial = true;
                    loc.bucket(x.s_csec);
                    if utc.secs % 60 == 59 {
                        loc.bucket(x.s_cmin);
                    }
                    if want.day != utc.day {
                        loc.bucket(x.s_cday);
                    }
                    if utc.is_leap() {
                        loc.bucket(x.s_leap_out);
                    }
                }
            }
        }
        if utc.is_leap() && want.is_leap() {
            loc.bucket(x.s_leap_in);
            nontrivial = true;
        }
        if wall_out {
            loc.bucket(x.s_wall_out);
            nontrivial = true;
        }
        if rem == 1 || rem == span - 1 || (rem * 2 - span).abs() <= 2 {
            nontrivial = true;
        }
        if nontrivial {
            loc.nontrivial(h2(h2(T::KIND * 2 + round as u64 + 100, digits as u64), h2(utc.ns() as u64, off as u64)));
        }
        let entry = || format!("{}::{}", T::NAME, name);
        let wit = |expected: String, observed: String| {
            json!({"type": T::NAME, "op": name, "input_utc": show(&utc), "offset_seconds_east": off, "digits": digits, "expected": expected, "observed": observed})
        };
        if !representable {
            // the carried value does not exist in the type: `+` is documented to panic there
            loc.bucket(x.s_unrep);
            if let Ok(r) = got {
                let (g, _) = r.read();
                loc.violation(&format!("C17/{}/value-for-unrepresentable-carry", entry()), wit("no value (carry beyond the maximum)".into(), show(&g)));
            }
            continue;
        }
        match got {
            Err(p) => loc.violation(&format!("C17/{}/panic@{}", entry(), p.site()), json!({"case": wit(show(&want), "panic".into()), "panic": p.to_json()})),
            Ok(r) => {
                let (g, goff) = r.read();
                if g != want {
                    let class = if utc.is_leap() {
                        "leap-second-input"
                    } else if rem == 0 {
                        "exact-multiple"
                    } else if !round {
                        "trunc"
                    } else if rem * 2 == span {
                        "tie"
                    } else if want.secs != utc.secs || want.day != utc.day {
                        "carry"
                    } else if rem * 2 < span {
                        "below-half"
                    } else {
                        "above-half"
                    };
                    let dclass = if digits >= 9 { "digits>=9" } else { "digits<9" };
                    loc.violation(&format!("C17/{}/wrong-result/{}/{}", entry(), class, dclass), wit(show(&want), show(&g)));
                } else if goff != off {
                    loc.violation(&format!("C17/{}/offset-changed", entry()), wit(format!("offset {}", off), format!("offset {}", goff)));
                } else {
                    loc.sample(|| wit(show(&want), show(&g)));
                    // idempotence (second real call) on a sample
                    if digits < 9 && rem != 0 {
                        loc.eval();
                        let rr = r.clone();
                        match guard(move || if round { rr.round_subsecs(digits) } else { rr.trunc_subsecs(digits) }) {
                            Ok(a) => {
                                if a.read() != (want, off) {
                                    loc.violation(&format!("C17/{}/not-idempotent", entry()), wit(show(&want), show(&a.read().0)));
                                }
                            }
                            Err(p) => loc.violation(&format!("C17/{}/panic@{}", entry(), p.site()), json!({"case": wit(show(&want), "panic on second application".into()), "panic": p.to_json()})),
                        }
                    }
                }
            }
        }
    }
}

fn subsec_case(loc: &mut Local, x: &Ix, utc: RDt, off: i64, digits: u16) {
    if !utc.in_range() {
        return;
    }
    if off == 0 {
        check_subsec::<NaiveDateTime>(loc, x, utc, 0, digits, x.s_naive);
        check_subsec::<DateTime<Utc>>(loc, x, utc, 0, digits, x.s_utc);
    }
    check_subsec::<DateTime<FixedOffset>>(loc, x, utc, off, digits, x.s_fixed);
}

const SUBSEC_FRACS: &[i64] = &[
    0, 1, 4, 5, 6, 9, 10, 49, 50, 51, 499, 500, 501, 999, 1000, 84_660_684, 154_000_000, 449_999_999, 450_000_000, 499_999_999,
    500_000_000, 500_000_001, 750_500_000, 949_999_999, 950_000_000, 994_999_999, 995_000_000, 999_499_999, 999_500_000, 999_949_999,
    999_950_000, 999_994_999, 999_995_000, 999_999_499, 999_999_500, 999_999_949, 999_999_950, 999_999_994, 999_999_995, 999_999_999,
];

fn subsec_fixed(ctx: &Ctx, rep: &Report) {
    let x = ix();
    // all 65536 digit counts on a few inputs (incl. a leap second and the last representable second)
    let d2018 = rc::day_number(2018, 1, 11);
    let inputs = [
        (RDt::new(d2018, 36_313, 84_660_684), 8 * 3600i64),
        (RDt::new(d2018, 86_399, 999_999_999), 0),
        (RDt::new(rc::day_number(2016, 12, 31), 86_399, 1_750_500_000), 0),
        (RDt::new(rc::day_number(1969, 12, 31), 86_399, 555_555_555), -3600),
        (RDt::new(rc::max_day(), 86_399, 999_999_999), 0),
        (RDt::new(rc::min_day(), 0, 1), 0),
    ];
    par_shards(rep, ctx.threads, inputs.len(), |i| {
        let mut loc = rep.local();
        let (r, off) = inputs[i];
        for d in 0..=u16::MAX {
            subsec_case(&mut loc, &x, r, off, d);
        }
        loc.bucket(x.s_walk);
    });
    // every catalogue fraction x every digit count 0..=12 x a few seconds, days and offsets
    let days = [rc::min_day(), rc::min_day() + 1, 0, 1, rc::UNIX_EPOCH_DAY - 1, rc::UNIX_EPOCH_DAY, d2018, rc::day_number(2016, 12, 31), rc::max_day() - 1, rc::max_day()];
    let secs = [0i64, 59, 3599, 43_199, 86_339, 86_398, 86_399];
    let offs = [0i64, 1, -1, 3600, -3600, 86_399, -86_399, 20_700];
    par_shards(rep, ctx.threads, days.len() * secs.len(), |i| {
        let mut loc = rep.local();
        let day = days[i / secs.len()];
        let sec = secs[i % secs.len()];
        for &f in SUBSEC_FRACS {
            for digits in (0..=12u16).chain([255, 256, 1000, u16::MAX - 1, u16::MAX]) {
                for &off in &offs {
                    subsec_case(&mut loc, &x, RDt::new(day, sec, f), off, digits);
                    if sec % 60 == 59 {
                        subsec_case(&mut loc, &x, RDt::new(day, sec, f + NS as i64), off, digits);
                    }
                }
            }
        }
    });
}

fn subsec_random(ctx: &Ctx, rep: &Report) {
    let total = ctx.n(2_000_000, 60_000_000);
    let n_shards = 128usize;
    let per = (total / n_shards as u64).max(1);
    let cat_days = gen::catalogue_days();
    let cat_offs = gen::catalogue_offsets();
    par_shards(rep, ctx.threads, n_shards, |shard| {
        let mut rng = Rng::new(ctx.seed, "C17/subsec", shard as u64);
        let mut loc = rep.local();
        let x = ix();
        for _ in 0..per {
            let mut r = gen::random_rdt_leap(&mut rng, &cat_days, true);
            let digits: u16 = match rng.below(10) {
                0..=5 => rng.below(10) as u16,
                6 => rng.below(20) as u16,
                7 => *rng.pick(&[9u16, 10, 15, 16, 255, 256, 32_767, 32_768, u16::MAX - 1, u16::MAX]),
                _ => rng.next() as u16,
            };
            // fractions aimed at the digit count: multiples, ties and their neighbours, carries
            let span = {
                let mut p = 1i64;
                for _ in 0..(9 - digits.min(9) as u32) {
                    p *= 10;
                }
                p
            };
            let base = if r.is_leap() { NS as i64 } else { 0 };
            if rng.chance(1, 2) {
                let k = match rng.below(4) {
                    0 => 0,
                    1 => NS as i64 / span - 1,
                    _ => rng.range(0, NS as i64 / span - 1),
                };
                let d = match rng.below(8) {
                    0 => 0,
                    1 => 1,
                    2 => span - 1,
                    3 | 4 => span / 2,
                    5 => span / 2 - 1,
                    6 => span / 2 + 1,
                    _ => rng.range(0, span - 1),
                };
                r.frac = base + (k * span + d.clamp(0, span - 1)).clamp(0, NS as i64 - 1);
            }
            match rng.below(12) {
                0 => r.secs = 86_399,
                1 => {
                    r.day = rc::max_day();
                    r.secs = 86_399;
                }
                2 => {
                    r.day = rc::max_day() - rng.below(2) as i64;
                    r.secs = 86_399 - rng.below(3) as i64 * 60;
                }
                3 => {
                    r.day = rc::min_day() + rng.below(2) as i64;
                }
                _ => {}
            }
            if r.is_leap() && r.secs % 60 != 59 {
                r.secs = r.secs - r.secs % 60 + 59;
            }
            let off = if rng.chance(1, 3) { 0 } else { gen::random_offset(&mut rng, &cat_offs) };
            subsec_case(&mut loc, &x, r, off, digits);
        }
    });
}

pub fn run(ctx: &Ctx) -> Outcome {
    let rep = Report::with_bitmap_bits("C17", B, FLOOR, 29);
    for t in [rc::self_test(), ri::self_test(), self_test()] {
        if let Err(e) = t {
            rep.harness_error(e);
            return rep.finish(ctx, "self-test failed", &[]);
        }
    }
    let t0 = std::time::Instant::now();
    duration_round_fixed(ctx, &rep);
    let t1 = std::time::Instant::now();
    subsec_fixed(ctx, &rep);
    let t2 = std::time::Instant::now();
    duration_round_random(ctx, &rep);
    let t3 = std::time::Instant::now();
    subsec_random(ctx, &rep);
    let t4 = std::time::Instant::now();
    rep.set_extra(
        "phase_wall_s",
        json!({"duration_round_fixed": (t1 - t0).as_secs_f64(), "subsec_fixed": (t2 - t1).as_secs_f64(), "duration_round_random": (t3 - t2).as_secs_f64(), "subsec_random": (t4 - t3).as_secs_f64()}),
    );
    rep.finish(
        ctx,
        "DurationRound: a case is (type, operation, UTC reading, offset, span); the wall-clock count t and the span s are generated as integers (window edges +-12 ns, epoch neighbourhood, uniform and log-uniform inside the i64-ns window, the whole NaiveDateTime range and its ends, catalogue instants; spans from a fixed list of units/primes/extremes, |t| and its neighbours, log-uniform, invalid ones; exact multiples, exact ties and their +-1 ns neighbours constructed as k*s+d), each run through duration_trunc/round/round_up on NaiveDateTime, DateTime<Utc> and DateTime<FixedOffset> and compared with floor/ceil/nearest in i128, plus a second application (idempotence). SubsecRound: (type, op, instant, offset, digits) with all 65536 digit counts on six inputs, a fraction catalogue x digits 0..=12 and random fractions aimed at multiples/ties/carries, leap seconds included. Non-trivial = negative stamp, exact multiple, exact tie or within 1 ns of one, span > |t|, window edge, result outside the window, offset that changes the multiple, any failure class, leap-second input, sub-second tie/carry/leap/out-of-range wall clock; distinct = distinct such cases (hashed bitmap)",
        &[
            "the i128 floor/ceil/nearest oracle in this module is correct (self-tested on literal cases and on the rustdoc examples at every start)",
            "R-cal / R-inst are correct (self-tested)",
            "for a DateTime whose wall-clock and UTC nanosecond timestamps disagree about fitting i64 (within the offset of a window edge) both Err(TimestampExceedsLimit) and the correct value are accepted: the statement counts on the wall clock, the rustdoc names DateTime::timestamp_nanos_opt",
            "leap-second inputs of DurationRound are monitored for panics and failure classes only (their timestamp is ambiguous)",
            "a sub-second round-up whose carried result lies beyond NaiveDateTime::MAX may panic (the + operator is documented to); returning a value there is a violation",
        ],
    )
}
