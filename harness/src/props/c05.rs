//! C05 — local time follows the zone data: offsets, gaps and folds. Oracle: R-tz (definition-based
//! offset lookup + brute-force wall-time candidates). Routes: hook `chrono::__verif::Zone` (volume)
//! and the public `Local` API in child processes with `TZ=:/abs/path` (what users rely on).

use crate::mon::{guard, h2, hstr, par_shards, Ctx, Local, Outcome, Report};
use crate::props::tzchild::{self, Ans};
use crate::refcal as rc;
use crate::reftz::{self as tz, ZoneModel};
use crate::rng::Rng;
use chrono::{MappedLocalTime, __verif::Zone};
use serde_json::json;
use std::path::PathBuf;

const B: &[&str] = &[
    "zone_real", "zone_synthetic", "zone_posix_rule", "route_hook", "route_public", "instant_before_first_transition", "instant_at_transition",
    "instant_after_last_no_rule", "instant_rule_governed", "table_gap", "table_fold", "table_equal_offset_transition", "rule_gap", "rule_fold",
    "rule_equal_offsets", "rule_north_positive_dst", "rule_south_positive_dst", "rule_north_negative_dst", "rule_south_negative_dst", "rule_same_month",
    "rule_julian_days", "rule_v3_time", "local_none", "local_single", "local_ambiguous", "local_exempt_boundary_second", "round_trip", "far_years",
    "skipped_more_than_two_candidates", "skipped_rule_year_not_in_scope", "interacting_transitions",
];
const FLOOR: &[&str] = &[
    "zone_real", "zone_synthetic", "zone_posix_rule", "route_hook", "route_public", "instant_before_first_transition", "instant_at_transition",
    "instant_after_last_no_rule", "instant_rule_governed", "table_gap", "table_fold", "table_equal_offset_transition", "rule_gap", "rule_fold",
    "rule_equal_offsets", "rule_north_positive_dst", "rule_south_positive_dst", "rule_north_negative_dst", "rule_south_negative_dst", "rule_same_month",
    "rule_julian_days", "rule_v3_time", "local_none", "local_single", "local_ambiguous", "local_exempt_boundary_second", "round_trip", "far_years",
];

fn bi(n: &str) -> usize {
    B.iter().position(|x| *x == n).unwrap()
}

struct Ix {
    real: usize, synth: usize, posix: usize, hook: usize, public: usize, before_first: usize, at_trans: usize, after_last: usize, rule_gov: usize,
    t_gap: usize, t_fold: usize, t_eq: usize, r_gap: usize, r_fold: usize, r_eq: usize, r_np: usize, r_sp: usize, r_nn: usize, r_sn: usize, r_same_month: usize,
    r_julian: usize, r_v3: usize, l_none: usize, l_single: usize, l_amb: usize, l_exempt: usize, round: usize, far: usize, skip3: usize, skip_year: usize, interacting: usize,
}

fn ix() -> Ix {
    Ix {
        real: bi("zone_real"), synth: bi("zone_synthetic"), posix: bi("zone_posix_rule"), hook: bi("route_hook"), public: bi("route_public"),
        before_first: bi("instant_before_first_transition"), at_trans: bi("instant_at_transition"), after_last: bi("instant_after_last_no_rule"),
        rule_gov: bi("instant_rule_governed"), t_gap: bi("table_gap"), t_fold: bi("table_fold"), t_eq: bi("table_equal_offset_transition"),
        r_gap: bi("rule_gap"), r_fold: bi("rule_fold"), r_eq: bi("rule_equal_offsets"), r_np: bi("rule_north_positive_dst"), r_sp: bi("rule_south_positive_dst"),
        r_nn: bi("rule_north_negative_dst"), r_sn: bi("rule_south_negative_dst"), r_same_month: bi("rule_same_month"), r_julian: bi("rule_julian_days"),
        r_v3: bi("rule_v3_time"), l_none: bi("local_none"), l_single: bi("local_single"), l_amb: bi("local_ambiguous"), l_exempt: bi("local_exempt_boundary_second"),
        round: bi("round_trip"), far: bi("far_years"), skip3: bi("skipped_more_than_two_candidates"), skip_year: bi("skipped_rule_year_not_in_scope"), interacting: bi("interacting_transitions"),
    }
}

pub fn min_secs() -> i64 {
    (rc::min_day() - rc::UNIX_EPOCH_DAY) * 86_400
}
pub fn max_secs() -> i64 {
    (rc::max_day() - rc::UNIX_EPOCH_DAY) * 86_400 + 86_399
}

/// One zone under test
pub struct ZoneCase {
    pub label: String,
    pub kind: &'static str, // real | synthetic | posix
    pub model: ZoneModel,
    pub zone: Zone,
    /// value for TZ on the public route (":/abs/path" or the rule string), if any
    pub tz_env: Option<String>,
    pub offsets: Vec<i32>,
    pub max_abs_off: i64,
}

/// Is the rule-governed instant u in the property's scope (rule transitions of the years around
/// it lie more than one day inside their calendar years)?
pub fn rule_scope_ok(m: &ZoneModel, u: i64) -> bool {
    match &m.rule {
        Some(r) if r.dst.is_some() => {
            let y = tz::year_of_unix(u);
            // the rule's transitions must alternate: the same order of start and end in the
            // neighbouring years (a rule such as M1.4.4,M1.4.0 flips "hemisphere" from year to year;
            // POSIX does not say what holds between two consecutive ends, so nothing is judged there)
            let north = |yy: i64| r.events(yy).map(|(s, e)| s < e);
            r.year_ok(y - 1) && r.year_ok(y) && r.year_ok(y + 1) && north(y - 1) == north(y) && north(y) == north(y + 1)
        }
        _ => true,
    }
}

fn rule_governs(m: &ZoneModel, u: i64) -> bool {
    m.rule.as_ref().map(|r| r.dst.is_some()).unwrap_or(false) && m.transitions.last().map(|t| u >= t.0).unwrap_or(true)
}

fn to_ans(r: Result<MappedLocalTime<i32>, String>) -> Ans {
    match r {
        Ok(MappedLocalTime::None) => Ans::None,
        Ok(MappedLocalTime::Single(o)) => Ans::Single(o),
        Ok(MappedLocalTime::Ambiguous(a, b)) => Ans::Ambiguous(a, b),
        Err(e) => Ans::Panic(format!("Err({})", e)),
    }
}

/// Check one instant through the hook: offset, and the round trip through the wall clock.
fn check_instant(loc: &mut Local, x: &Ix, zc: &ZoneCase, u: i64, got_public: Option<&Ans>) {
    if u < min_secs() || u > max_secs() {
        return;
    }
    let m = &zc.model;
    let governed = rule_governs(m, u);
    if governed && !rule_scope_ok(m, u) {
        loc.bucket(x.skip_year);
        return;
    }
    loc.eval();
    loc.bucket(x.hook);
    let exp = m.offset_at(u);
    if governed {
        loc.bucket(x.rule_gov)
    } else if let Some(first) = m.transitions.first() {
        if u < first.0 {
            loc.bucket(x.before_first)
        } else if m.transitions.binary_search_by_key(&u, |t| t.0).is_ok() {
            loc.bucket(x.at_trans)
        } else if u >= m.transitions.last().unwrap().0 {
            loc.bucket(x.after_last)
        }
    }
    let y = tz::year_of_unix(u);
    if !(1900..=2100).contains(&y) {
        loc.bucket(x.far)
    }
    let src = if governed { "rule" } else { "table" };
    let got = guard(|| zc.zone.offset_at(u));
    match got {
        Ok(Ok(o)) => {
            if o != exp {
                loc.violation(
                    &format!("C05/offset-for-instant/{}/{}/wrong-offset", zc.kind, src),
                    json!({"zone": zc.label, "unix": u, "expected": exp, "observed": o, "rule": m.rule.as_ref().map(|r| r.print(true))}),
                );
            }
        }
        Ok(Err(e)) => loc.violation(&format!("C05/offset-for-instant/{}/{}/error", zc.kind, src), json!({"zone": zc.label, "unix": u, "error": e})),
        Err(p) => loc.violation(&format!("C05/offset-for-instant/{}/panic@{}", zc.kind, p.site()), json!({"zone": zc.label, "unix": u, "panic": p.to_json()})),
    }
    if let Some(a) = got_public {
        loc.bucket(x.public);
        if matches!(a, Ans::Panic(msg) if msg.starts_with(tzchild::GLUE)) {
            loc.violation(&format!("C05/Local.offset_from_utc_datetime/{}/{}/public-routes-disagree", zc.kind, src), json!({"zone": zc.label, "tz": zc.tz_env, "unix": u, "expected_offset": exp, "observed": a.print()}));
        } else if *a != Ans::Single(exp) {
            loc.violation(&format!("C05/Local.offset_from_utc_datetime/{}/{}/wrong-offset", zc.kind, src), json!({"zone": zc.label, "tz": zc.tz_env, "unix": u, "expected": exp, "observed": a.print()}));
        }
    }
    // round trip: the wall time of u maps back to a result that contains u's offset
    let l = u + exp as i64;
    if l >= min_secs() && l <= max_secs() {
        if let Some(n) = tzchild::ndt_of_secs(l) {
            loc.bucket(x.round);
            match guard(|| zc.zone.offsets_for_local(n)) {
                Ok(r) => {
                    let a = to_ans(r);
                    let contains = match &a {
                        Ans::Single(o) => *o == exp,
                        Ans::Ambiguous(p, q) => *p == exp || *q == exp,
                        _ => false,
                    };
                    if !contains {
                        let cls = if m.interacting_near(l, zc.max_abs_off) { "interacting-transitions" } else { "instant-not-returned" };
                        loc.violation(
                            &format!("C05/round-trip/{}/{}/{}", zc.kind, src, cls),
                            json!({"zone": zc.label, "unix": u, "offset": exp, "wall": l, "observed": a.print(), "rule": m.rule.as_ref().map(|r| r.print(true))}),
                        );
                    }
                }
                Err(p) => loc.violation(&format!("C05/round-trip/{}/panic@{}", zc.kind, p.site()), json!({"zone": zc.label, "unix": u, "panic": p.to_json()})),
            }
        }
    }
    loc.nontrivial(h2(hstr(&zc.label), h2(1, u as u64)));
}

/// Check one wall-clock second.
fn check_local(loc: &mut Local, x: &Ix, zc: &ZoneCase, l: i64, got_public: Option<&Ans>) {
    if l < min_secs() + 2 * 86_400 || l > max_secs() - 2 * 86_400 {
        return;
    }
    let m = &zc.model;
    let cands = m.local_candidates(l, &zc.offsets);
    // scope: every instant that could be involved must be in scope of the rule restriction
    let probe = [l - zc.max_abs_off, l, l + zc.max_abs_off];
    let governed = probe.iter().any(|&u| rule_governs(m, u));
    if governed && probe.iter().any(|&u| rule_governs(m, u) && !rule_scope_ok(m, u)) {
        loc.bucket(x.skip_year);
        return;
    }
    if cands.len() > 2 {
        loc.bucket(x.skip3);
        return;
    }
    let Some(n) = tzchild::ndt_of_secs(l) else { return };
    loc.eval();
    let src = if governed && m.transitions.last().map(|t| l - zc.max_abs_off > t.0).unwrap_or(true) { "rule" } else { "table" };
    let exempt = m.exempt_local(l, zc.max_abs_off);
    let exp = match cands.len() {
        0 => Ans::None,
        1 => Ans::Single(cands[0].1),
        _ => Ans::Ambiguous(cands[0].1, cands[1].1), // earliest instant first
    };
    match &exp {
        Ans::None => {
            loc.bucket(x.l_none);
            loc.bucket(if src == "rule" { x.r_gap } else { x.t_gap });
        }
        Ans::Single(_) => loc.bucket(x.l_single),
        _ => {
            loc.bucket(x.l_amb);
            loc.bucket(if src == "rule" { x.r_fold } else { x.t_fold });
        }
    }
    if exempt.is_some() {
        loc.bucket(x.l_exempt)
    }
    let interacting = m.interacting_near(l, zc.max_abs_off);
    if interacting {
        loc.bucket(x.interacting)
    }
    let judge = |loc: &mut Local, a: &Ans, route: &str| {
        if let Ans::Panic(msg) = a {
            let cls = if msg.starts_with(tzchild::GLUE) { "public-routes-disagree" } else { "panic-or-error" };
            loc.violation(&format!("C05/{}/{}/{}/{}", route, zc.kind, src, cls), json!({"zone": zc.label, "wall": l, "message": msg, "rule": m.rule.as_ref().map(|r| r.print(true))}));
            return;
        }
        if let Some((p, q)) = exempt {
            // boundary second of a gap or fold: only "no panic, offsets among the two involved"
            let ok = match a {
                Ans::None => true,
                Ans::Single(o) => *o == p || *o == q,
                Ans::Ambiguous(o1, o2) => (*o1 == p || *o1 == q) && (*o2 == p || *o2 == q),
                _ => false,
            };
            if !ok {
                let cls = if interacting { "interacting-transitions" } else { "boundary-second-foreign-offset" };
                loc.violation(&format!("C05/{}/{}/{}/{}", route, zc.kind, src, cls), json!({"zone": zc.label, "wall": l, "transition_offsets": [p, q], "observed": a.print()}));
            }
            return;
        }
        if *a != exp {
            let kind = match (&exp, a) {
                (Ans::Ambiguous(e1, e2), Ans::Ambiguous(o1, o2)) if e1 == o2 && e2 == o1 => "ambiguous-not-earliest-first".to_string(),
                (Ans::Single(e), Ans::Ambiguous(o1, o2)) if o1 == o2 && o1 == e => "ambiguous-with-two-equal-offsets-for-unique-time".to_string(),
                (e, o) => format!("expected-{}-got-{}", kind_of(e), kind_of(o)),
            };
            // transitions closer together than their offset changes: one class of its own
            let kind = if interacting { "interacting-transitions".to_string() } else { kind };
            loc.violation(
                &format!("C05/{}/{}/{}/{}", route, zc.kind, src, kind),
                json!({"zone": zc.label, "tz": zc.tz_env, "wall_secs": l, "wall": format!("{:?}", n), "expected": exp.print(), "observed": a.print(), "candidates_utc": cands.iter().map(|c| c.0).collect::<Vec<_>>(), "rule": m.rule.as_ref().map(|r| r.print(true))}),
            );
        }
    };
    loc.bucket(x.hook);
    match guard(|| zc.zone.offsets_for_local(n)) {
        Ok(r) => {
            let a = to_ans(r);
            judge(loc, &a, "wall-time-lookup");
        }
        Err(p) => loc.violation(&format!("C05/wall-time-lookup/{}/panic@{}", zc.kind, p.site()), json!({"zone": zc.label, "wall": l, "panic": p.to_json()})),
    }
    if let Some(a) = got_public {
        loc.bucket(x.public);
        judge(loc, a, "Local.from_local_datetime");
    }
    if exp != Ans::Single(cands.first().map(|c| c.1).unwrap_or(0)) || exempt.is_some() {
        loc.nontrivial(h2(hstr(&zc.label), h2(2, l as u64)));
    }
    loc.sample(|| json!({"zone": zc.label, "wall_secs": l, "wall": format!("{:?}", n), "expected": exp.print(), "exempt_boundary": exempt.is_some()}));
}

fn kind_of(a: &Ans) -> &'static str {
    match a {
        Ans::None => "none",
        Ans::Single(_) => "single",
        Ans::Ambiguous(..) => "ambiguous",
        _ => "other",
    }
}

/// The query plan of one zone: instants and wall seconds around every transition, rule years, sparse.
fn plan(zc: &ZoneCase, rng: &mut Rng, max_trans: usize, n_random: usize) -> (Vec<i64>, Vec<i64>) {
    let m = &zc.model;
    let mut us: Vec<i64> = Vec::new();
    let mut ls: Vec<i64> = Vec::new();
    let around = |t: i64, p: i32, a: i32, us: &mut Vec<i64>, ls: &mut Vec<i64>| {
        let d = (a as i64 - p as i64).abs();
        for k in [-1i64, 0, 1] {
            us.push(t.saturating_add(k));
            us.push(t.saturating_add(d + k));
            us.push(t.saturating_sub(d).saturating_add(k));
        }
        for k in -2i64..=2 {
            ls.push(t.saturating_add(p as i64 + k));
            ls.push(t.saturating_add(a as i64 + k));
        }
        // strictly inside the gap / fold
        ls.push(t.saturating_add((p as i64 + a as i64) / 2));
    };
    // table transitions
    let n = m.transitions.len();
    let idxs: Vec<usize> = if n <= max_trans { (0..n).collect() } else { (0..max_trans).map(|_| rng.below(n as u64) as usize).collect() };
    for i in idxs {
        let (t, _) = m.transitions[i];
        let p = if i == 0 { m.types[0].off } else { m.types[m.transitions[i - 1].1].off };
        let a = m.offset_at(t);
        around(t, p, a, &mut us, &mut ls);
        if i + 1 < n {
            let mid = t / 2 + m.transitions[i + 1].0 / 2;
            us.push(mid);
            ls.push(mid.saturating_add(a as i64));
        }
    }
    if let (Some(f), Some(l)) = (m.transitions.first(), m.transitions.last()) {
        for _ in 0..n_random {
            let lo = f.0.max(min_secs()).saturating_sub(366 * 86_400);
            let hi = l.0.min(max_secs()).saturating_add(366 * 86_400);
            if lo < hi {
                let u = rng.range(lo, hi);
                us.push(u);
                ls.push(u);
            }
        }
    }
    // rule years
    if let Some(r) = &m.rule {
        let base_year = m.transitions.last().map(|t| tz::year_of_unix(t.0.clamp(min_secs(), max_secs()))).unwrap_or(1970);
        let mut years: Vec<i64> = (base_year..base_year + 50).collect();
        years.extend([2037, 2038, 2039, 2100, 2400, 9999, 10000, 99_999, 262_140]);
        if m.transitions.is_empty() {
            years.extend([-262_141, -10_000, -401, -400, -1, 0, 1, 1600, 1900, 1969, 1970, 1971, 2000, 2024]);
        }
        for y in years {
            if y < rc::MIN_YEAR + 2 || y > rc::MAX_YEAR - 2 {
                continue;
            }
            if let Some((s, e)) = r.events(y) {
                let d = r.dst.as_ref().unwrap();
                around(s, r.std.off, d.ty.off, &mut us, &mut ls);
                around(e, d.ty.off, r.std.off, &mut us, &mut ls);
                us.push(s / 2 + e / 2);
                ls.push(s / 2 + e / 2);
            }
            let jan = tz::unix_day_of(y, 1, 15) * 86_400;
            let jul = tz::unix_day_of(y, 7, 15) * 86_400 + 43_200;
            us.extend([jan, jul]);
            ls.extend([jan, jul]);
        }
    }
    for _ in 0..n_random {
        let u = match rng.below(3) {
            0 => rng.range(tz::unix_day_of(1800, 1, 1) * 86_400, tz::unix_day_of(2200, 1, 1) * 86_400),
            1 => rng.range(min_secs(), max_secs()),
            _ => rng.range(0, 4_102_444_800),
        };
        us.push(u);
        ls.push(u);
    }
    us.extend([min_secs(), min_secs() + 1, max_secs() - 1, max_secs(), 0, -1]);
    us.sort();
    us.dedup();
    ls.sort();
    ls.dedup();
    (us, ls)
}

fn classify_rule(loc: &mut Local, x: &Ix, r: &tz::Rule) {
    let Some(d) = &r.dst else { return };
    let (sm, _) = d.start.date_in(2023);
    let (em, _) = d.end.date_in(2023);
    let north = d.start.unix_day_in(2023) < d.end.unix_day_in(2023);
    match (r.std.off.cmp(&d.ty.off), north) {
        (std::cmp::Ordering::Less, true) => loc.bucket(x.r_np),
        (std::cmp::Ordering::Less, false) => loc.bucket(x.r_sp),
        (std::cmp::Ordering::Greater, true) => loc.bucket(x.r_nn),
        (std::cmp::Ordering::Greater, false) => loc.bucket(x.r_sn),
        _ => loc.bucket(x.r_eq),
    }
    if sm == em {
        loc.bucket(x.r_same_month)
    }
    if matches!(d.start, tz::Day::J0(_) | tz::Day::J1(_)) || matches!(d.end, tz::Day::J0(_) | tz::Day::J1(_)) {
        loc.bucket(x.r_julian)
    }
    if !(0..=86_400).contains(&d.start_time) || !(0..=86_400).contains(&d.end_time) {
        loc.bucket(x.r_v3)
    }
}

fn run_zone(rep: &Report, ctx: &Ctx, x: &Ix, zc: &ZoneCase, shard: u64, max_trans: usize, n_random: usize, public_sample: usize) {
    let mut loc = rep.local();
    let mut rng = Rng::new(ctx.seed, "C05/plan", shard ^ hstr(&zc.label));
    loc.bucket(match zc.kind {
        "real" => x.real,
        "synthetic" => x.synth,
        _ => x.posix,
    });
    if let Some(r) = &zc.model.rule {
        classify_rule(&mut loc, x, r);
    }
    // equal-offset table transitions
    for i in 0..zc.model.transitions.len() {
        let p = if i == 0 { zc.model.types[0].off } else { zc.model.types[zc.model.transitions[i - 1].1].off };
        if zc.model.types[zc.model.transitions[i].1].off == p {
            loc.bucket(x.t_eq);
        }
    }
    let (us, ls) = plan(zc, &mut rng, max_trans, n_random);
    // public route: a sample of the plan through a child process
    let mut pub_u: Vec<(usize, Ans)> = Vec::new();
    let mut pub_l: Vec<(usize, Ans)> = Vec::new();
    if let (Some(tzv), true) = (&zc.tz_env, public_sample > 0) {
        let mut q: Vec<(char, i64)> = Vec::new();
        let mut ui: Vec<usize> = Vec::new();
        let mut li: Vec<usize> = Vec::new();
        for _ in 0..public_sample.min(us.len()) {
            let i = rng.below(us.len() as u64) as usize;
            if us[i] >= min_secs() && us[i] <= max_secs() {
                ui.push(i);
                q.push(('U', us[i]));
            }
        }
        for _ in 0..(2 * public_sample).min(ls.len()) {
            let i = rng.below(ls.len() as u64) as usize;
            if ls[i] >= min_secs() + 2 * 86_400 && ls[i] <= max_secs() - 2 * 86_400 {
                li.push(i);
                q.push(('L', ls[i]));
            }
        }
        match tzchild::run_child(&ctx.work_dir, &format!("{:016x}", hstr(&zc.label)), Some(tzv), &q) {
            Ok(ans) => {
                for (k, a) in ans.into_iter().enumerate() {
                    if k < ui.len() {
                        pub_u.push((ui[k], a));
                    } else {
                        pub_l.push((li[k - ui.len()], a));
                    }
                }
            }
            Err(e) if e.starts_with(tzchild::SPAWN_FAILED) => loc.rep.harness_error(format!("C05 public route: {}", e)),
            Err(e) => loc.violation(&format!("C05/public-route/{}/child-died", zc.kind), json!({"zone": zc.label, "tz": tzv, "error": e})),
        }
    }
    for (i, &u) in us.iter().enumerate() {
        let p = pub_u.iter().find(|(k, _)| *k == i).map(|(_, a)| a);
        check_instant(&mut loc, x, zc, u, p);
    }
    for (i, &l) in ls.iter().enumerate() {
        let p = pub_l.iter().find(|(k, _)| *k == i).map(|(_, a)| a);
        check_local(&mut loc, x, zc, l, p);
    }
}

/// All TZif files of the system database (path, bytes), deduplicated by content.
pub fn system_zone_files() -> Vec<(String, Vec<u8>)> {
    let mut out = Vec::new();
    let mut seen = std::collections::HashSet::new();
    let mut stack = vec![PathBuf::from("/usr/share/zoneinfo")];
    while let Some(d) = stack.pop() {
        let Ok(rd) = std::fs::read_dir(&d) else { continue };
        let mut entries: Vec<_> = rd.filter_map(|e| e.ok()).map(|e| e.path()).collect();
        entries.sort();
        for p in entries {
            if p.is_dir() {
                stack.push(p);
            } else if let Ok(b) = std::fs::read(&p) {
                if b.starts_with(b"TZif") && seen.insert(crate::mon::hbytes(&b)) {
                    out.push((p.to_string_lossy().to_string(), b));
                }
            }
        }
    }
    out.sort_by(|a, b| a.0.cmp(&b.0));
    out
}

const AWKWARD: &[&str] = &[
    "Europe/London", "Europe/Lisbon", "Europe/Dublin", "Africa/Casablanca", "Australia/Lord_Howe", "Pacific/Apia", "America/St_Johns", "Asia/Kathmandu",
    "Antarctica/Troll", "Europe/Berlin", "America/New_York", "Etc/UTC", "EST5EDT", "America/Nuuk", "Asia/Tehran", "Pacific/Chatham",
];

fn max_abs(offsets: &[i32]) -> i64 {
    offsets.iter().map(|o| (*o as i64).abs()).max().unwrap_or(0)
}

pub fn run(ctx: &Ctx) -> Outcome {
    let rep = Report::new("C05", B, FLOOR);
    if let Err(e) = rc::self_test().and_then(|_| tz::self_test()) {
        rep.harness_error(e);
        return rep.finish(ctx, "self-test failed", &[]);
    }
    let x = ix();
    let thorough = ctx.tier == crate::mon::Tier::Thorough;
    let mut cases: Vec<ZoneCase> = Vec::new();
    let mut n_leap_skipped = 0u64;
    let mut n_unreadable = 0u64;

    // 1. system database
    let files = system_zone_files();
    let mut rng = Rng::new(ctx.seed, "C05/zones", 0);
    let n_pick = if thorough { files.len() } else { 60 };
    let mut chosen: Vec<usize> = (0..files.len()).filter(|i| AWKWARD.iter().any(|a| files[*i].0 == format!("/usr/share/zoneinfo/{}", a))).collect();
    if thorough {
        chosen = (0..files.len()).collect();
    } else {
        while chosen.len() < n_pick.min(files.len()) {
            let i = rng.below(files.len() as u64) as usize;
            if !chosen.contains(&i) {
                chosen.push(i);
            }
        }
    }
    for i in chosen {
        let (path, bytes) = &files[i];
        match tz::read_tzif(bytes) {
            Ok((_, model, _)) => {
                if model.has_leaps() {
                    n_leap_skipped += 1;
                    continue;
                }
                match guard(|| Zone::from_tz_data(bytes)) {
                    Ok(Ok(zone)) => {
                        let offsets = model.all_offsets();
                        let mx = max_abs(&offsets);
                        cases.push(ZoneCase { label: path.clone(), kind: "real", model, zone, tz_env: Some(format!(":{}", path)), offsets, max_abs_off: mx });
                    }
                    other => rep.violation("C05/system-zone/rejected-by-chrono", json!({"zone": path, "result": format!("{:?}", other.map(|r| r.map(|_| "zone")))})),
                }
            }
            Err(_) => n_unreadable += 1,
        }
    }
    rep.set_extra("system_tzif_files_found", json!(files.len()));
    rep.set_extra("system_zones_with_leap_records_skipped", json!(n_leap_skipped));
    rep.set_extra("system_zones_unreadable_by_reference_reader", json!(n_unreadable));

    // 2. synthetic TZif files from random models
    std::fs::create_dir_all(&ctx.work_dir).ok();
    let n_synth = ctx.n(300, 12_000) as usize;
    let mut n_synth_rejected = 0u64;
    for k in 0..n_synth {
        let mut rng = Rng::new(ctx.seed, "C05/synth", k as u64);
        let version = 1 + rng.below(3) as u8;
        let n_trans = match rng.below(6) {
            0 => 0,
            1 => rng.below(4) as usize,
            2 => rng.below(2000) as usize,
            _ => rng.below(60) as usize,
        };
        let with_rule = version >= 2 && rng.chance(2, 3);
        let mut model = tz::random_model(&mut rng, n_trans, with_rule, version == 3, version == 1);
        if version < 3 {
            // v2 footers cannot carry the extended times
            if let Some(r) = &mut model.rule {
                if let Some(d) = &mut r.dst {
                    d.start_time = d.start_time.clamp(0, 86_400);
                    d.end_time = d.end_time.clamp(0, 86_400);
                }
                // keep the footer consistent with the last transition after clamping
                if let Some(last) = model.transitions.last().copied() {
                    let ty = model.rule.as_ref().unwrap().type_at(last.0).clone();
                    let pos = match model.types.iter().position(|t| *t == ty) {
                        Some(p) => p,
                        None => {
                            model.types.push(ty);
                            model.types.len() - 1
                        }
                    };
                    let n = model.transitions.len();
                    model.transitions[n - 1].1 = pos;
                }
            }
        }
        let bytes = tz::write_tzif(&model, &tz::WriteOpts { version, indicators: rng.chance(1, 2), full_v1: rng.chance(1, 2), footer_override: None });
        // the oracle for a written file is the model as the *reference reader* sees it (footer printed and re-read)
        let model = match tz::read_tzif(&bytes) {
            Ok((_, m, _)) => m,
            Err(e) => {
                rep.harness_error(format!("reference reader rejects reference writer output: {}", e));
                continue;
            }
        };
        match guard(|| Zone::from_tz_data(&bytes)) {
            Ok(Ok(zone)) => {
                let offsets = model.all_offsets();
                let mx = max_abs(&offsets);
                // public route for a share of them: write the file
                let tz_env = if k % 4 == 0 && mx < 86_400 {
                    let p = ctx.work_dir.join(format!("synth-{}.tzif", k));
                    std::fs::write(&p, &bytes).ok().map(|_| format!(":{}", p.display()))
                } else {
                    None
                };
                cases.push(ZoneCase { label: format!("synthetic-{}-v{}", k, version), kind: "synthetic", model, zone, tz_env, offsets, max_abs_off: mx });
            }
            _ => n_synth_rejected += 1, // acceptance is C16's business
        }
    }
    rep.set_extra("synthetic_zones_rejected_by_chrono", json!(n_synth_rejected));

    // 3. POSIX rules
    let n_posix = ctx.n(400, 20_000) as usize;
    let mut n_posix_rejected = 0u64;
    let fixed_rules = [
        "EST5EDT,M3.2.0,M11.1.0", "AEST-10AEDT,M10.1.0,M4.1.0/3", "IST-1GMT0,M10.5.0,M3.5.0/1", "<-02>2<-01>,M3.5.0/-1,M10.5.0/0", "AAA0BBB,M3.1.0,M3.5.0",
        "CET-1CEST,M3.5.0,M10.5.0/3", "NZST-12NZDT,M9.5.0,M4.1.0/3", "<+0330>-3:30<+0430>,J79/24,J263/24", "XXX3YYY,100/0,300/0", "LHST-10:30LHDT-11,M10.1.0,M4.1.0",
        "WET0WEST,M3.5.0/1,M10.5.0", "AAA-5BBB-4,M11.1.0,M2.3.0", "AAA4BBB5,M4.2.3/1:30,M9.2.3/1:30", "AAA4BBB5,M9.2.3/1:30,M4.2.3/1:30", "AAA4BBB4,M3.2.0,M11.1.0", "UTC0",
    ];
    for k in 0..n_posix {
        let mut rng = Rng::new(ctx.seed, "C05/posix", k as u64);
        let ext = rng.chance(1, 3);
        let (text, rule) = if k < fixed_rules.len() {
            match tz::parse_posix(fixed_rules[k], true) {
                Ok(r) => (fixed_rules[k].to_string(), r),
                Err(e) => {
                    rep.harness_error(format!("reference parser rejects {}: {}", fixed_rules[k], e));
                    continue;
                }
            }
        } else {
            let r = tz::random_rule(&mut rng, ext, true);
            (r.print(rng.chance(1, 3)), r)
        };
        let ext = ext || k < fixed_rules.len();
        let model = ZoneModel { transitions: vec![], types: vec![rule.std.clone()], leaps: vec![], rule: Some(rule) };
        match guard(|| Zone::from_tz_string(&text, ext)) {
            Ok(Ok(zone)) => {
                let offsets = model.all_offsets();
                let mx = max_abs(&offsets);
                // TZ strings on the public route are parsed without the v3 extensions
                let plain_ok = tz::parse_posix(&text, false).is_ok() && mx < 86_400;
                let tz_env = if k % 3 == 0 && plain_ok && !std::path::Path::new("/usr/share/zoneinfo").join(&text).exists() { Some(text.clone()) } else { None };
                cases.push(ZoneCase { label: format!("TZ={}", text), kind: "posix", model, zone, tz_env, offsets, max_abs_off: mx });
            }
            _ => n_posix_rejected += 1,
        }
    }
    rep.set_extra("posix_rules_rejected_by_chrono", json!(n_posix_rejected));
    rep.set_extra("zones_under_test", json!(cases.len()));

    let (max_trans, n_random, public_sample) = if thorough { (100_000usize, 400usize, 150usize) } else { (400usize, 60usize, 40usize) };
    let cases = &cases;
    par_shards(&rep, ctx.threads, cases.len(), |i| {
        let zc = &cases[i];
        let mt = if zc.kind == "real" { max_trans } else { max_trans.min(300) };
        run_zone(&rep, ctx, &x, zc, i as u64, mt, n_random, public_sample);
    });
    rep.finish(
        ctx,
        "zones: TZif files of /usr/share/zoneinfo without leap-second records (quick: 16 awkward + seed-chosen up to 60; thorough: all), synthetic TZif v1-v3 files from random models (0-2000 transitions, arbitrary offsets incl. equal-offset transitions, optional footer), random and fixed POSIX rules (M/J/n days, explicit and v3 times, both hemispheres, negative DST, same-month rules); per zone: every (or 400 sampled) transition T: instants T+{-1,0,1}, T±|Δ|±1, wall seconds T+before+k and T+after+k for k in -2..2, gap/fold midpoints, interval midpoints, 50 rule years + far years, random instants, both range ends; each instant also round-trips through its wall time; a sample per zone goes through the public Local API in a child process with TZ set. Oracle: definition-based offset lookup and brute-force wall-time candidates over the zone's offsets. Non-trivial: every instant query, and wall-time queries whose answer is none/ambiguous or a boundary second; distinct = distinct (zone, kind, second) (hashed bitmap)",
        &["R-tz oracle (self-tested each run)", "rule-governed queries are judged only in years whose rule transitions lie more than one day inside the calendar year and two days apart (property restriction); boundary seconds T+before / T+after of gaps and folds are exempt except for 'no panic, no foreign offset'", "wall times with more than two candidate instants (pathological synthetic zones) are outside MappedLocalTime's contract and skipped"],
    )
}
