//! C04 — zone-aware date-times: one instant, many wall clocks. Oracle: wall = utc + offset on
//! R-inst; R-cal accepts wall dates one day beyond the nominal range (the "headroom").

use crate::gen;
use crate::mon::{guard, h2, par_shards, Ctx, Local, Outcome, Report};
use crate::refcal as rc;
use crate::refinst::{self as ri, RDt};
use crate::rng::Rng;
use crate::zones::{step_candidates, step_off, StepTz, STEP_T0, STEP_T1};
use chrono::{DateTime, Datelike, Days, FixedOffset, MappedLocalTime, Months, NaiveTime, TimeDelta, TimeZone, Timelike, Utc};
use serde_json::{json, Value};
use std::collections::hash_map::DefaultHasher;
use std::hash::{Hash, Hasher};

const B: &[&str] = &[
    "wall_in_headroom_high", "wall_in_headroom_low", "wall_day_rolls_forward", "wall_day_rolls_back", "offset_extreme", "offset_with_seconds",
    "from_local_some", "from_local_refused_high", "from_local_refused_low", "naive_local_ok", "naive_local_documented_panic",
    "pairs_equal_instant_diff_offset", "pairs_ordered", "convert_zone", "accessors", "text_forms", "leap_second_value",
    "replace_some", "replace_none_no_such_value", "replace_none_instant_out_of_range", "replace_in_headroom", "with_year_same_year_headroom",
    "with_time", "step_days_some", "step_days_none", "step_months_some", "step_months_none", "step_from_headroom", "variable_offset_zone",
    "local_zone_conversions", "deprecated_panicking_twins",
];
const FLOOR: &[&str] = B;

fn bi(n: &str) -> usize {
    B.iter().position(|x| *x == n).unwrap()
}

#[derive(Clone, Copy, Debug)]
struct Z {
    u: RDt,
    off: i64,
}

impl Z {
    /// wall-clock reading (day may be one outside the nominal range)
    fn wall(&self) -> RDt {
        let t = self.u.secs + self.off;
        RDt::new(self.u.day + t.div_euclid(86_400), t.rem_euclid(86_400), self.u.frac)
    }
    fn build(&self) -> Option<DateTime<FixedOffset>> {
        let n = self.u.to_chrono()?;
        Some(FixedOffset::east_opt(self.off as i32)?.from_utc_datetime(&n))
    }
    fn j(&self) -> Value {
        json!({"utc": format!("{:?}", self.u.to_chrono()), "offset_secs": self.off})
    }
}

/// Convert a wall reading back to the instant for a given offset: (utc RDt, in range?)
fn utc_of_wall(w: RDt, off: i64) -> (RDt, bool) {
    let t = w.secs - off;
    let u = RDt::new(w.day + t.div_euclid(86_400), t.rem_euclid(86_400), w.frac);
    (u, rc::in_range_day(u.day))
}

fn headroom(w: &RDt) -> i32 {
    if w.day > rc::max_day() {
        1
    } else if w.day < rc::min_day() {
        -1
    } else {
        0
    }
}

fn fmt_year(y: i64) -> String {
    if (0..=9999).contains(&y) {
        format!("{:04}", y)
    } else {
        format!("{:+05}", y)
    }
}

fn fmt_offset(off: i64) -> String {
    let (s, a) = if off < 0 { ('-', -off) } else { ('+', off) };
    if a % 60 == 0 {
        format!("{}{:02}:{:02}", s, a / 3600, a / 60 % 60)
    } else {
        format!("{}{:02}:{:02}:{:02}", s, a / 3600, a / 60 % 60, a % 60)
    }
}

/// (date text, time text as Debug prints it)
fn fmt_wall(w: &RDt) -> (String, String) {
    let (y, m, d) = rc::civil_from_days(w.day);
    let (hh, mm, ss) = w.hms();
    let (ss, nano) = if w.frac >= 1_000_000_000 { (ss + 1, w.frac - 1_000_000_000) } else { (ss, w.frac) };
    let frac = if nano == 0 {
        String::new()
    } else if nano % 1_000_000 == 0 {
        format!(".{:03}", nano / 1_000_000)
    } else if nano % 1000 == 0 {
        format!(".{:06}", nano / 1000)
    } else {
        format!(".{:09}", nano)
    };
    (format!("{}-{:02}-{:02}", fmt_year(y), m, d), format!("{:02}:{:02}:{:02}{}", hh, mm, ss, frac))
}

fn hash_of<T: Hash>(t: &T) -> u64 {
    let mut h = DefaultHasher::new();
    t.hash(&mut h);
    h.finish()
}

struct Ix {
    hr_hi: usize, hr_lo: usize, roll_f: usize, roll_b: usize, off_ext: usize, off_sec: usize, fl_some: usize, fl_hi: usize, fl_lo: usize,
    nl_ok: usize, nl_panic: usize, p_eq: usize, p_ord: usize, conv: usize, acc: usize, text: usize, leap: usize, r_some: usize, r_none_val: usize,
    r_none_range: usize, r_head: usize, wy_same: usize, with_time: usize, sd_some: usize, sd_none: usize, sm_some: usize, sm_none: usize, s_head: usize,
}

fn ix() -> Ix {
    Ix {
        hr_hi: bi("wall_in_headroom_high"), hr_lo: bi("wall_in_headroom_low"), roll_f: bi("wall_day_rolls_forward"), roll_b: bi("wall_day_rolls_back"),
        off_ext: bi("offset_extreme"), off_sec: bi("offset_with_seconds"), fl_some: bi("from_local_some"), fl_hi: bi("from_local_refused_high"),
        fl_lo: bi("from_local_refused_low"), nl_ok: bi("naive_local_ok"), nl_panic: bi("naive_local_documented_panic"), p_eq: bi("pairs_equal_instant_diff_offset"),
        p_ord: bi("pairs_ordered"), conv: bi("convert_zone"), acc: bi("accessors"), text: bi("text_forms"), leap: bi("leap_second_value"), r_some: bi("replace_some"),
        r_none_val: bi("replace_none_no_such_value"), r_none_range: bi("replace_none_instant_out_of_range"), r_head: bi("replace_in_headroom"),
        wy_same: bi("with_year_same_year_headroom"), with_time: bi("with_time"), sd_some: bi("step_days_some"), sd_none: bi("step_days_none"),
        sm_some: bi("step_months_some"), sm_none: bi("step_months_none"), s_head: bi("step_from_headroom"),
    }
}

/// Construction, accessors, text for one value
fn case_value(loc: &mut Local, x: &Ix, z: Z) {
    let Some(un) = z.u.to_chrono() else { return };
    let Some(fo) = FixedOffset::east_opt(z.off as i32) else { return };
    loc.eval();
    let w = z.wall();
    let hr = headroom(&w);
    if hr > 0 {
        loc.bucket(x.hr_hi)
    }
    if hr < 0 {
        loc.bucket(x.hr_lo)
    }
    if w.day > z.u.day {
        loc.bucket(x.roll_f)
    }
    if w.day < z.u.day {
        loc.bucket(x.roll_b)
    }
    if z.off.abs() == 86_399 {
        loc.bucket(x.off_ext)
    }
    if z.off % 60 != 0 {
        loc.bucket(x.off_sec)
    }
    if z.u.is_leap() {
        loc.bucket(x.leap)
    }
    let cls = if hr != 0 { "wall-in-headroom" } else { "wall-in-range" };
    // from_utc_datetime . naive_utc == id
    let dt = match guard(|| fo.from_utc_datetime(&un)) {
        Ok(d) => d,
        Err(p) => return loc.violation(&format!("C04/from_utc_datetime/panic@{}", p.site()), json!({"input": z.j(), "panic": p.to_json()})),
    };
    if dt.naive_utc() != un || dt.offset().local_minus_utc() as i64 != z.off {
        loc.violation(&format!("C04/from_utc_datetime/utc-readback-differs/{}", cls), json!({"input": z.j(), "observed": format!("{:?}", dt.naive_utc())}));
    }
    // naive_local / date_naive: the wall value iff it is inside NaiveDateTime's range; else the documented panic
    let nl = guard(|| dt.naive_local());
    let dn = guard(|| dt.date_naive());
    if hr == 0 {
        loc.bucket(x.nl_ok);
        match (&nl, &dn) {
            (Ok(v), Ok(d)) => {
                if RDt::of(v) != w || d.num_days_from_ce() as i64 != w.day {
                    loc.violation("C04/naive_local/wrong-wall-clock", json!({"input": z.j(), "expected": format!("{:?}", w), "observed": format!("{:?}", v)}));
                }
            }
            _ => loc.violation("C04/naive_local/panics-though-wall-clock-in-range", json!({"input": z.j(), "expected": format!("{:?}", w)})),
        }
    } else {
        loc.bucket(x.nl_panic);
        if let Ok(v) = &nl {
            loc.violation("C04/naive_local/returns-out-of-range-value", json!({"input": z.j(), "observed": format!("{:?}", v)}));
        }
        if let Ok(v) = &dn {
            loc.violation("C04/date_naive/returns-out-of-range-value", json!({"input": z.j(), "observed": format!("{:?}", v)}));
        }
    }
    // from_local_datetime(wall) is the identity when the wall value is representable
    if let (0, Ok(l)) = (hr, &nl) {
        match guard(|| fo.from_local_datetime(l)) {
            Ok(MappedLocalTime::Single(b)) => {
                loc.bucket(x.fl_some);
                if b != dt || b.naive_utc() != un || guard(|| b.naive_local()).ok() != Some(*l) {
                    loc.violation("C04/from_local_datetime/not-inverse-of-naive_local", json!({"input": z.j(), "local": format!("{:?}", l), "observed_utc": format!("{:?}", b.naive_utc())}));
                }
            }
            Ok(other) => loc.violation("C04/from_local_datetime/refuses-representable", json!({"input": z.j(), "local": format!("{:?}", l), "observed": format!("{:?}", other.map(|d| d.naive_utc()))})),
            Err(p) => loc.violation(&format!("C04/from_local_datetime/panic@{}", p.site()), json!({"input": z.j(), "panic": p.to_json()})),
        }
    }
    // accessors act on the wall clock (also in the headroom)
    loc.bucket(x.acc);
    let (y, m, d) = rc::civil_from_days(w.day);
    let (_, o) = rc::yo_from_days(w.day);
    let (iy, iw, iwd) = rc::iso_from_days(w.day);
    let (hh, mm, ss) = w.hms();
    let acc = guard(|| {
        let k = dt.iso_week();
        (
            [dt.year() as i64, dt.month() as i64, dt.day() as i64, dt.ordinal() as i64, dt.month0() as i64, dt.day0() as i64, dt.ordinal0() as i64, dt.weekday().num_days_from_monday() as i64,
             k.year() as i64, k.week() as i64, dt.hour() as i64, dt.minute() as i64, dt.second() as i64, dt.nanosecond() as i64, dt.num_days_from_ce() as i64, dt.quarter() as i64],
            dt.time(),
            dt.hour12(),
            dt.year_ce(),
        )
    });
    match acc {
        Ok((f, t, h12, yce)) => {
            let e = [y, m, d, o, m - 1, d - 1, o - 1, iwd, iy, iw, hh, mm, ss, w.frac, w.day, (m - 1) / 3 + 1];
            let h12e = (hh >= 12, if hh % 12 == 0 { 12 } else { (hh % 12) as u32 });
            let ycee = if y >= 1 { (true, y as u32) } else { (false, (1 - y) as u32) };
            if f != e || t.num_seconds_from_midnight() as i64 != w.secs || t.nanosecond() as i64 != w.frac || h12 != h12e || yce != ycee {
                loc.violation(&format!("C04/accessors/not-the-wall-clock/{}", cls), json!({"input": z.j(), "expected": e.to_vec(), "observed": f.to_vec(), "time": format!("{:?}", t)}));
            }
        }
        Err(p) => loc.violation(&format!("C04/accessors/panic@{}/{}", p.site(), cls), json!({"input": z.j(), "panic": p.to_json()})),
    }
    // text forms
    loc.bucket(x.text);
    let (ds, ts) = fmt_wall(&w);
    let exp_dbg = format!("{}T{}{}", ds, ts, fmt_offset(z.off));
    let exp_dsp = format!("{} {} {}", ds, ts, fmt_offset(z.off));
    let exp_fmt = {
        let (ssx, nano) = if w.frac >= 1_000_000_000 { (ss + 1, w.frac - 1_000_000_000) } else { (ss, w.frac) };
        format!("{}-{:02}-{:02}T{:02}:{:02}:{:02}.{:09}", if (0..=9999).contains(&y) { format!("{:04}", y) } else { format!("{:+05}", y) }, m, d, hh, mm, ssx, nano)
    };
    match guard(|| (format!("{:?}", dt), format!("{}", dt), dt.format("%Y-%m-%dT%H:%M:%S%.9f").to_string())) {
        Ok((a, b, c)) => {
            if a != exp_dbg || b != exp_dsp || c != exp_fmt {
                loc.violation(&format!("C04/text/not-the-wall-clock/{}", cls), json!({"input": z.j(), "expected": [exp_dbg, exp_dsp, exp_fmt], "observed": [a, b, c]}));
            }
        }
        Err(p) => loc.violation(&format!("C04/text/panic@{}/{}", p.site(), cls), json!({"input": z.j(), "panic": p.to_json()})),
    }
    if hr != 0 || w.day != z.u.day || z.off.abs() >= 86_340 || z.u.is_leap() {
        loc.nontrivial(h2(1, h2(z.u.ns() as u64, z.off as u64)));
    }
    loc.sample(|| json!({"utc": format!("{:?}", un), "offset": z.off, "wall": exp_dbg}));
}

/// from_local_datetime for an arbitrary local reading
fn case_from_local(loc: &mut Local, x: &Ix, l: RDt, off: i64) {
    let (Some(ln), Some(fo)) = (l.to_chrono(), FixedOffset::east_opt(off as i32)) else { return };
    loc.eval();
    let (u, ok) = utc_of_wall(l, off);
    match guard(|| fo.from_local_datetime(&ln)) {
        Ok(r) => {
            let got = match r {
                MappedLocalTime::Single(v) => Some(v),
                MappedLocalTime::None => None,
                MappedLocalTime::Ambiguous(..) => {
                    loc.violation("C04/from_local_datetime/ambiguous-for-fixed-offset", json!({"local": format!("{:?}", ln), "offset": off}));
                    None
                }
            };
            let got_u = got.map(|g| RDt::of(&g.naive_utc()));
            let exp = if ok { Some(u) } else { None };
            if got_u != exp {
                loc.violation(
                    &format!("C04/from_local_datetime/{}", if exp.is_none() { "some-though-utc-out-of-range" } else if got_u.is_none() { "refuses-representable" } else { "wrong-instant" }),
                    json!({"local": format!("{:?}", ln), "offset": off, "expected_utc": format!("{:?}", exp), "observed_utc": format!("{:?}", got_u)}),
                );
            }
            if ok {
                loc.bucket(x.fl_some)
            } else if u.day > rc::max_day() {
                loc.bucket(x.fl_hi)
            } else {
                loc.bucket(x.fl_lo)
            }
            // and_local_timezone is the same thing
            if let Ok(r2) = guard(|| ln.and_local_timezone(fo)) {
                if r2.single().map(|g| g.naive_utc()) != got.map(|g| g.naive_utc()) {
                    loc.violation("C04/and_local_timezone/differs-from-from_local_datetime", json!({"local": format!("{:?}", ln), "offset": off}));
                }
            }
        }
        Err(p) => loc.violation(&format!("C04/from_local_datetime/panic@{}", p.site()), json!({"local": format!("{:?}", ln), "offset": off, "panic": p.to_json()})),
    }
    if !ok || (u.day - rc::max_day()).abs() <= 1 || (u.day - rc::min_day()).abs() <= 1 {
        loc.nontrivial(h2(2, h2(l.ns() as u64, off as u64)));
    }
}

/// Equality, order, hash depend only on the instant; zone conversion keeps the instant
fn case_pair(loc: &mut Local, x: &Ix, a: Z, b: Z) {
    let (Some(da), Some(db)) = (a.build(), b.build()) else { return };
    loc.eval();
    let e = a.u.cmp(&b.u); // RDt orders by (day, secs, frac) = instant order incl. leap fractions
    if e == std::cmp::Ordering::Equal && a.off != b.off {
        loc.bucket(x.p_eq)
    } else {
        loc.bucket(x.p_ord)
    }
    let r = guard(|| {
        let ub = db.with_timezone(&Utc);
        (da == db, da.cmp(&db), da.partial_cmp(&db), da < db, da > ub, da == ub, hash_of(&da) == hash_of(&db), da.partial_cmp(&ub))
    });
    match r {
        Ok((eq, c, pc, lt, gt_u, eq_u, heq, pcu)) => {
            use std::cmp::Ordering::*;
            if eq != (e == Equal) || c != e || pc != Some(e) || lt != (e == Less) || gt_u != (e == Greater) || eq_u != (e == Equal) || pcu != Some(e) {
                loc.violation("C04/compare/depends-on-offset", json!({"a": a.j(), "b": b.j(), "expected": format!("{:?}", e), "eq": eq, "cmp": format!("{:?}", c)}));
            }
            if e == Equal && !heq {
                loc.violation("C04/hash/equal-instants-hash-differently", json!({"a": a.j(), "b": b.j()}));
            }
        }
        Err(p) => loc.violation(&format!("C04/compare/panic@{}", p.site()), json!({"a": a.j(), "b": b.j(), "panic": p.to_json()})),
    }
    // conversions
    loc.bucket(x.conv);
    if let Some(fo_b) = FixedOffset::east_opt(b.off as i32) {
        match guard(|| (da.with_timezone(&fo_b), da.fixed_offset(), da.to_utc(), da.with_timezone(&Utc), DateTime::<Utc>::from(da), DateTime::<FixedOffset>::from(da.to_utc()))) {
            Ok((c1, c2, c3, c4, c5, c6)) => {
                let un = da.naive_utc();
                if c1.naive_utc() != un || c1.offset().local_minus_utc() as i64 != b.off || c2.naive_utc() != un || c2.offset().local_minus_utc() as i64 != a.off
                    || c3.naive_utc() != un || c4.naive_utc() != un || c5.naive_utc() != un || c6.naive_utc() != un || c6.offset().local_minus_utc() != 0
                {
                    loc.violation("C04/with_timezone/instant-or-offset-changed", json!({"a": a.j(), "to_offset": b.off}));
                }
            }
            Err(p) => loc.violation(&format!("C04/with_timezone/panic@{}", p.site()), json!({"a": a.j(), "panic": p.to_json()})),
        }
    }
    // conversions through `Local` (the process zone) keep the instant as well
    match guard(|| {
        let l: DateTime<chrono::Local> = DateTime::<chrono::Local>::from(da);
        let l2: DateTime<chrono::Local> = DateTime::<chrono::Local>::from(da.to_utc());
        (l.naive_utc(), l2.naive_utc(), DateTime::<Utc>::from(l).naive_utc(), DateTime::<FixedOffset>::from(l).naive_utc(), da.with_timezone(&chrono::Local) == da)
    }) {
        Ok((n1, n2, n3, n4, eq)) => {
            let un = da.naive_utc();
            if n1 != un || n2 != un || n3 != un || n4 != un || !eq {
                loc.violation("C04/From-conversions-through-Local/instant-changed", json!({"a": a.j()}));
            }
        }
        Err(p) => loc.violation(&format!("C04/From-conversions-through-Local/panic@{}", p.site()), json!({"a": a.j(), "panic": p.to_json()})),
    }
    if e == std::cmp::Ordering::Equal || (a.u.ns() - b.u.ns()).abs() < 2 * ri::NS {
        loc.nontrivial(h2(3, h2(h2(a.u.ns() as u64, a.off as u64), h2(b.u.ns() as u64, b.off as u64))));
    }
}

#[derive(Clone, Copy, Debug)]
enum Rep {
    Year(i64),
    Month(i64),
    Month0(i64),
    Day(i64),
    Day0(i64),
    Ordinal(i64),
    Ordinal0(i64),
    Hour(i64),
    Minute(i64),
    Second(i64),
    Nano(i64),
}

impl Rep {
    fn name(&self) -> &'static str {
        match self {
            Rep::Year(_) => "with_year",
            Rep::Month(_) => "with_month",
            Rep::Month0(_) => "with_month0",
            Rep::Day(_) => "with_day",
            Rep::Day0(_) => "with_day0",
            Rep::Ordinal(_) => "with_ordinal",
            Rep::Ordinal0(_) => "with_ordinal0",
            Rep::Hour(_) => "with_hour",
            Rep::Minute(_) => "with_minute",
            Rep::Second(_) => "with_second",
            Rep::Nano(_) => "with_nanosecond",
        }
    }
    fn arg(&self) -> i64 {
        match *self {
            Rep::Year(v) | Rep::Month(v) | Rep::Month0(v) | Rep::Day(v) | Rep::Day0(v) | Rep::Ordinal(v) | Rep::Ordinal0(v) | Rep::Hour(v) | Rep::Minute(v) | Rep::Second(v) | Rep::Nano(v) => v,
        }
    }
    /// new wall reading, or None if no such date/time exists. Second tuple field: identity shortcut (with_year(current year)).
    fn apply(&self, w: &RDt) -> (Option<RDt>, bool) {
        let (y, m, d) = rc::civil_from_days(w.day);
        let date = |yy: i64, mm: i64, dd: i64| -> Option<RDt> {
            if (1..=12).contains(&mm) && rc::valid_ymd(yy, mm, dd) {
                Some(RDt::new(rc::day_number(yy, mm, dd), w.secs, w.frac))
            } else {
                None
            }
        };
        let ord = |oo: i64| -> Option<RDt> {
            if oo >= 1 && oo <= rc::days_in_year(y) {
                Some(RDt::new(rc::day_number_yo(y, oo), w.secs, w.frac))
            } else {
                None
            }
        };
        match *self {
            Rep::Year(v) => {
                if v == y {
                    (Some(*w), true)
                } else {
                    (date(v, m, d), false)
                }
            }
            Rep::Month(v) => (date(y, v, d), false),
            Rep::Month0(v) => (if v >= u32::MAX as i64 { None } else { date(y, v + 1, d) }, false),
            Rep::Day(v) => (date(y, m, v), false),
            Rep::Day0(v) => (if v >= u32::MAX as i64 { None } else { date(y, m, v + 1) }, false),
            Rep::Ordinal(v) => (ord(v), false),
            Rep::Ordinal0(v) => (if v >= u32::MAX as i64 { None } else { ord(v + 1) }, false),
            Rep::Hour(v) => (if v < 24 { Some(RDt::new(w.day, v * 3600 + w.secs % 3600, w.frac)) } else { None }, false),
            Rep::Minute(v) => (if v < 60 { Some(RDt::new(w.day, w.secs / 3600 * 3600 + v * 60 + w.secs % 60, w.frac)) } else { None }, false),
            Rep::Second(v) => (if v < 60 { Some(RDt::new(w.day, w.secs / 60 * 60 + v, w.frac)) } else { None }, false),
            Rep::Nano(v) => (if v < 2_000_000_000 { Some(RDt::new(w.day, w.secs, v)) } else { None }, false),
        }
    }
    fn call(&self, dt: &DateTime<FixedOffset>) -> Option<DateTime<FixedOffset>> {
        match *self {
            Rep::Year(v) => dt.with_year(v as i32),
            Rep::Month(v) => dt.with_month(v as u32),
            Rep::Month0(v) => dt.with_month0(v as u32),
            Rep::Day(v) => dt.with_day(v as u32),
            Rep::Day0(v) => dt.with_day0(v as u32),
            Rep::Ordinal(v) => dt.with_ordinal(v as u32),
            Rep::Ordinal0(v) => dt.with_ordinal0(v as u32),
            Rep::Hour(v) => dt.with_hour(v as u32),
            Rep::Minute(v) => dt.with_minute(v as u32),
            Rep::Second(v) => dt.with_second(v as u32),
            Rep::Nano(v) => dt.with_nanosecond(v as u32),
        }
    }
}

/// Compare a zone-aware result with the expected wall reading.
fn cmp_wall_result(loc: &mut Local, entry: &str, z: &Z, arg: Value, got: Option<DateTime<FixedOffset>>, exp_wall: Option<RDt>, self_hr: i32) -> (bool, bool) {
    // expected: Some iff the wall value exists and its instant is in [MIN_UTC, MAX_UTC]
    let exp_u = exp_wall.and_then(|w| {
        let (u, ok) = utc_of_wall(w, z.off);
        if ok {
            Some(u)
        } else {
            None
        }
    });
    let got_u = got.map(|g| RDt::of(&g.naive_utc()));
    // A leap-second representation inside the very last second of the range lies after MAX_UTC
    // although its date is representable: the property does not say on which side it falls, so
    // nothing is asserted about it (counted, not judged).
    if let Some(u) = exp_u {
        if u.day == rc::max_day() && u.secs == 86_399 && u.frac >= 1_000_000_000 {
            loc.rep.add_extra_count("skipped_target_is_leap_second_in_last_second_of_range", 1);
            return (got_u.is_some(), exp_wall.is_some());
        }
    }
    let target_hr = exp_wall.map(|w| headroom(&w)).unwrap_or(0);
    if got_u != exp_u || got.map(|g| g.offset().local_minus_utc() as i64 != z.off).unwrap_or(false) {
        let kind = match (got_u, exp_u) {
            (Some(g), None) => {
                if rc::in_range_day(g.day) {
                    "some-though-no-such-wall-value"
                } else {
                    "builds-out-of-range-instant"
                }
            }
            (None, Some(_)) => "none-though-wall-value-exists-and-instant-in-range",
            _ => "wrong-result",
        };
        let cls = if target_hr != 0 && self_hr == 0 {
            "target-wall-date-outside-NaiveDate-range"
        } else if self_hr != 0 {
            "self-wall-date-outside-NaiveDate-range"
        } else {
            "wall-dates-in-range"
        };
        loc.violation(
            &format!("C04/{}/{}/{}", entry, kind, cls),
            json!({"self": z.j(), "self_wall": fmt_wall(&z.wall()), "arg": arg, "expected_wall": exp_wall.map(|w| fmt_wall(&w)), "expected_utc": format!("{:?}", exp_u), "observed_utc": format!("{:?}", got_u)}),
        );
    }
    (exp_u.is_some(), exp_wall.is_some())
}

fn case_replace(loc: &mut Local, x: &Ix, z: Z, rep: Rep) {
    let Some(dt) = z.build() else { return };
    loc.eval();
    let w = z.wall();
    let hr = headroom(&w);
    let (exp_wall, same_year) = rep.apply(&w);
    if hr != 0 {
        loc.bucket(x.r_head);
        if same_year {
            loc.bucket(x.wy_same)
        }
    }
    match guard(|| rep.call(&dt)) {
        Ok(got) => {
            let (some, exists) = cmp_wall_result(loc, rep.name(), &z, json!(rep.arg()), got, exp_wall, hr);
            loc.bucket(if some { x.r_some } else if exists { x.r_none_range } else { x.r_none_val });
        }
        Err(p) => loc.violation(&format!("C04/{}/panic@{}", rep.name(), p.site()), json!({"self": z.j(), "arg": rep.arg(), "panic": p.to_json()})),
    }
    if hr != 0 || exp_wall.map(|e| headroom(&e) != 0 || !utc_of_wall(e, z.off).1).unwrap_or(true) {
        loc.nontrivial(h2(4, h2(h2(z.u.ns() as u64, z.off as u64), h2(crate::mon::hstr(rep.name()), rep.arg() as u64))));
    }
}

fn case_with_time(loc: &mut Local, x: &Ix, z: Z, secs: i64, frac: i64) {
    let Some(dt) = z.build() else { return };
    let Some(t) = NaiveTime::from_num_seconds_from_midnight_opt(secs as u32, frac as u32) else { return };
    loc.eval();
    loc.bucket(x.with_time);
    let w = z.wall();
    let exp_wall = Some(RDt::new(w.day, secs, frac));
    match guard(|| dt.with_time(t)) {
        Ok(r) => {
            let got = match r {
                MappedLocalTime::Single(v) => Some(v),
                MappedLocalTime::None => None,
                MappedLocalTime::Ambiguous(a, _) => Some(a),
            };
            cmp_wall_result(loc, "with_time", &z, json!([secs, frac]), got, exp_wall, headroom(&w));
        }
        Err(p) => loc.violation(&format!("C04/with_time/panic@{}", p.site()), json!({"self": z.j(), "arg": [secs, frac], "panic": p.to_json()})),
    }
    if headroom(&w) != 0 {
        loc.nontrivial(h2(5, h2(h2(z.u.ns() as u64, z.off as u64), h2(secs as u64, frac as u64))));
    }
}

fn case_step_days(loc: &mut Local, x: &Ix, z: Z, n: u64, sub: bool) {
    let Some(dt) = z.build() else { return };
    loc.eval();
    let w = z.wall();
    let hr = headroom(&w);
    if hr != 0 {
        loc.bucket(x.s_head)
    }
    let target: i128 = if sub { w.day as i128 - n as i128 } else { w.day as i128 + n as i128 };
    let exp_wall = if target >= (rc::min_day() - 1) as i128 && target <= (rc::max_day() + 1) as i128 { Some(RDt::new(target as i64, w.secs, w.frac)) } else { None };
    let name = if sub { "checked_sub_days" } else { "checked_add_days" };
    match guard(|| if sub { dt.checked_sub_days(Days::new(n)) } else { dt.checked_add_days(Days::new(n)) }) {
        Ok(got) => {
            // a wall date outside [MIN-1, MAX+1] cannot have an in-range instant: exp_wall None -> expected None
            let (some, _) = cmp_wall_result(loc, name, &z, json!(n.to_string()), got, exp_wall, hr);
            loc.bucket(if some { x.sd_some } else { x.sd_none });
            if let (true, Some(g)) = (some, got) {
                if let Ok(o) = guard(|| if sub { dt - Days::new(n) } else { dt + Days::new(n) }) {
                    if o != g {
                        loc.violation(&format!("C04/{}/operator-form-differs", name), json!({"self": z.j(), "arg": n.to_string()}));
                    }
                }
            }
        }
        Err(p) => loc.violation(&format!("C04/{}/panic@{}", name, p.site()), json!({"self": z.j(), "arg": n.to_string(), "panic": p.to_json()})),
    }
    if hr != 0 || exp_wall.map(|e| headroom(&e) != 0 || !utc_of_wall(e, z.off).1).unwrap_or(true) || n == 0 {
        loc.nontrivial(h2(if sub { 7 } else { 6 }, h2(h2(z.u.ns() as u64, z.off as u64), n)));
    }
}

fn case_step_months(loc: &mut Local, x: &Ix, z: Z, n: u32, sub: bool) {
    let Some(dt) = z.build() else { return };
    loc.eval();
    let w = z.wall();
    let hr = headroom(&w);
    if hr != 0 {
        loc.bucket(x.s_head)
    }
    let (y, m, d) = rc::civil_from_days(w.day);
    let idx: i128 = y as i128 * 12 + (m - 1) as i128 + if sub { -(n as i128) } else { n as i128 };
    let (ty, tm) = (idx.div_euclid(12), idx.rem_euclid(12) as i64 + 1);
    let exp_wall = if ty >= (rc::MIN_YEAR - 1) as i128 && ty <= (rc::MAX_YEAR + 1) as i128 {
        let ty = ty as i64;
        let td = d.min(rc::days_in_month(ty, tm));
        Some(RDt::new(rc::day_number(ty, tm, td), w.secs, w.frac))
    } else {
        None
    };
    let name = if sub { "checked_sub_months" } else { "checked_add_months" };
    match guard(|| if sub { dt.checked_sub_months(Months::new(n)) } else { dt.checked_add_months(Months::new(n)) }) {
        Ok(got) => {
            let (some, _) = cmp_wall_result(loc, name, &z, json!(n), got, exp_wall, hr);
            loc.bucket(if some { x.sm_some } else { x.sm_none });
            if let (true, Some(g)) = (some, got) {
                if let Ok(o) = guard(|| if sub { dt - Months::new(n) } else { dt + Months::new(n) }) {
                    if o != g {
                        loc.violation(&format!("C04/{}/operator-form-differs", name), json!({"self": z.j(), "arg": n}));
                    }
                }
            }
        }
        Err(p) => loc.violation(&format!("C04/{}/panic@{}", name, p.site()), json!({"self": z.j(), "arg": n, "panic": p.to_json()})),
    }
    if hr != 0 || exp_wall.map(|e| headroom(&e) != 0 || !utc_of_wall(e, z.off).1).unwrap_or(true) || n == 0 {
        loc.nontrivial(h2(if sub { 9 } else { 8 }, h2(h2(z.u.ns() as u64, z.off as u64), n as u64)));
    }
}

const SMALL: [i64; 22] = [0, 1, 2, 11, 12, 13, 23, 24, 28, 29, 30, 31, 32, 59, 60, 61, 365, 366, 367, i32::MAX as i64, i32::MAX as i64 + 1, u32::MAX as i64];

fn replacement_args(rng: &mut Rng, w: &RDt) -> Vec<Rep> {
    let (y, _, _) = rc::civil_from_days(w.day);
    let mut v = Vec::new();
    for yy in [y, y + 1, y - 1, rc::MAX_YEAR, rc::MAX_YEAR + 1, rc::MAX_YEAR + 2, rc::MIN_YEAR, rc::MIN_YEAR - 1, rc::MIN_YEAR - 2, 0, -1, 2000, 2024, i32::MAX as i64, i32::MIN as i64, rng.range(rc::MIN_YEAR, rc::MAX_YEAR)] {
        v.push(Rep::Year(yy));
    }
    for &a in &SMALL {
        v.push(Rep::Month(a));
        v.push(Rep::Month0(a));
        v.push(Rep::Day(a));
        v.push(Rep::Day0(a));
        v.push(Rep::Ordinal(a));
        v.push(Rep::Ordinal0(a));
        v.push(Rep::Hour(a));
        v.push(Rep::Minute(a));
        v.push(Rep::Second(a));
    }
    for a in [0, 1, 999_999_999, 1_000_000_000, 1_999_999_999, 2_000_000_000, u32::MAX as i64, rng.range(0, 1_999_999_999)] {
        v.push(Rep::Nano(a));
    }
    v
}

fn all_on_value(loc: &mut Local, x: &Ix, rng: &mut Rng, z: Z) {
    case_value(loc, x, z);
    let w = z.wall();
    for r in replacement_args(rng, &w) {
        case_replace(loc, x, z, r);
    }
    for (s, f) in [(0, 0), (w.secs, w.frac % 1_000_000_000), (86_399, 999_999_999), (86_399, 1_999_999_999), (43_200, 0), (rng.range(0, 86_399), gen::random_frac(rng))] {
        case_with_time(loc, x, z, s, f);
    }
    let to_hi = (rc::max_day() + 1 - w.day).max(0) as u64;
    let to_lo = (w.day - (rc::min_day() - 1)).max(0) as u64;
    for n in [0u64, 1, 2, 31, 366, to_hi, to_hi + 1, to_hi.saturating_sub(1), to_lo, to_lo + 1, to_lo.saturating_sub(1), i32::MAX as u64, i32::MAX as u64 + 1, u64::MAX, rng.below(1000)] {
        case_step_days(loc, x, z, n, false);
        case_step_days(loc, x, z, n, true);
    }
    let (y, m, _) = rc::civil_from_days(w.day);
    let mo_hi = (((rc::MAX_YEAR + 1) * 12) - (y * 12 + m - 1)).max(0) as u64;
    let mo_lo = ((y * 12 + m - 1) - (rc::MIN_YEAR - 1) * 12 - 11).max(0) as u64;
    for n in [0u64, 1, 11, 12, 13, 1200, mo_hi, mo_hi + 1, mo_hi.saturating_sub(1), mo_lo, mo_lo + 1, mo_lo.saturating_sub(1), i32::MAX as u64, i32::MAX as u64 + 1, u32::MAX as u64, rng.below(5000)] {
        if n <= u32::MAX as u64 {
            case_step_months(loc, x, z, n as u32, false);
            case_step_months(loc, x, z, n as u32, true);
        }
    }
}

fn phase_step_zone(ctx: &Ctx, rep: &Report, bk: usize) {
    let n = ctx.n(60_000, 3_000_000);
    par_shards(rep, ctx.threads, 16, |shard| {
        let mut rng = Rng::new(ctx.seed, "C04/step-zone", shard as u64);
        let mut loc = rep.local();
        for _ in 0..n / 16 {
            // an instant within a few days (or months) of one of the two offset changes
            let t = if rng.chance(1, 2) { STEP_T0 } else { STEP_T1 };
            let u = match rng.below(4) {
                0 => t + rng.range(-3 * 86_400, 3 * 86_400),
                1 => t + rng.range(-7300, 7300),
                2 => t + rng.range(-40, 40) * 86_400 + rng.range(-4000, 4000),
                _ => t + rng.range(-400, 400) * 86_400,
            };
            let Some(un) = chrono::DateTime::from_timestamp(u, 0).map(|d| d.naive_utc()) else { continue };
            let dt: DateTime<StepTz> = StepTz.from_utc_datetime(&un);
            let wall = u + step_off(u) as i64;
            loc.eval();
            loc.bucket(bk);
            // the wall clock shown must be utc + offset in force
            if guard(|| dt.naive_local().and_utc().timestamp()).ok() != Some(wall) || dt.offset().local_minus_utc() != step_off(u) {
                loc.violation("C04/variable-offset-zone/from_utc_datetime/wrong-wall-clock", json!({"utc": u, "expected_wall": wall}));
            }
            let nd = rng.range(0, 5) as u64;
            let nm = rng.range(0, 8) as u32;
            let (hh, dd) = (rng.range(0, 23) as u32, rng.range(1, 28) as u32);
            let w = RDt::new(u.div_euclid(86_400) + rc::UNIX_EPOCH_DAY + (u.rem_euclid(86_400) + step_off(u) as i64).div_euclid(86_400), (u.rem_euclid(86_400) + step_off(u) as i64).rem_euclid(86_400), 0);
            let (y, m, d) = rc::civil_from_days(w.day);
            type Op = (&'static str, Option<i64>, Box<dyn Fn(&DateTime<StepTz>) -> Option<DateTime<StepTz>>>);
            let month_shift = |k: i64| -> Option<i64> {
                let idx = y * 12 + (m - 1) + k;
                let (ty, tm) = (idx.div_euclid(12), idx.rem_euclid(12) + 1);
                Some((rc::day_number(ty, tm, d.min(rc::days_in_month(ty, tm))) - rc::UNIX_EPOCH_DAY) * 86_400 + w.secs)
            };
            let wall_at = |day: i64, secs: i64| (day - rc::UNIX_EPOCH_DAY) * 86_400 + secs;
            let ops: Vec<Op> = vec![
                ("checked_add_days", Some(wall + nd as i64 * 86_400), Box::new(move |x| x.checked_add_days(Days::new(nd)))),
                ("checked_sub_days", Some(wall - nd as i64 * 86_400), Box::new(move |x| x.checked_sub_days(Days::new(nd)))),
                ("checked_add_months", month_shift(nm as i64), Box::new(move |x| x.checked_add_months(Months::new(nm)))),
                ("checked_sub_months", month_shift(-(nm as i64)), Box::new(move |x| x.checked_sub_months(Months::new(nm)))),
                ("with_hour", Some(wall_at(w.day, hh as i64 * 3600 + w.secs % 3600)), Box::new(move |x| x.with_hour(hh))),
                ("with_day", if rc::valid_ymd(y, m, dd as i64) { Some(wall_at(rc::day_number(y, m, dd as i64), w.secs)) } else { None }, Box::new(move |x| x.with_day(dd))),
            ];
            for (name, exp_wall, f) in ops {
                let Some(ew) = exp_wall else { continue };
                let cands = step_candidates(ew);
                let identity = ew == wall && (name.ends_with("days") && nd == 0 || name.ends_with("months") && nm == 0);
                match guard(|| f(&dt)) {
                    Ok(Some(r)) => {
                        let rw = guard(|| r.naive_local().and_utc().timestamp()).ok();
                        let ro = r.offset().local_minus_utc();
                        if rw != Some(ew) || step_off(r.timestamp()) != ro {
                            loc.violation(
                                &format!("C04/variable-offset-zone/{}/result-is-not-the-stepped-wall-clock", name),
                                json!({"utc": u, "wall": wall, "arg": [nd, nm as u64, hh as u64, dd as u64], "expected_wall": ew, "observed_wall": rw, "observed_offset": ro}),
                            );
                        }
                    }
                    Ok(None) => {
                        if cands.len() == 1 && !identity {
                            loc.violation(
                                &format!("C04/variable-offset-zone/{}/none-though-the-wall-clock-exists-once", name),
                                json!({"utc": u, "wall": wall, "arg": [nd, nm as u64, hh as u64, dd as u64], "expected_wall": ew, "offset_there": cands}),
                            );
                        }
                    }
                    Err(p) => loc.violation(&format!("C04/variable-offset-zone/{}/panic@{}", name, p.site()), json!({"utc": u, "panic": p.to_json()})),
                }
            }
            // the wall clock of this instant read back: a unique reading gives the instant; a repeated one
            // gives both instants earliest first, and earliest()/latest()/single() pick accordingly
            {
                let cands = step_candidates(wall);
                let ln = dt.naive_local();
                match guard(|| {
                    let m = StepTz.from_local_datetime(&ln);
                    (m.clone().earliest().map(|d| d.timestamp()), m.clone().latest().map(|d| d.timestamp()), m.clone().single().map(|d| d.timestamp()), m.map(|d| d.timestamp()))
                }) {
                    Ok((e, l, s1, m)) => {
                        let inst: Vec<i64> = cands.iter().map(|o| wall - *o as i64).collect();
                        let ok = match inst.len() {
                            1 => m == MappedLocalTime::Single(inst[0]) && e == Some(inst[0]) && l == Some(inst[0]) && s1 == Some(inst[0]),
                            2 => m == MappedLocalTime::Ambiguous(inst[0], inst[1]) && e == Some(inst[0]) && l == Some(inst[1]) && s1.is_none() && inst[0] < inst[1],
                            _ => false,
                        };
                        if !ok {
                            loc.violation("C04/variable-offset-zone/from_local_datetime/earliest-latest-single-do-not-match-the-candidates", json!({"utc": u, "wall": wall, "candidate_instants": inst, "earliest": e, "latest": l, "single": s1}));
                        }
                    }
                    Err(p) => loc.violation(&format!("C04/variable-offset-zone/from_local_datetime/panic@{}", p.site()), json!({"utc": u, "panic": p.to_json()})),
                }
            }
            // elapsed-time arithmetic through the zone: every form denotes the instant u + δ and must
            // show it with the offset in force *there* (checked, operator and assigning forms alike)
            let delta = match rng.below(3) {
                0 => rng.range(-7300, 7300),
                1 => rng.range(-3 * 86_400, 3 * 86_400),
                _ => rng.range(-400, 400) * 86_400 + rng.range(-4000, 4000),
            };
            let (td, ntd) = (TimeDelta::seconds(delta), TimeDelta::seconds(-delta));
            let sd = std::time::Duration::from_secs(delta.unsigned_abs());
            type Form = (&'static str, Box<dyn Fn(DateTime<StepTz>) -> Option<DateTime<StepTz>>>);
            let mut forms: Vec<Form> = vec![
                ("checked_add_signed", Box::new(move |x| x.checked_add_signed(td))),
                ("checked_sub_signed", Box::new(move |x| x.checked_sub_signed(ntd))),
                ("add-TimeDelta", Box::new(move |x| Some(x + td))),
                ("sub-TimeDelta", Box::new(move |x| Some(x - ntd))),
                ("add_assign-TimeDelta", Box::new(move |mut x| {
                    x += td;
                    Some(x)
                })),
                ("sub_assign-TimeDelta", Box::new(move |mut x| {
                    x -= ntd;
                    Some(x)
                })),
            ];
            if delta >= 0 {
                forms.push(("add-std-Duration", Box::new(move |x| Some(x + sd))));
                forms.push(("add_assign-std-Duration", Box::new(move |mut x| {
                    x += sd;
                    Some(x)
                })));
            } else {
                forms.push(("sub-std-Duration", Box::new(move |x| Some(x - sd))));
                forms.push(("sub_assign-std-Duration", Box::new(move |mut x| {
                    x -= sd;
                    Some(x)
                })));
            }
            for (name, f) in forms {
                let (eu, eo) = (u + delta, step_off(u + delta));
                match guard(|| f(dt)) {
                    Ok(Some(r)) => {
                        let rw = guard(|| r.naive_local().and_utc().timestamp()).ok();
                        if r.timestamp() != eu || r.offset().local_minus_utc() != eo || rw != Some(eu + eo as i64) {
                            loc.violation(
                                &format!("C04/variable-offset-zone/{}/result-not-shown-with-the-offset-in-force-at-the-new-instant", name),
                                json!({"utc": u, "delta_s": delta, "expected_utc": eu, "expected_offset": eo, "observed_utc": r.timestamp(), "observed_offset": r.offset().local_minus_utc(), "observed_wall": rw}),
                            );
                        }
                    }
                    Ok(None) => loc.violation(&format!("C04/variable-offset-zone/{}/refused-mid-range", name), json!({"utc": u, "delta_s": delta})),
                    Err(p) => loc.violation(&format!("C04/variable-offset-zone/{}/panic@{}", name, p.site()), json!({"utc": u, "delta_s": delta, "panic": p.to_json()})),
                }
            }
            loc.nontrivial(h2(91, h2(u as u64, (nd * 31 + nm as u64) * 24 + hh as u64)));
        }
    });
}

/// Conversions between `DateTime<Local>` and the other zone-aware types in a process whose local
/// zone is not UTC (a child process started with `TZ` set): every route must keep the instant and
/// show it with the offset the local zone has there (in-process the local zone of this sandbox is
/// UTC, where a conversion that drops or keeps the wrong offset cannot be seen).
fn phase_local_child(ctx: &Ctx, rep: &Report, bk: usize) {
    use crate::props::tzchild::{self, Ans};
    let mut loc = rep.local();
    let zones: [(&str, Option<i32>); 4] = [("VRF-5:30:15", Some(19_815)), ("WST11:22:33", Some(-40_953)), ("EST5EDT,M3.2.0,M11.1.0", None), ("NZST-12NZDT,M9.5.0,M4.1.0/3", None)];
    for (zi, (tz, fixed)) in zones.iter().enumerate() {
        let mut rng = Rng::new(ctx.seed, "C04/local-child", zi as u64);
        let mut q: Vec<(char, i64)> = Vec::new();
        for _ in 0..ctx.n(300, 20_000) {
            let u = match rng.below(3) {
                0 => rng.range(1_600_000_000, 1_700_000_000),
                1 => *rng.pick(&[1_615_705_200i64, 1_636_264_800, 1_632_578_400, 1_617_458_400]) + rng.range(-90_000, 90_000),
                _ => rng.range(-2_000_000_000, 4_000_000_000),
            };
            q.push(('U', u));
        }
        match tzchild::run_child(&ctx.work_dir, &format!("c04-{}", zi), Some(tz), &q) {
            Ok(ans) => {
                for ((_, u), a) in q.iter().zip(ans.iter()) {
                    loc.eval();
                    loc.bucket(bk);
                    match a {
                        Ans::Panic(msg) => {
                            let cls = if msg.starts_with(tzchild::GLUE) { "conversion-loses-the-zone-offset-or-the-instant" } else { "panic-or-error" };
                            loc.violation(&format!("C04/Local-conversions/{}", cls), json!({"TZ": tz, "unix": u, "message": msg}));
                        }
                        Ans::Single(o) => {
                            if fixed.map_or(false, |f| f != *o) {
                                loc.violation("C04/Local-conversions/wrong-offset-for-constant-zone", json!({"TZ": tz, "unix": u, "observed": o}));
                            }
                        }
                        other => loc.violation("C04/Local-conversions/unexpected-answer", json!({"TZ": tz, "unix": u, "observed": other.print()})),
                    }
                    loc.nontrivial(h2(92, h2(zi as u64, *u as u64)));
                }
            }
            Err(e) => rep.harness_error(format!("C04 local-zone child died: {}", e)),
        }
    }
}

pub fn run(ctx: &Ctx) -> Outcome {
    let rep = Report::new("C04", B, FLOOR);
    if let Err(e) = rc::self_test().and_then(|_| ri::self_test()) {
        rep.harness_error(e);
        return rep.finish(ctx, "self-test failed", &[]);
    }
    let x = ix();
    let cat_days = gen::catalogue_days();
    let cat_off = gen::catalogue_offsets();

    // 1. instants dense around both range ends and midnights × stratified offsets
    let mut instants: Vec<RDt> = Vec::new();
    for day in [rc::min_day(), rc::min_day() + 1, rc::max_day() - 1, rc::max_day()] {
        for secs in [0, 1, 59, 3599, 3600, 36_000, 43_199, 43_200, 50_400, 82_800, 86_339, 86_398, 86_399] {
            for frac in [0, 999_999_999] {
                instants.push(RDt::new(day, secs, frac));
            }
        }
        instants.push(RDt::new(day, 86_399, 1_500_000_000));
        instants.push(RDt::new(day, 59, 1_000_000_000));
    }
    for &day in cat_days.iter().step_by(ctx.tier.pick(9, 3)) {
        for (secs, frac) in [(0, 0), (1, 1), (86_399, 999_999_999), (43_200, 500_000_000), (86_399, 1_999_999_999)] {
            instants.push(RDt::new(day, secs, frac));
        }
    }
    let offsets: Vec<i64> = {
        let n = ctx.tier.pick(36usize, 400usize);
        let mut v = cat_off.clone();
        let mut rng = Rng::new(ctx.seed, "C04/offsets", 0);
        for _ in 0..n {
            v.push(rng.range(-86_399, 86_399));
        }
        v.sort();
        v.dedup();
        v
    };
    let inst = &instants;
    let offs = &offsets;
    par_shards(&rep, ctx.threads, inst.len(), |i| {
        let mut loc = rep.local();
        let mut rng = Rng::new(ctx.seed, "C04/grid", i as u64);
        let near_end = inst[i].day <= rc::min_day() + 1 || inst[i].day >= rc::max_day() - 1;
        for (k, &off) in offs.iter().enumerate() {
            let z = Z { u: inst[i], off };
            if near_end || k % 7 == i % 7 {
                all_on_value(&mut loc, &x, &mut rng, z);
            } else {
                case_value(&mut loc, &x, z);
            }
            case_from_local(&mut loc, &x, inst[i], off);
        }
    });

    // 2. all one-second offsets at a few instants (thorough: all 172,799; quick: every 37th + ends)
    {
        let step = ctx.tier.pick(37usize, 1usize);
        let pts = [RDt::new(rc::max_day(), 86_399, 999_999_999), RDt::new(rc::min_day(), 0, 0), RDt::new(rc::day_number(2024, 2, 29), 43_200, 0), RDt::new(rc::max_day(), 40_000, 0), RDt::new(rc::min_day(), 50_000, 1)];
        let chunks: Vec<i64> = (-86_399..=86_399).step_by(step).collect();
        let ch: Vec<&[i64]> = chunks.chunks(2048).collect();
        par_shards(&rep, ctx.threads, ch.len(), |i| {
            let mut loc = rep.local();
            for &off in ch[i] {
                for p in pts {
                    case_value(&mut loc, &x, Z { u: p, off });
                    case_from_local(&mut loc, &x, p, off);
                    case_step_days(&mut loc, &x, Z { u: p, off }, 1, false);
                    case_step_days(&mut loc, &x, Z { u: p, off }, 1, true);
                    case_replace(&mut loc, &x, Z { u: p, off }, Rep::Hour(12));
                    case_replace(&mut loc, &x, Z { u: p, off }, Rep::Day(1));
                }
            }
        });
    }

    // 2b. the offset domain itself: every second count in [-90000, 90000] and the i32 extremes:
    //     east_opt/west_opt succeed exactly inside (-24 h, +24 h) and mirror each other
    {
        let mut loc = rep.local();
        let mut cands: Vec<i64> = (-90_000..=90_000).collect();
        cands.extend([i32::MIN as i64, i32::MIN as i64 + 1, i32::MAX as i64, i32::MAX as i64 - 1]);
        for sct in cands {
            loc.eval();
            let sct32 = sct as i32;
            match guard(|| (FixedOffset::east_opt(sct32), sct32.checked_neg().and_then(FixedOffset::west_opt), FixedOffset::west_opt(sct32))) {
                Ok((e, w_of_neg, w)) => {
                    let ok = sct.abs() < 86_400;
                    let e_ok = e.map(|o| o.local_minus_utc() as i64 == sct && o.utc_minus_local() as i64 == -sct);
                    let w_ok = w.map(|o| o.local_minus_utc() as i64 == -sct);
                    if e.is_some() != ok || w.is_some() != ok || e_ok == Some(false) || w_ok == Some(false) || (sct32 != i32::MIN && w_of_neg != e) {
                        loc.violation("C04/FixedOffset::east_opt-west_opt/wrong-domain-or-value", json!({"seconds": sct, "east_opt": format!("{:?}", e), "west_opt": format!("{:?}", w), "west_opt_of_negated": format!("{:?}", w_of_neg)}));
                    }
                }
                Err(p) => loc.violation(&format!("C04/FixedOffset::east_opt-west_opt/panic@{}", p.site()), json!({"seconds": sct, "panic": p.to_json()})),
            }
            if sct.abs() >= 86_398 {
                loc.bucket(x.off_ext);
                loc.nontrivial(h2(77, sct as u64));
            }
        }
    }

    // 2c. a zone whose offset changes (user-defined TimeZone)
    phase_step_zone(ctx, &rep, bi("variable_offset_zone"));
    phase_local_child(ctx, &rep, bi("local_zone_conversions"));
    crate::props::twins::c04(ctx, &rep, bi("deprecated_panicking_twins"));

    // 3. pairs
    {
        let n_vals = ctx.tier.pick(600usize, 2500usize);
        let mut rng = Rng::new(ctx.seed, "C04/pairs", 0);
        let mut vals: Vec<Z> = Vec::new();
        while vals.len() < n_vals {
            let u = if rng.chance(1, 3) { *rng.pick(inst) } else { gen::random_rdt_leap(&mut rng, &cat_days, true) };
            let off = gen::random_offset(&mut rng, &cat_off);
            vals.push(Z { u, off });
            if rng.chance(1, 3) {
                // same instant, another offset
                vals.push(Z { u, off: gen::random_offset(&mut rng, &cat_off) });
            }
        }
        let vals = &vals;
        par_shards(&rep, ctx.threads, vals.len(), |i| {
            let mut loc = rep.local();
            for b in vals.iter() {
                case_pair(&mut loc, &x, vals[i], *b);
            }
        });
    }

    // 4. random
    let total = ctx.n(20_000, 2_000_000);
    let n_shards = 128usize;
    let per = (total / n_shards as u64).max(1);
    par_shards(&rep, ctx.threads, n_shards, |shard| {
        let mut rng = Rng::new(ctx.seed, "C04/random", shard as u64);
        let mut loc = rep.local();
        for _ in 0..per {
            let mut u = gen::random_rdt_leap(&mut rng, &cat_days, true);
            if rng.chance(1, 5) {
                // within two days of a range end
                u.day = if rng.chance(1, 2) { rc::max_day() - rng.range(0, 1) } else { rc::min_day() + rng.range(0, 1) };
            }
            let off = gen::random_offset(&mut rng, &cat_off);
            all_on_value(&mut loc, &x, &mut rng, Z { u, off });
            let l = gen::random_rdt(&mut rng, &cat_days);
            case_from_local(&mut loc, &x, l, off);
        }
    });
    rep.finish(
        ctx,
        "UTC instants dense at both range ends (4 days × 13 seconds × 2 fractions + leap seconds) and on catalogue dates × stratified offsets (catalogue of 59 incl. ±86399/±1/±30 s/quarter hours + random; thorough: all 172,799 one-second offsets at 5 instants); on each value: construction both ways, wall-clock accessors, Debug/Display/format, ~220 field replacements (boundary arguments up to u32::MAX, years incl. range ends ±2), with_time, day and month stepping with counts hitting the headroom exactly; all ordered pairs of N zone-aware values for equality/order/hash/conversion; random values. Non-trivial: wall clock in the one-day headroom, day roll-over by the offset, extreme offsets, leap seconds, refused or headroom results, equal instants with different offsets; distinct = distinct (operation, value, argument) (hashed bitmap)",
        &["R-cal/R-inst oracles (self-tested each run)", "expected success of replacement/stepping = 'the new wall-clock value exists and its instant lies in [MIN_UTC, MAX_UTC]' (property text), independent of whether intermediate NaiveDate values are representable"],
    )
}
