//! C19 — Weekday, Month and weekday-set algebra is consistent.
//!
//! Oracle (written from the property text and the rustdoc tables, no chrono tables): a weekday is
//! an index 0..=6 (0 = Monday), a month an index 0..=11 (0 = January); names are the English names;
//! a weekday set is a `[bool; 7]`; cyclic iteration order from `start` is "sort members by
//! (member - start) mod 7". Finite domains are enumerated completely, the wide integer types are
//! covered by boundary catalogues (type extremes, every k ± 2^bit, k + m·2^{8,16,32,64}) + random.

use crate::gen;
use crate::mon::{h2, hstr, par_shards, Ctx, Local, Outcome, Report};
use crate::refcal as rc;
use crate::rng::Rng;
use chrono::{Month, Weekday, WeekdaySet};
use num_traits::FromPrimitive;
use serde_json::{json, Value};
use std::collections::VecDeque;

const B: &[&str] = &[
    // cycles / numbering
    "wd_cycle", "mo_cycle", "wd_numbering", "wd_days_since_wrap", "wd_days_since_nowrap", "wd_display_roundtrip",
    "mo_numbering", "mo_name_roundtrip", "mo_num_days_leap_feb", "mo_num_days_common_feb", "mo_num_days_year_out_of_range",
    // numeric conversions
    "tryfrom_u8_valid", "tryfrom_u8_invalid",
    "fp_valid", "fp_invalid_adjacent", "fp_negative", "fp_congruent_2_8", "fp_congruent_2_16", "fp_congruent_2_32",
    "fp_congruent_2_64", "fp_type_extreme", "fp_random_invalid",
    "fp_i8", "fp_u8", "fp_i16", "fp_u16", "fp_i32", "fp_u32", "fp_i64", "fp_u64", "fp_isize", "fp_usize", "fp_i128", "fp_u128",
    // text
    "text_accept_short", "text_accept_long", "text_accept_mixed_case", "text_reject_prefix", "text_reject_edit",
    "text_reject_padded", "text_reject_doubled", "text_reject_cross", "text_reject_unicode", "text_reject_random",
    "text_reject_short_or_empty", "text_reject_other_kind",
    // sets
    "set_build", "set_insert_new", "set_insert_present", "set_remove_present", "set_remove_absent", "set_pair_ops",
    "set_subset_true", "set_subset_false", "set_first_last", "set_display", "set_from_iter_dup",
    "iter_front_only", "iter_back_only", "iter_interleaved", "iter_wraparound", "iter_fused",
];
// every bucket is reached deterministically on the unchanged tree (exhaustive parts do not depend
// on the seed; the random part always produces invalid numbers)
const FLOOR: &[&str] = B;

fn bi(name: &str) -> usize {
    B.iter().position(|n| *n == name).unwrap_or_else(|| panic!("unknown bucket {}", name))
}

// ------------------------------------------------------------------------------------------------
// Reference tables (from the specification: English names, Monday = 0, January = 1)
// ------------------------------------------------------------------------------------------------

const WD: [Weekday; 7] = [Weekday::Mon, Weekday::Tue, Weekday::Wed, Weekday::Thu, Weekday::Fri, Weekday::Sat, Weekday::Sun];
const MO: [Month; 12] = [
    Month::January, Month::February, Month::March, Month::April, Month::May, Month::June, Month::July, Month::August,
    Month::September, Month::October, Month::November, Month::December,
];
const WD_LONG: [&str; 7] = ["Monday", "Tuesday", "Wednesday", "Thursday", "Friday", "Saturday", "Sunday"];
const MO_LONG: [&str; 12] = [
    "January", "February", "March", "April", "May", "June", "July", "August", "September", "October", "November", "December",
];

/// index of a chrono weekday in the reference numbering, by equality only (no chrono numbering fn)
fn wd_idx(w: Weekday) -> usize {
    WD.iter().position(|x| *x == w).unwrap()
}
fn mo_idx(m: Month) -> usize {
    MO.iter().position(|x| *x == m).unwrap()
}

/// Reference recogniser: the ASCII-case-insensitive short (3 letters) or long English name.
fn ref_parse(names: &[&str], s: &str) -> Option<usize> {
    if !s.is_ascii() {
        return None;
    }
    let l = s.to_ascii_lowercase();
    for (i, n) in names.iter().enumerate() {
        let n = n.to_ascii_lowercase();
        if l == n || l == n[..3] {
            return Some(i);
        }
    }
    None
}

fn self_test() -> Result<(), String> {
    let t = |c: bool, m: &str| if c { Ok(()) } else { Err(format!("C19 oracle self-test: {}", m)) };
    t(ref_parse(&WD_LONG, "Sunday") == Some(6), "Sunday")?; // rustdoc: "Sunday".parse() == Sun
    t(ref_parse(&WD_LONG, "mON") == Some(0), "mON")?;
    t(ref_parse(&WD_LONG, "thurs").is_none(), "thurs")?;
    t(ref_parse(&WD_LONG, "any day").is_none(), "any day")?;
    t(ref_parse(&MO_LONG, "fEbruARy") == Some(1), "fEbruARy")?;
    t(ref_parse(&MO_LONG, "septem").is_none(), "septem")?;
    t(ref_parse(&MO_LONG, "Augustin").is_none(), "Augustin")?;
    t(ref_parse(&MO_LONG, "may") == Some(4), "may")?;
    t(ref_parse(&MO_LONG, "\u{17f}ep").is_none(), "long s")?;
    // rustdoc examples of days_since: Sun.days_since(Tue) = 5, Wed.days_since(Sun) = 3
    t(ref_days_since(6, 1) == 5 && ref_days_since(2, 6) == 3 && ref_days_since(0, 0) == 0, "days_since")?;
    // rustdoc example of iter: {Mon, Wed, Fri}.iter(Wed) = Wed, Fri, Mon
    t(ref_cyclic(&[true, false, true, false, true, false, false], 2) == vec![2, 4, 0], "cyclic order")?;
    t(fp_expect(7, Val { signed: true, raw: (-1i128) as u128 }).is_none(), "negative")?;
    t(fp_expect(7, Val { signed: false, raw: 6 }) == Some(6), "six")?;
    t(fp_expect(7, Val { signed: false, raw: (1u128 << 32) + 1 }).is_none(), "2^32+1")?;
    t(congruence_class(Val { signed: false, raw: (1u128 << 32) + 1 }, 1, 12) == Some(32), "congruence")?;
    t(congruence_class(Val { signed: true, raw: (-4294967295i128) as u128 }, 1, 12) == Some(32), "congruence neg")?;
    Ok(())
}

fn ref_days_since(a: usize, b: usize) -> u32 {
    ((a as i64 - b as i64).rem_euclid(7)) as u32
}

/// members of `m` in cyclic weekday order starting at `start`
fn ref_cyclic(m: &[bool; 7], start: usize) -> Vec<usize> {
    let mut v: Vec<usize> = (0..7).filter(|i| m[*i]).collect();
    v.sort_by_key(|i| (*i as i64 - start as i64).rem_euclid(7));
    v
}

pub fn run(ctx: &Ctx) -> Outcome {
    let rep = Report::new("C19", B, FLOOR);
    if let Err(e) = rc::self_test().and_then(|_| self_test()) {
        rep.harness_error(e);
        return rep.finish(ctx, "self-test failed", &[]);
    }
    // the small exhaustive parts run as 5 shards next to each other, then the numeric workload
    par_shards(&rep, ctx.threads, 5, |shard| {
        let mut loc = rep.local();
        match shard {
            0 => cycles_and_numbering(&mut loc),
            1 => text(ctx, &mut loc),
            2 => sets_single(&mut loc),
            3 => sets_pairs(&mut loc),
            _ => set_iteration(&mut loc),
        }
    });
    numeric(ctx, &rep);
    rep.exhaustive.store(true, std::sync::atomic::Ordering::Relaxed);
    rep.set_extra(
        "exhaustive_domain",
        json!("7 weekdays, 12 months, 49 weekday pairs, TryFrom<u8> on all 256 values, FromPrimitive on the full i8/u8/i16/u16 domains, all 2^len case variants of every short and long name, 128 sets x 7 days, 128 x 128 set pairs, 128 sets x 7 start days x all 2^len next/next_back interleavings; the 32/64/128-bit integer domains and the string space are covered by catalogues + random"),
    );
    rep.finish(
        ctx,
        "finite domains enumerated completely (see exhaustive_domain); integers of the wide types: type extremes, -20..=40, the shared i64 catalogue, k ± 2^bit for every bit and k ± m·2^{8,16,32,64} for every k in -2..=14, plus random values (half raw, half with valid low 8/16/32/64 bits); strings: case variants, prefixes, all one-edit neighbours over ASCII + selected Unicode, padded, doubled, cross-combined, look-alike and random strings, each classified by the reference recogniser. A numeric case is non-trivial if its value is valid, adjacent to the valid range, negative, congruent to a valid number modulo 2^8/2^16/2^32/2^64 or within 2 of a type extreme; every text/set/iteration case is non-trivial. distinct = distinct (entry point, input) pairs (hashed bitmap, collisions under-count)",
        &[
            "the English names, Monday = 0 / January = 1 numbering and ASCII-only case-insensitivity are the specification (rustdoc of Weekday, Month, their FromStr impls)",
            "Month::num_days is compared with the Gregorian month length only for years inside NaiveDate's range (the property text does not speak about it outside)",
        ],
    )
}

fn vio(loc: &mut Local, entry: &str, kind: &str, witness: Value) {
    loc.violation(&format!("C19/{}/{}", entry, kind), witness);
}

// ------------------------------------------------------------------------------------------------
// A. cycles, numbering, distance, names, num_days
// ------------------------------------------------------------------------------------------------

fn cycles_and_numbering(loc: &mut Local) {
    let (b_wc, b_mc, b_wn, b_wrap, b_nowrap, b_wdisp, b_mn, b_mname, b_leap, b_common, b_oor) = (
        bi("wd_cycle"), bi("mo_cycle"), bi("wd_numbering"), bi("wd_days_since_wrap"), bi("wd_days_since_nowrap"),
        bi("wd_display_roundtrip"), bi("mo_numbering"), bi("mo_name_roundtrip"), bi("mo_num_days_leap_feb"),
        bi("mo_num_days_common_feb"), bi("mo_num_days_year_out_of_range"),
    );
    let wd_short: Vec<&str> = WD_LONG.iter().map(|n| &n[..3]).collect();
    for i in 0..7usize {
        let w = WD[i];
        // succ / pred against the cycle
        loc.eval();
        loc.bucket(b_wc);
        loc.nontrivial(h2(100, i as u64));
        let s = loc.call("Weekday::succ", || json!(i), || w.succ());
        let p = loc.call("Weekday::pred", || json!(i), || w.pred());
        if let (Some(s), Some(p)) = (s, p) {
            if s != WD[(i + 1) % 7] {
                vio(loc, "Weekday::succ", "wrong-successor", json!({"input": WD_LONG[i], "expected": WD_LONG[(i + 1) % 7], "observed": format!("{:?}", s)}));
            }
            if p != WD[(i + 6) % 7] {
                vio(loc, "Weekday::pred", "wrong-predecessor", json!({"input": WD_LONG[i], "expected": WD_LONG[(i + 6) % 7], "observed": format!("{:?}", p)}));
            }
            if s.pred() != w || p.succ() != w {
                vio(loc, "Weekday::succ+pred", "not-inverse", json!({"input": WD_LONG[i]}));
            }
        }
        // orbit: 7 distinct values, back at the start after exactly 7 steps (both directions)
        if let Some((fw, bw)) = loc.call("Weekday::succ", || json!({"orbit_of": i}), || {
            let (mut f, mut b) = (Vec::new(), Vec::new());
            let (mut x, mut y) = (w, w);
            for _ in 0..7 {
                x = x.succ();
                y = y.pred();
                f.push(wd_idx(x));
                b.push(wd_idx(y));
            }
            (f, b)
        }) {
            let ef: Vec<usize> = (1..=7).map(|k| (i + k) % 7).collect();
            let eb: Vec<usize> = (1..=7).map(|k| (i + 7 * 7 - k) % 7).collect();
            if fw != ef || bw != eb {
                vio(loc, "Weekday::succ+pred", "orbit-not-the-7-cycle", json!({"start": WD_LONG[i], "succ_orbit": fw, "pred_orbit": bw, "expected_succ": ef, "expected_pred": eb}));
            }
        }
        // numbering
        loc.eval();
        loc.bucket(b_wn);
        loc.nontrivial(h2(101, i as u64));
        if let Some(obs) = loc.call("Weekday::number_from_*", || json!(i), || {
            [w.number_from_monday(), w.number_from_sunday(), w.num_days_from_monday(), w.num_days_from_sunday()]
        }) {
            let exp = [i as u32 + 1, (i as u32 + 1) % 7 + 1, i as u32, (i as u32 + 1) % 7];
            let names = ["number_from_monday", "number_from_sunday", "num_days_from_monday", "num_days_from_sunday"];
            for k in 0..4 {
                if obs[k] != exp[k] {
                    vio(loc, &format!("Weekday::{}", names[k]), "wrong-number", json!({"input": WD_LONG[i], "expected": exp[k], "observed": obs[k]}));
                }
            }
            // numbering is inverse to the numeric conversions
            let back = [
                Weekday::try_from(obs[2] as u8).ok(),
                Weekday::from_u32(obs[2]),
                Weekday::from_i64(obs[2] as i64),
                Weekday::from_u64(obs[2] as u64),
            ];
            if back.iter().any(|b| *b != Some(w)) {
                vio(loc, "Weekday::num_days_from_monday", "not-inverse-of-numeric-conversion", json!({"input": WD_LONG[i], "number": obs[2], "observed": format!("{:?}", back)}));
            }
        }
        // distance
        for j in 0..7usize {
            loc.eval();
            loc.bucket(if i < j { b_wrap } else { b_nowrap });
            loc.nontrivial(h2(102, (i * 7 + j) as u64));
            if let Some(d) = loc.call("Weekday::days_since", || json!([i, j]), || w.days_since(WD[j])) {
                let e = ref_days_since(i, j);
                if d != e {
                    vio(loc, "Weekday::days_since", if i < j { "wrong-distance-wrapping" } else { "wrong-distance" }, json!({"self": WD_LONG[i], "other": WD_LONG[j], "expected": e, "observed": d}));
                } else {
                    // distance many successors of `other` give `self`
                    let mut x = WD[j];
                    for _ in 0..d {
                        x = x.succ();
                    }
                    if x != w {
                        vio(loc, "Weekday::days_since", "inconsistent-with-succ", json!({"self": WD_LONG[i], "other": WD_LONG[j], "distance": d}));
                    }
                }
            }
        }
        // Display and round trip through FromStr
        loc.eval();
        loc.bucket(b_wdisp);
        loc.nontrivial(h2(103, i as u64));
        if let Some(s) = loc.call("Weekday::Display", || json!(i), || w.to_string()) {
            if s != wd_short[i] {
                vio(loc, "Weekday::Display", "wrong-name", json!({"input": WD_LONG[i], "expected": wd_short[i], "observed": s}));
            }
            match loc.call("Weekday::from_str", || json!(s.clone()), || s.parse::<Weekday>()) {
                Some(Ok(x)) if x == w => {}
                Some(r) => vio(loc, "Weekday::from_str", "display-not-parsed-back", json!({"input": s, "expected": WD_LONG[i], "observed": format!("{:?}", r)})),
                None => {}
            }
        }
    }
    for i in 0..12usize {
        let m = MO[i];
        loc.eval();
        loc.bucket(b_mc);
        loc.nontrivial(h2(110, i as u64));
        let s = loc.call("Month::succ", || json!(i), || m.succ());
        let p = loc.call("Month::pred", || json!(i), || m.pred());
        if let (Some(s), Some(p)) = (s, p) {
            if s != MO[(i + 1) % 12] {
                vio(loc, "Month::succ", "wrong-successor", json!({"input": MO_LONG[i], "expected": MO_LONG[(i + 1) % 12], "observed": format!("{:?}", s)}));
            }
            if p != MO[(i + 11) % 12] {
                vio(loc, "Month::pred", "wrong-predecessor", json!({"input": MO_LONG[i], "expected": MO_LONG[(i + 11) % 12], "observed": format!("{:?}", p)}));
            }
            if s.pred() != m || p.succ() != m {
                vio(loc, "Month::succ+pred", "not-inverse", json!({"input": MO_LONG[i]}));
            }
        }
        if let Some((fw, bw)) = loc.call("Month::succ", || json!({"orbit_of": i}), || {
            let (mut f, mut b) = (Vec::new(), Vec::new());
            let (mut x, mut y) = (m, m);
            for _ in 0..12 {
                x = x.succ();
                y = y.pred();
                f.push(mo_idx(x));
                b.push(mo_idx(y));
            }
            (f, b)
        }) {
            let ef: Vec<usize> = (1..=12).map(|k| (i + k) % 12).collect();
            let eb: Vec<usize> = (1..=12).map(|k| (i + 12 * 12 - k) % 12).collect();
            if fw != ef || bw != eb {
                vio(loc, "Month::succ+pred", "orbit-not-the-12-cycle", json!({"start": MO_LONG[i], "succ_orbit": fw, "pred_orbit": bw}));
            }
        }
        // numbering and its inverses
        loc.eval();
        loc.bucket(b_mn);
        loc.nontrivial(h2(111, i as u64));
        if let Some(n) = loc.call("Month::number_from_month", || json!(i), || m.number_from_month()) {
            if n != i as u32 + 1 {
                vio(loc, "Month::number_from_month", "wrong-number", json!({"input": MO_LONG[i], "expected": i + 1, "observed": n}));
            }
            let back = [Month::try_from(n as u8).ok(), Month::from_u32(n), Month::from_i64(n as i64), Month::from_u64(n as u64)];
            if back.iter().any(|b| *b != Some(m)) {
                vio(loc, "Month::number_from_month", "not-inverse-of-numeric-conversion", json!({"input": MO_LONG[i], "number": n, "observed": format!("{:?}", back)}));
            }
        }
        // name and round trip
        loc.eval();
        loc.bucket(b_mname);
        loc.nontrivial(h2(112, i as u64));
        if let Some(s) = loc.call("Month::name", || json!(i), || m.name()) {
            if s != MO_LONG[i] {
                vio(loc, "Month::name", "wrong-name", json!({"input": i + 1, "expected": MO_LONG[i], "observed": s}));
            }
            match loc.call("Month::from_str", || json!(s), || s.parse::<Month>()) {
                Some(Ok(x)) if x == m => {}
                Some(r) => vio(loc, "Month::from_str", "name-not-parsed-back", json!({"input": s, "expected": MO_LONG[i], "observed": format!("{:?}", r)})),
                None => {}
            }
        }
        // num_days for every year class inside the range (+ the range-end years)
        let mut years: Vec<i64> = (1890..=2110).collect();
        years.extend([rc::MIN_YEAR, rc::MIN_YEAR + 1, -400, -100, -4, -1, 0, 1, 4, 100, 400, 1600, 1700, 2400, rc::MAX_YEAR - 1, rc::MAX_YEAR]);
        for y in years {
            loc.eval();
            if i == 1 {
                loc.bucket(if rc::is_leap(y) { b_leap } else { b_common });
                loc.nontrivial(h2(113, y as u64));
            }
            if let Some(got) = loc.call("Month::num_days", || json!([MO_LONG[i], y]), || m.num_days(y as i32)) {
                let e = rc::days_in_month(y, i as i64 + 1);
                if got.map(|g| g as i64) != Some(e) {
                    vio(loc, "Month::num_days", "wrong-length-for-year-in-range", json!({"month": MO_LONG[i], "year": y, "expected": e, "observed": got}));
                }
            }
        }
        // outside NaiveDate's year range the property is silent: only the panic monitor looks
        for y in [i32::MIN as i64, rc::MIN_YEAR - 1, rc::MAX_YEAR + 1, i32::MAX as i64] {
            loc.eval();
            loc.bucket(b_oor);
            let _ = loc.call("Month::num_days", || json!([MO_LONG[i], y]), || m.num_days(y as i32));
        }
    }
    loc.sample(|| json!({"part": "cycles", "example": "Sun.days_since(Tue)", "observed": Weekday::Sun.days_since(Weekday::Tue), "expected": ref_days_since(6, 1)}));
}

// ------------------------------------------------------------------------------------------------
// B. numeric conversions
// ------------------------------------------------------------------------------------------------

/// A value of one of the integer types: `raw` is the value as u128 (unsigned types) or the
/// sign-extended two's complement of the value (signed types, i.e. `v as i128 as u128`).
#[derive(Clone, Copy, Debug, PartialEq)]
struct Val {
    signed: bool,
    raw: u128,
}

impl Val {
    fn is_negative(self) -> bool {
        self.signed && (self.raw as i128) < 0
    }
    fn to_json(self) -> Value {
        if self.signed {
            json!((self.raw as i128).to_string())
        } else {
            json!(self.raw.to_string())
        }
    }
}

/// `Some(v)` iff the mathematical value is in `0..n_max` (as given by the caller's range).
fn small_value(v: Val) -> Option<u32> {
    if v.is_negative() || v.raw > 1000 {
        None
    } else {
        Some(v.raw as u32)
    }
}

/// Expected index for a target with `n` values: Weekday (n = 7): numbers 0..=6; Month (n = 12): 1..=12.
fn fp_expect(n: u32, v: Val) -> Option<usize> {
    let x = small_value(v)?;
    if n == 7 {
        if x <= 6 { Some(x as usize) } else { None }
    } else if (1..=12).contains(&x) {
        Some(x as usize - 1)
    } else {
        None
    }
}

/// Largest b in {8,16,32,64} such that the value is *not* in [lo,hi] but is congruent modulo 2^b
/// to a number in [lo,hi] (the input class a narrowing cast to b bits or fewer would wrongly accept).
fn congruence_class(v: Val, lo: u128, hi: u128) -> Option<u32> {
    if !v.is_negative() && v.raw >= lo && v.raw <= hi {
        return None;
    }
    for b in [64u32, 32, 16, 8] {
        let low = v.raw & ((1u128 << b) - 1); // two's complement: low bits = value mod 2^b
        if low >= lo && low <= hi {
            return Some(b);
        }
    }
    None
}

#[derive(Clone, Copy, Debug, PartialEq)]
enum Ty {
    I8, U8, I16, U16, I32, U32, I64, U64, Isize, Usize, I128, U128,
}

const TYS: [Ty; 12] = [Ty::I8, Ty::U8, Ty::I16, Ty::U16, Ty::I32, Ty::U32, Ty::I64, Ty::U64, Ty::Isize, Ty::Usize, Ty::I128, Ty::U128];

impl Ty {
    fn name(self) -> &'static str {
        match self {
            Ty::I8 => "i8", Ty::U8 => "u8", Ty::I16 => "i16", Ty::U16 => "u16", Ty::I32 => "i32", Ty::U32 => "u32",
            Ty::I64 => "i64", Ty::U64 => "u64", Ty::Isize => "isize", Ty::Usize => "usize", Ty::I128 => "i128", Ty::U128 => "u128",
        }
    }
    fn signed(self) -> bool {
        matches!(self, Ty::I8 | Ty::I16 | Ty::I32 | Ty::I64 | Ty::Isize | Ty::I128)
    }
    fn bits(self) -> u32 {
        match self {
            Ty::I8 | Ty::U8 => 8,
            Ty::I16 | Ty::U16 => 16,
            Ty::I32 | Ty::U32 => 32,
            Ty::I64 | Ty::U64 => 64,
            Ty::Isize | Ty::Usize => usize::BITS,
            Ty::I128 | Ty::U128 => 128,
        }
    }
    fn min(self) -> Val {
        if self.signed() {
            Val { signed: true, raw: (-(1i128 << (self.bits() - 2)) * 2) as u128 }
        } else {
            Val { signed: false, raw: 0 }
        }
    }
    fn max(self) -> Val {
        let b = self.bits();
        if self.signed() {
            Val { signed: true, raw: (((1u128 << (b - 1)) - 1) as i128) as u128 }
        } else if b == 128 {
            Val { signed: false, raw: u128::MAX }
        } else {
            Val { signed: false, raw: (1u128 << b) - 1 }
        }
    }
    /// the value of this type denoting the mathematical integer `x`, if it fits
    fn of_i128(self, x: i128) -> Option<Val> {
        if self.signed() {
            let (lo, hi) = (self.min().raw as i128, self.max().raw as i128);
            if x >= lo && x <= hi { Some(Val { signed: true, raw: x as u128 }) } else { None }
        } else if x >= 0 && (x as u128) <= self.max().raw {
            Some(Val { signed: false, raw: x as u128 })
        } else {
            None
        }
    }
    /// the value of this type with the given bit pattern (truncated to the type's width)
    fn of_bits(self, bits: u128) -> Val {
        let b = self.bits();
        let masked = if b == 128 { bits } else { bits & ((1u128 << b) - 1) };
        if self.signed() {
            let sh = 128 - b;
            Val { signed: true, raw: (((masked << sh) as i128) >> sh) as u128 }
        } else {
            Val { signed: false, raw: masked }
        }
    }
}

/// Call `T::from_<ty>` with the value `v` (which fits the type by construction).
fn conv<T: FromPrimitive>(ty: Ty, v: Val) -> Option<T> {
    let r = v.raw;
    match ty {
        Ty::I8 => T::from_i8(r as i128 as i8),
        Ty::U8 => T::from_u8(r as u8),
        Ty::I16 => T::from_i16(r as i128 as i16),
        Ty::U16 => T::from_u16(r as u16),
        Ty::I32 => T::from_i32(r as i128 as i32),
        Ty::U32 => T::from_u32(r as u32),
        Ty::I64 => T::from_i64(r as i128 as i64),
        Ty::U64 => T::from_u64(r as u64),
        Ty::Isize => T::from_isize(r as i128 as isize),
        Ty::Usize => T::from_usize(r as usize),
        Ty::I128 => T::from_i128(r as i128),
        Ty::U128 => T::from_u128(r),
    }
}

struct FpIdx {
    valid: usize,
    adjacent: usize,
    negative: usize,
    cong: [usize; 4],
    extreme: usize,
    random_invalid: usize,
    ty0: usize,
}

fn fp_idx() -> FpIdx {
    FpIdx {
        valid: bi("fp_valid"),
        adjacent: bi("fp_invalid_adjacent"),
        negative: bi("fp_negative"),
        cong: [bi("fp_congruent_2_8"), bi("fp_congruent_2_16"), bi("fp_congruent_2_32"), bi("fp_congruent_2_64")],
        extreme: bi("fp_type_extreme"),
        random_invalid: bi("fp_random_invalid"),
        ty0: bi("fp_i8"),
    }
}

/// One value of one type through both `Weekday::from_<ty>` and `Month::from_<ty>`.
fn fp_case(loc: &mut Local, ix: &FpIdx, ty: Ty, v: Val, random: bool) {
    // harness sanity: the value must fit the type
    if ty.of_bits(v.raw) != v || v.signed != ty.signed() {
        loc.rep.harness_error(format!("value {:?} does not fit {}", v, ty.name()));
        return;
    }
    let tyi = TYS.iter().position(|t| *t == ty).unwrap();
    let hv = h2(tyi as u64, h2(v.raw as u64, (v.raw >> 64) as u64));
    // distances in two's complement: exact as u128 because both ends belong to the same type
    let near_extreme = v.raw.wrapping_sub(ty.min().raw) <= 2 || ty.max().raw.wrapping_sub(v.raw) <= 2;
    for (n, tname, lo, hi) in [(7u32, "Weekday", 0u128, 6u128), (12, "Month", 1, 12)] {
        loc.eval();
        loc.bucket(ix.ty0 + tyi);
        let exp = fp_expect(n, v);
        let cong = congruence_class(v, lo, hi);
        let adjacent = exp.is_none() && (v.raw == hi + 1 || (lo == 1 && v.raw == 0) || (v.signed && v.raw as i128 == lo as i128 - 1));
        let mut nontrivial = false;
        if exp.is_some() {
            loc.bucket(ix.valid);
            nontrivial = true;
        }
        if adjacent {
            loc.bucket(ix.adjacent);
            nontrivial = true;
        }
        if v.is_negative() {
            loc.bucket(ix.negative);
            nontrivial = true;
        }
        if let Some(b) = cong {
            loc.bucket(ix.cong[match b { 8 => 0, 16 => 1, 32 => 2, _ => 3 }]);
            nontrivial = true;
        }
        if near_extreme && ty.bits() > 16 {
            loc.bucket(ix.extreme);
            nontrivial = true;
        }
        if random && exp.is_none() {
            loc.bucket(ix.random_invalid);
        }
        if nontrivial {
            loc.nontrivial(h2(200 + n as u64, hv));
        }
        let entry = format!("{}::from_{}", tname, ty.name());
        let got: Option<Option<usize>> = if n == 7 {
            loc.call(&entry, || v.to_json(), || conv::<Weekday>(ty, v).map(wd_idx))
        } else {
            loc.call(&entry, || v.to_json(), || conv::<Month>(ty, v).map(mo_idx))
        };
        let Some(got) = got else { continue };
        if got != exp {
            let kind = match (got, exp) {
                (Some(_), None) => match cong {
                    Some(b) => format!("some-for-invalid-number-congruent-mod-2^{}", b),
                    None if v.is_negative() => "some-for-negative-number".to_string(),
                    None => "some-for-invalid-number".to_string(),
                },
                (None, Some(_)) => "none-for-valid-number".to_string(),
                _ => "wrong-value".to_string(),
            };
            let names: &[&str] = if n == 7 { &WD_LONG } else { &MO_LONG };
            vio(loc, &entry, &kind, json!({"input": v.to_json(), "type": ty.name(), "expected": exp.map(|i| names[i]), "observed": got.map(|i| names[i])}));
        }
    }
}

/// boundary catalogue for a type wider than 16 bits
fn fp_catalogue(ty: Ty) -> Vec<Val> {
    let mut xs: Vec<Val> = Vec::new();
    let w = ty.bits();
    let mut push_i = |x: i128| {
        if let Some(v) = ty.of_i128(x) {
            xs.push(v)
        }
    };
    for x in -20..=40 {
        push_i(x);
    }
    for x in gen::catalogue_i64() {
        push_i(x as i128);
    }
    for k in -2i128..=14 {
        // k ± 2^bit for every bit: any narrowing width, the sign bit of any narrower type
        for bit in 3..w.min(127) {
            push_i(k + (1i128 << bit));
            push_i(k - (1i128 << bit));
        }
        // k ± m·2^b
        for b in [8u32, 16, 32, 64] {
            if b >= w {
                continue;
            }
            let room = (w - b).min(126 - b);
            let mut ms: Vec<i128> = vec![1, 2, 3, 5, 7, 255, 256, 257, 65535, 65536, 0x7fff_ffff, 0x8000_0000, 0xffff_ffff, 0x1_0000_0000];
            ms.push((1i128 << room) - 1);
            ms.push(1i128 << (room - 1));
            ms.push((1i128 << (room - 1)) - 1);
            for m in ms {
                if m > 0 && m < (1i128 << room) {
                    push_i(k + (m << b));
                    push_i(k - (m << b));
                }
            }
        }
    }
    drop(push_i);
    // type extremes and the top of the unsigned 128-bit range (not reachable through i128)
    for d in 0..=3u128 {
        xs.push(ty.of_bits(ty.min().raw.wrapping_add(d)));
        xs.push(ty.of_bits(ty.max().raw.wrapping_sub(d)));
    }
    if ty == Ty::U128 {
        for k in 0..=14u128 {
            for b in [8u32, 16, 32, 64, 127] {
                xs.push(Val { signed: false, raw: (u128::MAX << b) | k });
                xs.push(Val { signed: false, raw: (1u128 << 127) | (1u128 << b) | k });
            }
        }
    }
    xs.sort_by_key(|v| v.raw);
    xs.dedup();
    xs
}

fn numeric(ctx: &Ctx, rep: &Report) {
    // TryFrom<u8>: all 256 values, both targets
    {
        let mut loc = rep.local();
        let (b_ok, b_bad) = (bi("tryfrom_u8_valid"), bi("tryfrom_u8_invalid"));
        for x in 0..=255u8 {
            let v = Val { signed: false, raw: x as u128 };
            for n in [7u32, 12] {
                loc.eval();
                let exp = fp_expect(n, v);
                loc.bucket(if exp.is_some() { b_ok } else { b_bad });
                loc.nontrivial(h2(300 + n as u64, x as u64));
                let (entry, names): (&str, &[&str]) = if n == 7 { ("Weekday::try_from<u8>", &WD_LONG) } else { ("Month::try_from<u8>", &MO_LONG) };
                let got = if n == 7 {
                    loc.call(entry, || json!(x), || Weekday::try_from(x).ok().map(wd_idx))
                } else {
                    loc.call(entry, || json!(x), || Month::try_from(x).ok().map(mo_idx))
                };
                let Some(got) = got else { continue };
                if got != exp {
                    let kind = match (got, exp) {
                        (Some(_), None) => "ok-for-invalid-number",
                        (None, Some(_)) => "err-for-valid-number",
                        _ => "wrong-value",
                    };
                    vio(&mut loc, entry, kind, json!({"input": x, "expected": exp.map(|i| names[i]), "observed": got.map(|i| names[i])}));
                }
            }
        }
    }
    // FromPrimitive: full 8/16-bit domains + catalogues of the wide types (one shard per type)
    let ix = fp_idx();
    par_shards(rep, ctx.threads, TYS.len(), |shard| {
        let ty = TYS[shard];
        let mut loc = rep.local();
        if ty.bits() <= 16 {
            for bits in 0..(1u128 << ty.bits()) {
                fp_case(&mut loc, &ix, ty, ty.of_bits(bits), false);
            }
        } else {
            let cat = fp_catalogue(ty);
            for v in &cat {
                fp_case(&mut loc, &ix, ty, *v, false);
            }
            rep.add_extra_count("fp_catalogue_values", cat.len() as u64);
            loc.sample(|| json!({"part": "numeric", "type": ty.name(), "catalogue_size": cat.len(), "example_input": cat[cat.len() / 2].to_json()}));
        }
    });
    // random values of the wide types
    let total = ctx.n(10_000_000, 10_000_000);
    let n_shards = 64usize;
    let per = total / n_shards as u64;
    let wide: Vec<Ty> = TYS.iter().copied().filter(|t| t.bits() > 16).collect();
    par_shards(rep, ctx.threads, n_shards, |shard| {
        let mut rng = Rng::new(ctx.seed, "C19/numeric", shard as u64);
        let mut loc = rep.local();
        for _ in 0..per {
            let ty = *rng.pick(&wide);
            let hi = ((rng.next() as u128) << 64) | rng.next() as u128;
            let bits = match rng.below(8) {
                // raw bits
                0..=2 => hi,
                // valid (or adjacent) low part under random high bits: narrowing of any of 4 widths
                3..=5 => {
                    let b = *rng.pick(&[8u32, 16, 32, 64]);
                    let k = rng.below(15) as u128;
                    ((hi >> b) << b) | k
                }
                // log-uniform magnitude, either sign
                6 => {
                    let m = rng.log_u64(63) as i128;
                    (if rng.chance(1, 2) { -m } else { m }) as u128
                }
                // small numbers
                _ => (rng.range(-20, 40) as i128) as u128,
            };
            fp_case(&mut loc, &ix, ty, ty.of_bits(bits), true);
        }
    });
}

// ------------------------------------------------------------------------------------------------
// C. text parsing
// ------------------------------------------------------------------------------------------------

#[derive(Clone, Copy, PartialEq)]
enum Fam {
    Case, Prefix, Edit, Padded, Doubled, Cross, Unicode, Random, Short, OtherKind,
}

struct TextIdx {
    acc_short: usize,
    acc_long: usize,
    acc_mixed: usize,
    rej: [usize; 10],
}

fn text_one(loc: &mut Local, ix: &TextIdx, month: bool, s: &str, fam: Fam) {
    let names: &[&str] = if month { &MO_LONG } else { &WD_LONG };
    let entry = if month { "Month::from_str" } else { "Weekday::from_str" };
    let exp = ref_parse(names, s);
    loc.eval();
    loc.nontrivial(h2(400 + month as u64, hstr(s)));
    match exp {
        Some(_) => {
            loc.bucket(if s.len() == 3 { ix.acc_short } else { ix.acc_long });
            let lower = s.chars().any(|c| c.is_ascii_lowercase());
            let upper = s.chars().skip(1).any(|c| c.is_ascii_uppercase());
            if lower && upper {
                loc.bucket(ix.acc_mixed);
            }
        }
        None => loc.bucket(ix.rej[fam as usize]),
    }
    let got = if month {
        loc.call(entry, || json!(s), || s.parse::<Month>().ok().map(mo_idx))
    } else {
        loc.call(entry, || json!(s), || s.parse::<Weekday>().ok().map(wd_idx))
    };
    let Some(got) = got else { return };
    if got != exp {
        let kind = match (got, exp) {
            (Some(_), None) => match fam {
                Fam::Case => "accepts-non-name",
                Fam::Prefix => "accepts-prefix-or-truncation",
                Fam::Edit => "accepts-one-edit-neighbour",
                Fam::Padded => "accepts-padded-name",
                Fam::Doubled => "accepts-repeated-name",
                Fam::Cross => "accepts-mixed-stem-and-suffix",
                Fam::Unicode => "accepts-non-ascii-lookalike",
                Fam::Random => "accepts-random-string",
                Fam::Short => "accepts-short-string",
                Fam::OtherKind => "accepts-name-of-other-kind",
            },
            (None, Some(_)) => if s.len() == 3 { "rejects-short-name" } else { "rejects-long-name" },
            _ => "wrong-value",
        };
        vio(loc, entry, kind, json!({"input": s, "expected": exp.map(|i| names[i]), "observed": got.map(|i| names[i])}));
    }
}

/// all 2^len case variants of an ASCII word
fn case_variants(word: &str) -> Vec<String> {
    let b = word.to_ascii_lowercase().into_bytes();
    let n = b.len();
    (0..(1u32 << n))
        .map(|mask| {
            let v: Vec<u8> = b.iter().enumerate().map(|(i, c)| if mask >> i & 1 == 1 { c.to_ascii_uppercase() } else { *c }).collect();
            String::from_utf8(v).unwrap()
        })
        .collect()
}

fn text(ctx: &Ctx, loc: &mut Local) {
    let ix = TextIdx {
        acc_short: bi("text_accept_short"),
        acc_long: bi("text_accept_long"),
        acc_mixed: bi("text_accept_mixed_case"),
        rej: [
            bi("text_reject_edit"), // Case family: a rejected case variant cannot happen; counted as edit
            bi("text_reject_prefix"), bi("text_reject_edit"), bi("text_reject_padded"), bi("text_reject_doubled"),
            bi("text_reject_cross"), bi("text_reject_unicode"), bi("text_reject_random"), bi("text_reject_short_or_empty"),
            bi("text_reject_other_kind"),
        ],
    };
    // characters substituted/inserted by the one-edit generator: all of ASCII + look-alikes
    let mut alphabet: Vec<char> = (0u8..128).map(|b| b as char).collect();
    alphabet.extend([
        '\u{a0}', '\u{e9}', '\u{fc}', '\u{130}', '\u{131}', '\u{17f}', '\u{212a}', '\u{301}', '\u{200b}', '\u{feff}', '\u{430}', '\u{435}',
        '\u{43e}', '\u{441}', '\u{443}', '\u{3bf}', '\u{ff21}', '\u{ff41}', '\u{ff4d}', '\u{ff4f}', '\u{ff4e}', '\u{1d5ba}', '\u{1f600}',
    ]);
    // one character for every possible UTF-8 lead byte (0xC2..=0xF4), with a low and a high
    // continuation byte: a byte-wise comparison with a wrong mask pairs some lead byte with a letter
    for lead in 0xC2u32..=0xDF {
        for low in [0x05u32, 0x3F] {
            alphabet.extend(char::from_u32((lead & 0x1F) << 6 | low));
        }
    }
    for lead in 0xE0u32..=0xEF {
        let second = if lead == 0xE0 { 0x20 } else { 0x00 }; // E0 needs A0.., ED stays below the surrogates
        alphabet.extend(char::from_u32((lead & 0x0F) << 12 | second << 6 | 0x01));
    }
    for cp in [0x1_0000u32, 0x4_0000, 0x8_0000, 0xC_0000, 0x10_0000] {
        alphabet.extend(char::from_u32(cp));
    }
    for month in [false, true] {
        let names: &[&str] = if month { &MO_LONG } else { &WD_LONG };
        let other: &[&str] = if month { &WD_LONG } else { &MO_LONG };
        let mut words: Vec<String> = Vec::new(); // the accepted lower-case words
        for n in names {
            let l = n.to_ascii_lowercase();
            words.push(l[..3].to_string());
            if l.len() > 3 {
                words.push(l);
            }
        }
        // 1. every case variant of every short and long name
        for w in &words {
            for v in case_variants(w) {
                text_one(loc, &ix, month, &v, Fam::Case);
            }
        }
        // 2. the names of the other kind, the numbers, nothing
        for n in other {
            for form in [n.to_string(), n.to_ascii_lowercase(), n.to_ascii_uppercase(), n[..3].to_string()] {
                text_one(loc, &ix, month, &form, Fam::OtherKind);
            }
        }
        for s in ["", " ", "0", "1", "7", "12", "01", "m", "mo", "ja", "j", "a", "su", "\u{ff4d}o", "d\u{e9}", "1st"] {
            text_one(loc, &ix, month, s, Fam::Short);
        }
        // 3. prefixes and truncations (in three casings): every proper prefix, every proper suffix
        for n in names {
            for form in [n.to_string(), n.to_ascii_lowercase(), n.to_ascii_uppercase()] {
                for k in 0..form.len() {
                    text_one(loc, &ix, month, &form[..k], Fam::Prefix);
                    if k > 0 {
                        text_one(loc, &ix, month, &form[k..], Fam::Prefix);
                    }
                }
            }
        }
        // 4. one-edit neighbours of every accepted word (lower, Title and UPPER case)
        for w in &words {
            let title: String = w[..1].to_ascii_uppercase() + &w[1..];
            for form in [w.clone(), title, w.to_ascii_uppercase()] {
                let cs: Vec<char> = form.chars().collect();
                for pos in 0..=cs.len() {
                    for &c in &alphabet {
                        let mut ins = cs.clone();
                        ins.insert(pos, c);
                        text_one(loc, &ix, month, &ins.iter().collect::<String>(), if c.is_ascii() { Fam::Edit } else { Fam::Unicode });
                        if pos < cs.len() {
                            let mut rep = cs.clone();
                            rep[pos] = c;
                            text_one(loc, &ix, month, &rep.iter().collect::<String>(), if c.is_ascii() { Fam::Edit } else { Fam::Unicode });
                        }
                    }
                    if pos < cs.len() {
                        let mut del = cs.clone();
                        del.remove(pos);
                        text_one(loc, &ix, month, &del.iter().collect::<String>(), Fam::Edit);
                        if pos + 1 < cs.len() {
                            let mut sw = cs.clone();
                            sw.swap(pos, pos + 1);
                            text_one(loc, &ix, month, &sw.iter().collect::<String>(), Fam::Edit);
                        }
                    }
                }
            }
        }
        // 5. padded, doubled
        for n in names {
            for base in [n.to_string(), n[..3].to_string(), n.to_ascii_lowercase()] {
                for pad in [" ", "\t", "\n", "\0", "  ", ".", ",", "\u{a0}", "\u{3000}"] {
                    let fam = if pad.is_ascii() { Fam::Padded } else { Fam::Unicode };
                    text_one(loc, &ix, month, &format!("{}{}", pad, base), fam);
                    text_one(loc, &ix, month, &format!("{}{}", base, pad), fam);
                    text_one(loc, &ix, month, &format!("{}{}{}", pad, base, pad), fam);
                }
                for sep in ["", " ", ",", ", ", "-"] {
                    text_one(loc, &ix, month, &format!("{}{}{}", base, sep, base), Fam::Doubled);
                    text_one(loc, &ix, month, &format!("{}{}{}", base, sep, &n[..3]), Fam::Doubled);
                    text_one(loc, &ix, month, &format!("{}{}{}", &n[..3], sep, base), Fam::Doubled);
                }
                text_one(loc, &ix, month, &format!("{}s", base), Fam::Doubled);
                text_one(loc, &ix, month, &format!("{}.", &n[..3]), Fam::Padded);
            }
        }
        // 6. every stem with every long-name suffix (of both kinds), every stem + prefix of a suffix
        let mut suffixes: Vec<String> = names.iter().chain(other.iter()).map(|n| n[3..].to_ascii_lowercase()).collect();
        suffixes.extend(["s", "th", "d", "da", "ay", "u", "t", "r"].iter().map(|s| s.to_string()));
        suffixes.sort();
        suffixes.dedup();
        for n in names {
            for stem in [n[..3].to_string(), n[..3].to_ascii_lowercase(), n[..3].to_ascii_uppercase()] {
                for suf in &suffixes {
                    text_one(loc, &ix, month, &format!("{}{}", stem, suf), Fam::Cross);
                    text_one(loc, &ix, month, &format!("{}{}", stem, suf.to_ascii_uppercase()), Fam::Cross);
                }
            }
        }
        // 7. look-alike Unicode spellings of whole names
        for n in names {
            let l = n.to_ascii_lowercase();
            let full: String = l.chars().map(|c| char::from_u32(0xff41 + (c as u32 - 'a' as u32)).unwrap()).collect();
            let full_short: String = full.chars().take(3).collect();
            let cyr: String = l.chars().map(|c| match c { 'a' => '\u{430}', 'e' => '\u{435}', 'o' => '\u{43e}', 'c' => '\u{441}', 'y' => '\u{443}', 'p' => '\u{440}', x => x }).collect();
            let cyr_short: String = cyr.chars().take(3).collect();
            let long_s = l.replace('s', "\u{17f}");
            let dotless = l.replace('i', "\u{131}");
            let dotted = l.replace('i', "\u{130}");
            let combining = format!("{}\u{301}", l);
            let combining_short = format!("{}\u{301}", &l[..3]);
            let zw = format!("{}\u{200b}{}", &l[..3], &l[3..]);
            let bom = format!("\u{feff}{}", l);
            for s in [full, full_short, cyr, cyr_short, long_s, dotless, dotted, combining, combining_short, zw, bom] {
                text_one(loc, &ix, month, &s, Fam::Unicode);
            }
        }
        // 8. random: letters only (near the language), stem + random tail, arbitrary Unicode
        let mut rng = Rng::new(ctx.seed, "C19/text", month as u64);
        let letters: Vec<char> = ('a'..='z').chain('A'..='Z').collect();
        for _ in 0..ctx.n(60_000, 60_000) {
            let s: String = match rng.below(4) {
                0 => (0..rng.below(11)).map(|_| *rng.pick(&letters)).collect(),
                1 => {
                    let stem = &rng.pick(names)[..3];
                    let tail: String = (0..rng.below(8)).map(|_| *rng.pick(&letters)).collect();
                    format!("{}{}", stem, tail)
                }
                2 => {
                    // a name with a few random character substitutions
                    let mut cs: Vec<char> = rng.pick(names).chars().collect();
                    for _ in 0..1 + rng.below(3) {
                        let p = rng.below(cs.len() as u64) as usize;
                        cs[p] = *rng.pick(&alphabet);
                    }
                    cs.into_iter().collect()
                }
                _ => gen::random_unicode(&mut rng, 12),
            };
            let fam = if s.is_ascii() { Fam::Random } else { Fam::Unicode };
            text_one(loc, &ix, month, &s, fam);
        }
    }
    loc.sample(|| json!({"part": "text", "input": "wEDNESday", "observed": format!("{:?}", "wEDNESday".parse::<Weekday>()), "expected": "Wed"}));
    loc.sample(|| json!({"part": "text", "input": "\u{17f}unday", "observed": format!("{:?}", "\u{17f}unday".parse::<Weekday>()), "expected": "rejected"}));
}

// ------------------------------------------------------------------------------------------------
// D. WeekdaySet against a [bool; 7] model
// ------------------------------------------------------------------------------------------------

type Model = [bool; 7];

fn model_of(code: u32) -> Model {
    let mut m = [false; 7];
    for (i, slot) in m.iter_mut().enumerate() {
        *slot = code >> i & 1 == 1; // `code` only enumerates the 128 subsets; it is not chrono's encoding by contract
    }
    m
}
fn members(m: &Model) -> Vec<usize> {
    (0..7).filter(|i| m[*i]).collect()
}
fn model_json(m: &Model) -> Value {
    json!(members(m).iter().map(|i| &WD_LONG[*i][..3]).collect::<Vec<_>>())
}
fn model_display(m: &Model) -> String {
    format!("[{}]", members(m).iter().map(|i| &WD_LONG[*i][..3]).collect::<Vec<_>>().join(", "))
}
/// observe a chrono set through `contains` only
fn observe(s: WeekdaySet) -> Model {
    let mut m = [false; 7];
    for i in 0..7 {
        m[i] = s.contains(WD[i]);
    }
    m
}
/// build through `insert` on `EMPTY`
fn build(m: &Model) -> WeekdaySet {
    let mut s = WeekdaySet::EMPTY;
    for i in members(m) {
        s.insert(WD[i]);
    }
    s
}
/// build through `from_array` with an array of exactly the members
fn build_array(m: &Model) -> WeekdaySet {
    let d: Vec<Weekday> = members(m).into_iter().map(|i| WD[i]).collect();
    match d.len() {
        0 => WeekdaySet::from_array([]),
        1 => WeekdaySet::from_array([d[0]]),
        2 => WeekdaySet::from_array([d[0], d[1]]),
        3 => WeekdaySet::from_array([d[0], d[1], d[2]]),
        4 => WeekdaySet::from_array([d[0], d[1], d[2], d[3]]),
        5 => WeekdaySet::from_array([d[0], d[1], d[2], d[3], d[4]]),
        6 => WeekdaySet::from_array([d[0], d[1], d[2], d[3], d[4], d[5]]),
        _ => WeekdaySet::from_array([d[0], d[1], d[2], d[3], d[4], d[5], d[6]]),
    }
}

fn expect_set(loc: &mut Local, entry: &str, kind: &str, input: impl Fn() -> Value, got: WeekdaySet, exp: &Model) -> bool {
    let obs = observe(got);
    // the set must also agree with itself: len, is_empty, equality with a freshly built equal set
    let coherent = got.len() as usize == members(exp).len() && got.is_empty() == members(exp).is_empty() && got == build(exp);
    if obs != *exp || !coherent {
        vio(loc, entry, kind, json!({"input": input(), "expected": model_json(exp), "observed_members": model_json(&obs), "observed_len": got.len(), "observed_debug": format!("{:?}", got)}));
        return false;
    }
    true
}

/// Step monitor: forward iteration from Monday must end within 7 steps (bound 9, no clock).
fn iter_terminates(loc: &mut Local, s: WeekdaySet, m: &Model) -> bool {
    match loc.call("WeekdaySet::iter", || model_json(m), || s.iter(Weekday::Mon).take(9).count()) {
        Some(n) if n <= 7 => true,
        Some(n) => {
            vio(loc, "WeekdaySet::iter", "does-not-terminate-within-7-steps", json!({"set": model_json(m), "start": "Mon", "steps_taken": n}));
            false
        }
        None => false,
    }
}

fn sets_single(loc: &mut Local) {
    let (b_build, b_ins_new, b_ins_old, b_rem_old, b_rem_new, b_fl, b_disp, b_dup) = (
        bi("set_build"), bi("set_insert_new"), bi("set_insert_present"), bi("set_remove_present"), bi("set_remove_absent"),
        bi("set_first_last"), bi("set_display"), bi("set_from_iter_dup"),
    );
    // constants
    loc.eval();
    let _ = loc.call("WeekdaySet::EMPTY/ALL", || json!(null), || {
        (observe(WeekdaySet::EMPTY), observe(WeekdaySet::ALL), observe(WeekdaySet::default()))
    })
    .map(|(e, a, d)| {
        if e != [false; 7] || a != [true; 7] || d != [false; 7] {
            vio(loc, "WeekdaySet::EMPTY/ALL", "wrong-constant", json!({"EMPTY": model_json(&e), "ALL": model_json(&a), "default": model_json(&d)}));
        }
    });
    for code in 0..128u32 {
        let m = model_of(code);
        let mem = members(&m);
        let inp = || model_json(&m);
        // construction routes
        loc.eval();
        loc.bucket(b_build);
        loc.nontrivial(h2(500, code as u64));
        let Some(s) = loc.call("WeekdaySet::insert", inp, || build(&m)) else { continue };
        if !expect_set(loc, "WeekdaySet::insert", "built-set-differs-from-inserted-days", inp, s, &m) {
            continue;
        }
        if let Some(a) = loc.call("WeekdaySet::from_array", inp, || build_array(&m)) {
            expect_set(loc, "WeekdaySet::from_array", "wrong-set", inp, a, &m);
        }
        // FromIterator: ascending, descending, with duplicates, rotated
        loc.eval();
        loc.bucket(b_dup);
        let mut orders: Vec<Vec<usize>> = vec![mem.clone(), mem.iter().rev().copied().collect()];
        let mut dup = mem.clone();
        dup.extend(mem.iter().rev());
        dup.extend(mem.iter());
        orders.push(dup);
        // long sequences in which members first appear late (after 7, 9 and 20 repeats of another)
        if let (Some(&first), Some(&last)) = (mem.first(), mem.last()) {
            for (rep, lead) in [(7usize, first), (9, last), (20, first)] {
                let mut v = vec![lead; rep];
                v.extend(mem.iter());
                orders.push(v);
            }
        }
        for r in 1..mem.len() {
            let mut v = mem.clone();
            v.rotate_left(r);
            orders.push(v);
        }
        for o in orders {
            if let Some(c) = loc.call("WeekdaySet::from_iter", || json!(o), || o.iter().map(|i| WD[*i]).collect::<WeekdaySet>()) {
                expect_set(loc, "WeekdaySet::from_iter", "wrong-set", || json!(o), c, &m);
            }
        }
        // padded from_array with duplicates
        if !mem.is_empty() {
            let mut arr = [WD[mem[0]]; 7];
            for (k, i) in mem.iter().enumerate() {
                arr[6 - k] = WD[*i];
            }
            if let Some(a) = loc.call("WeekdaySet::from_array", inp, || WeekdaySet::from_array(arr)) {
                expect_set(loc, "WeekdaySet::from_array", "wrong-set-with-duplicates", inp, a, &m);
            }
        }
        // first / last / len / is_empty / single_day
        loc.eval();
        loc.bucket(b_fl);
        if let Some((f, l, n, e, sd)) = loc.call("WeekdaySet::first/last/len", inp, || (s.first().map(wd_idx), s.last().map(wd_idx), s.len(), s.is_empty(), s.single_day().map(wd_idx))) {
            let (ef, el) = (mem.first().copied(), mem.last().copied());
            if f != ef {
                vio(loc, "WeekdaySet::first", "wrong-day", json!({"input": inp(), "expected": ef, "observed": f}));
            }
            if l != el {
                vio(loc, "WeekdaySet::last", "wrong-day", json!({"input": inp(), "expected": el, "observed": l}));
            }
            if n as usize != mem.len() || e != mem.is_empty() {
                vio(loc, "WeekdaySet::len", "wrong-length", json!({"input": inp(), "expected": mem.len(), "observed": n, "is_empty": e}));
            }
            let esd = if mem.len() == 1 { Some(mem[0]) } else { None };
            if sd != esd {
                vio(loc, "WeekdaySet::single_day", "wrong-answer", json!({"input": inp(), "expected": esd, "observed": sd}));
            }
        }
        // Display (walks the set with its own iterator, unbounded: probe termination first so that a
        // non-terminating iterator is reported as a violation instead of exhausting memory)
        loc.eval();
        loc.bucket(b_disp);
        if !iter_terminates(loc, s, &m) {
            continue;
        }
        if let Some(d) = loc.call("WeekdaySet::Display", inp, || s.to_string()) {
            let e = model_display(&m);
            if d != e {
                vio(loc, "WeekdaySet::Display", "wrong-text", json!({"input": inp(), "expected": e, "observed": d}));
            }
        }
        // per day: contains / insert / remove / single
        for d in 0..7usize {
            loc.eval();
            loc.nontrivial(h2(501, (code * 7 + d as u32) as u64));
            let inp2 = || json!({"set": model_json(&m), "day": &WD_LONG[d][..3]});
            if let Some(c) = loc.call("WeekdaySet::contains", inp2, || s.contains(WD[d])) {
                if c != m[d] {
                    vio(loc, "WeekdaySet::contains", "wrong-answer", inp2());
                }
            }
            loc.bucket(if m[d] { b_ins_old } else { b_ins_new });
            if let Some((t, fresh)) = loc.call("WeekdaySet::insert", inp2, || {
                let mut t = s;
                let fresh = t.insert(WD[d]);
                (t, fresh)
            }) {
                let mut e = m;
                e[d] = true;
                if fresh == m[d] {
                    vio(loc, "WeekdaySet::insert", "wrong-return-value", json!({"input": inp2(), "expected": !m[d], "observed": fresh}));
                }
                expect_set(loc, "WeekdaySet::insert", "wrong-set", inp2, t, &e);
            }
            loc.bucket(if m[d] { b_rem_old } else { b_rem_new });
            if let Some((t, had)) = loc.call("WeekdaySet::remove", inp2, || {
                let mut t = s;
                let had = t.remove(WD[d]);
                (t, had)
            }) {
                let mut e = m;
                e[d] = false;
                if had != m[d] {
                    vio(loc, "WeekdaySet::remove", "wrong-return-value", json!({"input": inp2(), "expected": m[d], "observed": had}));
                }
                expect_set(loc, "WeekdaySet::remove", "wrong-set", inp2, t, &e);
            }
            if code == 0 {
                if let Some(one) = loc.call("WeekdaySet::single", || json!(d), || WeekdaySet::single(WD[d])) {
                    let mut e = [false; 7];
                    e[d] = true;
                    expect_set(loc, "WeekdaySet::single", "wrong-set", || json!(d), one, &e);
                }
            }
        }
    }
    let ex = model_of(0b1010001);
    if iter_terminates(loc, build(&ex), &ex) {
        loc.sample(|| json!({"part": "set", "input": ["Mon", "Fri", "Sun"], "display": build(&ex).to_string(), "expected": model_display(&ex)}));
    }
}

fn sets_pairs(loc: &mut Local) {
    let (b_pair, b_sub_t, b_sub_f) = (bi("set_pair_ops"), bi("set_subset_true"), bi("set_subset_false"));
    for ca in 0..128u32 {
        let ma = model_of(ca);
        let a = build(&ma);
        for cb in 0..128u32 {
            let mb = model_of(cb);
            let b = build(&mb);
            loc.eval();
            loc.bucket(b_pair);
            loc.nontrivial(h2(510, (ca * 128 + cb) as u64));
            let inp = || json!({"self": model_json(&ma), "other": model_json(&mb)});
            let Some((u, i, d, x, sub)) = loc.call("WeekdaySet::binary-ops", inp, || {
                (a.union(b), a.intersection(b), a.difference(b), a.symmetric_difference(b), a.is_subset(b))
            }) else {
                continue;
            };
            let mut eu = [false; 7];
            let mut ei = [false; 7];
            let mut ed = [false; 7];
            let mut ex = [false; 7];
            let mut esub = true;
            for k in 0..7 {
                eu[k] = ma[k] || mb[k];
                ei[k] = ma[k] && mb[k];
                ed[k] = ma[k] && !mb[k];
                ex[k] = ma[k] != mb[k];
                if ma[k] && !mb[k] {
                    esub = false;
                }
            }
            expect_set(loc, "WeekdaySet::union", "wrong-set", inp, u, &eu);
            expect_set(loc, "WeekdaySet::intersection", "wrong-set", inp, i, &ei);
            expect_set(loc, "WeekdaySet::difference", "wrong-set", inp, d, &ed);
            expect_set(loc, "WeekdaySet::symmetric_difference", "wrong-set", inp, x, &ex);
            loc.bucket(if esub { b_sub_t } else { b_sub_f });
            if sub != esub {
                vio(loc, "WeekdaySet::is_subset", "wrong-answer", json!({"input": inp(), "expected": esub, "observed": sub}));
            }
            if (a == b) != (ma == mb) {
                vio(loc, "WeekdaySet::eq", "wrong-answer", json!({"input": inp(), "expected": ma == mb, "observed": a == b}));
            }
        }
    }
}

fn set_iteration(loc: &mut Local) {
    let (b_front, b_back, b_mix, b_wrap, b_fused) = (bi("iter_front_only"), bi("iter_back_only"), bi("iter_interleaved"), bi("iter_wraparound"), bi("iter_fused"));
    for code in 0..128u32 {
        let m = model_of(code);
        let n = members(&m).len();
        for start in 0..7usize {
            let order = ref_cyclic(&m, start);
            let wraps = members(&m).iter().any(|i| *i < start) && members(&m).iter().any(|i| *i >= start);
            for pat in 0..(1u32 << n) {
                loc.eval();
                loc.nontrivial(h2(520, ((code * 7 + start as u32) as u64) << 8 | pat as u64));
                loc.bucket(if pat == 0 { b_front } else if pat == (1 << n) - 1 { b_back } else { b_mix });
                if wraps {
                    loc.bucket(b_wrap);
                }
                loc.bucket(b_fused);
                let inp = || {
                    json!({"set": model_json(&m), "start": &WD_LONG[start][..3],
                           "calls": (0..n).map(|j| if pat >> j & 1 == 1 { "next_back" } else { "next" }).collect::<Vec<_>>()})
                };
                // observed: per call the yielded day and the remaining length, then the exhausted tail
                let Some((steps, tail)) = loc.call("WeekdaySet::iter", inp, || {
                    let mut it = build(&m).iter(WD[start]);
                    let mut steps = Vec::with_capacity(n);
                    let len0 = it.len();
                    for j in 0..n {
                        let y = if pat >> j & 1 == 1 { it.next_back() } else { it.next() };
                        steps.push((y.map(wd_idx), it.len()));
                    }
                    // exhausted: stays exhausted from both ends, in either order
                    let tail = if pat & 1 == 1 {
                        [it.next().map(wd_idx), it.next_back().map(wd_idx), it.next().map(wd_idx), it.next_back().map(wd_idx)]
                    } else {
                        [it.next_back().map(wd_idx), it.next().map(wd_idx), it.next_back().map(wd_idx), it.next().map(wd_idx)]
                    };
                    let len_end = it.len();
                    ((len0, steps, len_end), tail)
                }) else {
                    continue;
                };
                let (len0, steps, len_end) = steps;
                let mut dq: VecDeque<usize> = order.iter().copied().collect();
                let mut exp = Vec::with_capacity(n);
                for j in 0..n {
                    let y = if pat >> j & 1 == 1 { dq.pop_back() } else { dq.pop_front() };
                    exp.push((y, dq.len()));
                }
                let days_ok = steps.iter().map(|s| s.0).eq(exp.iter().map(|s| s.0));
                let lens_ok = len0 == n && len_end == 0 && steps.iter().map(|s| s.1).eq(exp.iter().map(|s| s.1));
                if !days_ok {
                    let kind = if pat == 0 {
                        "wrong-forward-order"
                    } else if pat == (1 << n) - 1 {
                        "wrong-backward-order"
                    } else {
                        "wrong-order-when-interleaving-next-and-next_back"
                    };
                    vio(loc, "WeekdaySet::iter", kind, json!({"input": inp(), "expected": exp.iter().map(|s| s.0).collect::<Vec<_>>(), "observed": steps.iter().map(|s| s.0).collect::<Vec<_>>()}));
                } else if !lens_ok {
                    vio(loc, "WeekdaySetIter::len", "wrong-remaining-length", json!({"input": inp(), "initial": len0, "after_each_call": steps.iter().map(|s| s.1).collect::<Vec<_>>(), "at_end": len_end}));
                }
                if tail.iter().any(|t| t.is_some()) {
                    vio(loc, "WeekdaySet::iter", "yields-after-exhaustion", json!({"input": inp(), "observed_after_end": tail}));
                }
            }
            // the plain adaptor routes: collect(), rev().collect(), count()
            loc.eval();
            if let Some((f, r, c)) = loc.call("WeekdaySet::iter", || json!({"set": model_json(&m), "start": start}), || {
                let s = build(&m);
                // step bound 16 > 7: a non-terminating iterator shows up as a wrong result, not as a hang
                (
                    s.iter(WD[start]).take(16).map(wd_idx).collect::<Vec<_>>(),
                    s.iter(WD[start]).rev().take(16).map(wd_idx).collect::<Vec<_>>(),
                    s.iter(WD[start]).take(16).count(),
                )
            }) {
                let mut rev = order.clone();
                rev.reverse();
                if f != order || r != rev || c != n {
                    vio(loc, "WeekdaySet::iter", "wrong-order-through-adaptors", json!({"set": model_json(&m), "start": start, "expected": order, "collect": f, "rev_collect": r, "count": c}));
                }
            }
            // the provided Iterator methods an implementation may override: each must agree with stepping
            loc.eval();
            if let Some(obs) = loc.call("WeekdaySetIter::provided-methods", || json!({"set": model_json(&m), "start": start}), || {
                let s = build(&m);
                let it = || s.iter(WD[start]);
                let nths: Vec<Option<usize>> = (0..9).map(|k| it().nth(k).map(wd_idx)).collect();
                let nth_backs: Vec<Option<usize>> = (0..9).map(|k| it().nth_back(k).map(wd_idx)).collect();
                (
                    it().last().map(wd_idx),
                    it().rev().last().map(wd_idx),
                    it().count(),
                    it().size_hint(),
                    nths,
                    nth_backs,
                    it().fold(Vec::new(), |mut v, d| {
                        v.push(wd_idx(d));
                        v
                    }),
                    it().rfold(Vec::new(), |mut v, d| {
                        v.push(wd_idx(d));
                        v
                    }),
                    (it().map(wd_idx).min(), it().map(wd_idx).max()),
                    {
                        // after skipping one from each end
                        let mut j = it();
                        let (_a, _b) = (j.next(), j.next_back());
                        let l = j.len();
                        (j.last().map(wd_idx), l)
                    },
                )
            }) {
                let mut rev = order.clone();
                rev.reverse();
                let exp_nth: Vec<Option<usize>> = (0..9).map(|k| order.get(k).copied()).collect();
                let exp_nthb: Vec<Option<usize>> = (0..9).map(|k| rev.get(k).copied()).collect();
                let inner: Vec<usize> = if n >= 2 { order[1..n - 1].to_vec() } else { vec![] };
                let (last, rlast, count, hint, nths, nthbs, fold, rfold, minmax, after) = obs;
                let ok = last == order.last().copied()
                    && rlast == order.first().copied()
                    && count == n
                    // (size_hint is the default (0, None) on the pinned tree; the property does not speak of it)
                    && hint.0 <= n && hint.1.map_or(true, |h| h >= n)
                    && nths == exp_nth
                    && nthbs == exp_nthb
                    && fold == order
                    && rfold == rev
                    && minmax == (members(&m).first().copied(), members(&m).last().copied())
                    && after.0 == inner.last().copied();
                if !ok {
                    vio(loc, "WeekdaySetIter", "provided-iterator-method-disagrees-with-stepping", json!({"set": model_json(&m), "start": start, "order": order, "last": last, "rev_last": rlast, "count": count, "size_hint": [hint.0, hint.1.unwrap_or(99)], "nth": nths, "nth_back": nthbs, "fold": fold, "rfold": rfold, "after_one_from_each_end_last": after.0}));
                }
            }
        }
    }
    loc.sample(|| json!({"part": "iteration", "set": ["Mon", "Wed", "Fri"], "start": "Wed", "observed": build(&model_of(0b0010101)).iter(Weekday::Wed).take(8).map(|d| d.to_string()).collect::<Vec<_>>(), "expected": ["Wed", "Fri", "Mon"]}));
}
