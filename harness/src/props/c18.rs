//! C18 — Local uses the zone the environment names, and notices changes.
//! Every history runs in its own child process (the environment is process-global), where possible
//! inside a private mount namespace with a tmpfs over /etc so that /etc/localtime is under control.
//! The child executes the steps and logs each with SystemTime stamps taken immediately before and
//! after; the parent checks the log offline against the documented source precedence (R-tz) and
//! the one-second refresh rule, with one-sided reasoning on measured stamps (load can only weaken
//! a run, never fail it).

use crate::mon::{h2, hstr, par_shards, Ctx, Local, Outcome, Report, Tier};
use crate::props::tzchild::{self, Ans};
use crate::reftz::{self as tz, TzType, WriteOpts, ZoneModel};
use crate::rng::Rng;
use serde_json::json;
use std::io::Write;
use std::path::{Path, PathBuf};
use std::time::{Duration, SystemTime, UNIX_EPOCH};

const B: &[&str] = &[
    "source_absolute_path", "source_colon_absolute_path", "source_zone_name", "source_colon_zone_name", "source_posix_rule", "source_empty",
    "source_unreadable_path", "source_not_a_tzif_file", "source_garbage_text", "source_unset", "fallback_system_zone_named", "fallback_final_utc",
    "etc_localtime_symlink", "etc_localtime_regular_file", "etc_localtime_absent", "no_namespace_host_etc",
    "change_env_to_env", "change_env_to_unset", "change_unset_to_env", "change_valid_garbage_valid", "change_back_to_earlier_value",
    "convert_must_be_current", "convert_either_admissible", "convert_fresh_thread", "convert_utc_to_local", "convert_local_to_utc", "stress_run", "polling_more_than_1s_after_change",
];
const FLOOR: &[&str] = &[
    "source_absolute_path", "source_colon_absolute_path", "source_zone_name", "source_colon_zone_name", "source_posix_rule", "source_empty",
    "source_unreadable_path", "source_not_a_tzif_file", "source_garbage_text", "source_unset",
    "change_env_to_env", "change_env_to_unset", "change_unset_to_env", "change_valid_garbage_valid", "change_back_to_earlier_value",
    "convert_must_be_current", "convert_either_admissible", "convert_fresh_thread", "convert_utc_to_local", "convert_local_to_utc", "polling_more_than_1s_after_change",
];

fn bi(n: &str) -> usize {
    B.iter().position(|x| *x == n).unwrap()
}

const U0: i64 = 1_700_000_000; // 2023-11-14T22:13:20Z: every configured zone has a distinct offset here
const L0: i64 = 1_700_020_000; // a wall-clock second far from any transition of the configured zones
/// 2023-03-12T04:20:00Z: two hours before the DST start of the configured rule zone
/// `AAA4:20BBB,M3.2.0,M11.1.0` (06:20Z) and 70 minutes before that of America/St_Johns; read as a
/// *wall-clock* time it lies after both gaps, so a lookup in the wrong direction shows the DST offset.
const U1: i64 = 1_678_594_800;

// ------------------------------------------------------------------------------------------------
// child side
// ------------------------------------------------------------------------------------------------

fn now_ns() -> u128 {
    SystemTime::now().duration_since(UNIX_EPOCH).map(|d| d.as_nanos()).unwrap_or(0)
}

/// One observation = exactly one conversion (the property speaks of single conversions; a helper that
/// converts twice and cross-checks can straddle a refresh and see two admissible zones).
fn convert(kind: &str, v: i64) -> Ans {
    if kind == "U" {
        tzchild::answer_utc_single(v)
    } else {
        tzchild::answer_local_single(v)
    }
}

/// `chk --child c18h <spec file>`; one output line per step: `<idx> <t_before_ns> <t_after_ns> <result>`
pub fn child_history(args: &[String]) -> i32 {
    let Some(path) = args.first() else { return 3 };
    let Ok(spec) = std::fs::read_to_string(path) else { return 3 };
    let out = std::io::stdout();
    let mut out = out.lock();
    for (idx, line) in spec.lines().enumerate() {
        let (cmd, rest) = match line.find(' ') {
            Some(p) => (&line[..p], &line[p + 1..]),
            None => (line, ""),
        };
        let t0 = now_ns();
        let res: String = match cmd {
            "SET" => {
                std::env::set_var("TZ", rest);
                "ok".into()
            }
            "UNSET" => {
                std::env::remove_var("TZ");
                "ok".into()
            }
            "SLEEP" => {
                std::thread::sleep(Duration::from_millis(rest.parse().unwrap_or(0)));
                "ok".into()
            }
            "CONV" | "TCONV" => {
                let mut it = rest.split(' ');
                let kind = it.next().unwrap_or("U").to_string();
                let v: i64 = it.next().and_then(|s| s.parse().ok()).unwrap_or(0);
                if cmd == "CONV" {
                    convert(&kind, v).print()
                } else {
                    // stamps are taken inside the fresh thread so that they bracket its first use
                    let h = std::thread::spawn(move || {
                        let a = now_ns();
                        let r = convert(&kind, v);
                        (a, r, now_ns())
                    });
                    match h.join() {
                        Ok((a, r, b)) => {
                            let _ = writeln!(out, "{} {} {} {}", idx, a, b, r.print());
                            continue;
                        }
                        Err(_) => "P thread panicked".into(),
                    }
                }
            }
            _ => "bad".into(),
        };
        let t1 = now_ns();
        let _ = writeln!(out, "{} {} {} {}", idx, t0, t1, res);
    }
    let _ = out.flush();
    0
}

/// `chk --child c18s <dwell_ms> <rounds> <v1> <v2> ...`: stress — the main thread rotates TZ through
/// the values while a looping thread and fresh threads convert. Output: `S <seq> <tb> <ta>` for
/// each set, `O loop|fresh <tb> <ta> <result>` for each observation.
pub fn child_stress(args: &[String]) -> i32 {
    let dwell: u64 = args.first().and_then(|s| s.parse().ok()).unwrap_or(300);
    let rounds: usize = args.get(1).and_then(|s| s.parse().ok()).unwrap_or(1);
    let vals: Vec<String> = args[2..].to_vec();
    let stop = std::sync::Arc::new(std::sync::atomic::AtomicBool::new(false));
    let log = std::sync::Arc::new(std::sync::Mutex::new(Vec::<String>::new()));
    let (s1, l1) = (stop.clone(), log.clone());
    let looper = std::thread::spawn(move || {
        let mut n = 0u64;
        while !s1.load(std::sync::atomic::Ordering::Relaxed) {
            let a = now_ns();
            let r = convert("U", U0);
            let b = now_ns();
            n += 1;
            if n % 16 == 0 {
                l1.lock().unwrap().push(format!("O loop {} {} {}", a, b, r.print()));
            }
            std::thread::sleep(Duration::from_millis(2));
        }
    });
    let (s2, l2) = (stop.clone(), log.clone());
    let spawner = std::thread::spawn(move || {
        while !s2.load(std::sync::atomic::Ordering::Relaxed) {
            let l3 = l2.clone();
            let h = std::thread::spawn(move || {
                let a = now_ns();
                let r = convert("L", L0);
                let b = now_ns();
                l3.lock().unwrap().push(format!("O fresh {} {} {}", a, b, r.print()));
            });
            let _ = h.join();
            std::thread::sleep(Duration::from_millis(7));
        }
    });
    let mut seq = 0usize;
    for _ in 0..rounds {
        for v in &vals {
            let a = now_ns();
            std::env::set_var("TZ", v);
            let b = now_ns();
            log.lock().unwrap().push(format!("S {} {} {}", seq, a, b));
            seq += 1;
            std::thread::sleep(Duration::from_millis(dwell));
        }
    }
    // quiesce: after 1.2 s every thread must show the final value
    std::thread::sleep(Duration::from_millis(1200));
    stop.store(true, std::sync::atomic::Ordering::Relaxed);
    let _ = looper.join();
    let _ = spawner.join();
    let a = now_ns();
    let r = convert("U", U0);
    let b = now_ns();
    let out = std::io::stdout();
    let mut out = out.lock();
    for l in log.lock().unwrap().iter() {
        let _ = writeln!(out, "{}", l);
    }
    let _ = writeln!(out, "F {} {} {}", a, b, r.print());
    0
}

// ------------------------------------------------------------------------------------------------
// parent side: configurations, sources, expected answers
// ------------------------------------------------------------------------------------------------

#[derive(Clone, Copy, Debug, PartialEq, Eq)]
enum Etc {
    Host,        // no namespace: the machine's own /etc
    SymlinkTokyo, // /etc/localtime -> /usr/share/zoneinfo/Asia/Tokyo
    FileNairobi,  // /etc/localtime is a regular copy of Africa/Nairobi, nothing names the system zone
    Absent,       // no /etc/localtime at all
}

#[derive(Clone, Debug)]
struct Source {
    kind: &'static str,
    /// None = TZ unset
    value: Option<String>,
    /// does this source resolve by itself (else the fallback chain is used)?
    valid: bool,
}

fn fixed_zone_file(dir: &Path, name: &str, off: i32) -> Option<PathBuf> {
    let m = ZoneModel { transitions: vec![], types: vec![TzType { off, dst: false, name: "FIX".into() }], leaps: vec![], rule: Some(tz::Rule::fixed(TzType { off, dst: false, name: "FIX".into() })) };
    let b = tz::write_tzif(&m, &WriteOpts { version: 2, indicators: false, full_v1: true, footer_override: None });
    let p = dir.join(name);
    std::fs::write(&p, b).ok()?;
    Some(p)
}

fn model_of_file(path: &str) -> Option<ZoneModel> {
    let b = std::fs::read(path).ok()?;
    tz::read_tzif(&b).ok().map(|r| r.1)
}

fn utc_model() -> ZoneModel {
    ZoneModel { transitions: vec![], types: vec![TzType { off: 0, dst: false, name: "UTC".into() }], leaps: vec![], rule: None }
}

/// The zone the documented precedence selects for a TZ value under an /etc configuration.
fn resolve(src: &Source, etc: Etc, host_localtime: &Option<ZoneModel>, host_named: &Option<ZoneModel>) -> ZoneModel {
    // fallback chain: named system zone, finally UTC
    let fallback = || -> ZoneModel {
        match etc {
            Etc::SymlinkTokyo => model_of_file("/usr/share/zoneinfo/Asia/Tokyo").unwrap_or_else(utc_model),
            Etc::FileNairobi | Etc::Absent => utc_model(),
            Etc::Host => host_named.clone().unwrap_or_else(utc_model),
        }
    };
    match &src.value {
        None => match etc {
            Etc::SymlinkTokyo => model_of_file("/usr/share/zoneinfo/Asia/Tokyo").unwrap_or_else(utc_model),
            Etc::FileNairobi => model_of_file("/usr/share/zoneinfo/Africa/Nairobi").unwrap_or_else(utc_model),
            Etc::Absent => fallback(),
            Etc::Host => host_localtime.clone().unwrap_or_else(fallback),
        },
        Some(v) => {
            if v.is_empty() {
                return utc_model();
            }
            let (is_colon, body) = match v.strip_prefix(':') {
                Some(b) => (true, b),
                None => (false, v.as_str()),
            };
            let file_model = |p: &str| -> Option<ZoneModel> {
                if p.starts_with('/') {
                    model_of_file(p)
                } else {
                    ["/usr/share/zoneinfo", "/share/zoneinfo", "/etc/zoneinfo", "/usr/share/lib/zoneinfo"].iter().find_map(|d| model_of_file(&format!("{}/{}", d, p)))
                }
            };
            if is_colon {
                return file_model(body).unwrap_or_else(fallback);
            }
            if let Some(m) = file_model(body) {
                return m;
            }
            match tz::parse_posix(v.trim(), false) {
                Ok(r) if src.valid => ZoneModel { transitions: vec![], types: vec![r.std.clone()], leaps: vec![], rule: Some(r) },
                _ => fallback(),
            }
        }
    }
}

fn expected_answer(m: &ZoneModel, kind: &str, v: i64) -> Ans {
    if kind == "U" {
        Ans::Single(m.offset_at(v))
    } else {
        let offs = m.all_offsets();
        let c = m.local_candidates(v, &offs);
        match c.len() {
            0 => Ans::None,
            1 => Ans::Single(c[0].1),
            _ => Ans::Ambiguous(c[0].1, c[1].1),
        }
    }
}

#[derive(Clone, Debug)]
enum Step {
    Set(usize),   // index into sources (value Some)
    Unset,
    Sleep(u64),
    Conv(&'static str, i64, bool), // kind, value, fresh thread
}

struct History {
    id: usize,
    etc: Etc,
    initial: usize, // source index in force when the process starts
    steps: Vec<Step>,
}

fn gen_history(rng: &mut Rng, id: usize, etc: Etc, sources: &[Source], long_budget: usize) -> History {
    let n_src = sources.len();
    let unset_idx = sources.iter().position(|s| s.value.is_none()).unwrap();
    let valid: Vec<usize> = (0..n_src).filter(|i| sources[*i].valid && sources[*i].value.is_some()).collect();
    let invalid: Vec<usize> = (0..n_src).filter(|i| !sources[*i].valid).collect();
    let initial = if rng.chance(1, 4) { unset_idx } else { rng.below(n_src as u64) as usize };
    let mut steps = Vec::new();
    let mut longs = 0usize;
    let conv = |rng: &mut Rng, fresh: bool| -> Step {
        match rng.below(5) {
            0..=1 => Step::Conv("U", U0, fresh),
            2..=3 => Step::Conv("L", L0, fresh),
            _ => Step::Conv("U", U1, fresh),
        }
    };
    let set = |i: usize| -> Step {
        if i == unset_idx {
            Step::Unset
        } else {
            Step::Set(i)
        }
    };
    let long = |rng: &mut Rng| Step::Sleep(1050 + rng.below(300));
    let short = |rng: &mut Rng| Step::Sleep(30 + rng.below(350));
    steps.push(conv(rng, false));
    let mut cur = initial;
    let mut seen = vec![initial];
    while longs < long_budget {
        match rng.below(9) {
            8 => {
                // a rule string and its colon twin (":R" is a file name, "R" is a rule), both directions
                let r = sources.iter().position(|s| s.value.as_deref() == Some("QQQ-9:11:23")).unwrap();
                let c = sources.iter().position(|s| s.value.as_deref() == Some(":QQQ-9:11:23")).unwrap();
                let (a, b) = if rng.chance(1, 2) { (r, c) } else { (c, r) };
                steps.push(set(a));
                steps.push(long(rng));
                steps.push(conv(rng, false));
                steps.push(set(b));
                steps.push(long(rng));
                steps.push(conv(rng, false));
                longs += 2;
                cur = b;
            }
            7 => {
                // polling: convert, change, then keep converting with every gap well under a second
                // for more than a second - the conversions made >= 1 s after the change must be current
                // (a refresh window that slides with every call would never notice the change)
                let nxt = *rng.pick(&valid);
                steps.push(conv(rng, false));
                steps.push(set(nxt));
                let k = 5 + rng.below(3);
                for _ in 0..k {
                    steps.push(Step::Sleep(230 + rng.below(120)));
                    steps.push(conv(rng, false));
                }
                longs += 2;
                cur = nxt;
            }
            0 => {
                // convert just before the change, then a long wait: must be current afterwards
                let nxt = *rng.pick(&valid);
                steps.push(conv(rng, false));
                steps.push(set(nxt));
                steps.push(long(rng));
                longs += 1;
                steps.push(conv(rng, false));
                cur = nxt;
            }
            1 => {
                // change, short wait (either admissible), long wait, must be current
                let nxt = rng.below(n_src as u64) as usize;
                steps.push(set(nxt));
                steps.push(short(rng));
                steps.push(conv(rng, false));
                steps.push(long(rng));
                longs += 1;
                steps.push(conv(rng, false));
                cur = nxt;
            }
            2 => {
                // back to an earlier value (A -> B -> A)
                let back = *rng.pick(&seen);
                let other = *rng.pick(&valid);
                steps.push(set(other));
                steps.push(long(rng));
                steps.push(conv(rng, false));
                steps.push(set(back));
                steps.push(long(rng));
                longs += 2;
                steps.push(conv(rng, false));
                cur = back;
            }
            3 => {
                // valid -> garbage -> valid
                let g = *rng.pick(&invalid);
                let v = *rng.pick(&valid);
                steps.push(set(g));
                steps.push(long(rng));
                steps.push(conv(rng, false));
                steps.push(set(v));
                steps.push(long(rng));
                longs += 2;
                steps.push(conv(rng, false));
                cur = v;
            }
            4 => {
                // fresh thread right after a change
                let nxt = rng.below(n_src as u64) as usize;
                steps.push(set(nxt));
                steps.push(conv(rng, true));
                steps.push(conv(rng, false));
                cur = nxt;
                if rng.chance(1, 2) {
                    steps.push(long(rng));
                    longs += 1;
                    steps.push(conv(rng, false));
                }
            }
            5 => {
                // env -> unset -> env
                steps.push(Step::Unset);
                steps.push(long(rng));
                steps.push(conv(rng, false));
                steps.push(conv(rng, true));
                let v = *rng.pick(&valid);
                steps.push(set(v));
                steps.push(long(rng));
                longs += 2;
                steps.push(conv(rng, false));
                cur = v;
            }
            _ => {
                steps.push(short(rng));
                let fresh = rng.chance(1, 3);
                steps.push(conv(rng, fresh));
            }
        }
        if !seen.contains(&cur) {
            seen.push(cur);
        }
    }
    History { id, etc, initial, steps }
}

fn wrap_command(etc: Etc, exe: &Path, child_args: &[String]) -> std::process::Command {
    match etc {
        Etc::Host => {
            let mut c = std::process::Command::new(exe);
            c.args(child_args);
            c
        }
        _ => {
            let setup = match etc {
                Etc::SymlinkTokyo => "ln -s /usr/share/zoneinfo/Asia/Tokyo /etc/localtime",
                Etc::FileNairobi => "cp /usr/share/zoneinfo/Africa/Nairobi /etc/localtime",
                _ => "true",
            };
            let script = format!("mount -t tmpfs -o size=1m tmpfs /etc && {} && exec \"$0\" \"$@\"", setup);
            let mut c = std::process::Command::new("unshare");
            c.arg("-m").arg("sh").arg("-c").arg(script).arg(exe);
            c.args(child_args);
            c
        }
    }
}

fn namespace_available() -> bool {
    std::process::Command::new("unshare")
        .args(["-m", "sh", "-c", "mount -t tmpfs -o size=1m tmpfs /etc && test ! -e /etc/localtime"])
        .output()
        .map(|o| o.status.success())
        .unwrap_or(false)
}

struct Ctxs<'a> {
    sources: &'a [Source],
    host_localtime: Option<ZoneModel>,
    host_named: Option<ZoneModel>,
    /// histories whose child process could not be run or did not finish its log (resource
    /// exhaustion on a loaded machine): skipped and counted; only many of them make the run inconclusive
    skipped: std::sync::atomic::AtomicUsize,
}

#[allow(clippy::too_many_arguments)]
fn run_history(loc: &mut Local, ctx: &Ctx, cx: &Ctxs, h: &History) {
    let sources = cx.sources;
    // spec
    let mut spec = String::new();
    for s in &h.steps {
        match s {
            Step::Set(i) => spec.push_str(&format!("SET {}\n", sources[*i].value.as_ref().unwrap())),
            Step::Unset => spec.push_str("UNSET\n"),
            Step::Sleep(ms) => spec.push_str(&format!("SLEEP {}\n", ms)),
            Step::Conv(k, v, fresh) => spec.push_str(&format!("{} {} {}\n", if *fresh { "TCONV" } else { "CONV" }, k, v)),
        }
    }
    let spec_path = ctx.work_dir.join(format!("hist-{}.spec", h.id));
    if std::fs::write(&spec_path, &spec).is_err() {
        loc.rep.harness_error("cannot write history spec");
        return;
    }
    let exe = match std::env::current_exe() {
        Ok(e) => e,
        Err(_) => return,
    };
    let mut cmd = wrap_command(h.etc, &exe, &["--child".into(), "c18h".into(), spec_path.display().to_string()]);
    // the child's working directory holds a valid TZif file under a relative name (see `sources`)
    cmd.current_dir(&ctx.work_dir);
    match &sources[h.initial].value {
        Some(v) => {
            cmd.env("TZ", v);
        }
        None => {
            cmd.env_remove("TZ");
        }
    }
    let out = match cmd.output().or_else(|_| {
        // one retry after a pause: spawning can fail transiently when the machine is out of processes
        std::thread::sleep(Duration::from_millis(500));
        cmd.output()
    }) {
        Ok(o) => o,
        Err(e) => {
            cx.skipped.fetch_add(1, std::sync::atomic::Ordering::Relaxed);
            loc.rep.note(format!("history {} skipped: spawn history child: {}", h.id, e));
            return;
        }
    };
    let _ = std::fs::remove_file(&spec_path);
    let text = String::from_utf8_lossy(&out.stdout);
    let lines: Vec<&str> = text.lines().collect();
    if lines.len() != h.steps.len() {
        cx.skipped.fetch_add(1, std::sync::atomic::Ordering::Relaxed);
        loc.rep.note(format!("history {} skipped: {} log lines for {} steps (status {:?}, stderr {})", h.id, lines.len(), h.steps.len(), out.status.code(), String::from_utf8_lossy(&out.stderr).chars().take(200).collect::<String>()));
        return;
    }
    // buckets for configuration
    loc.bucket(bi(match h.etc {
        Etc::Host => "no_namespace_host_etc",
        Etc::SymlinkTokyo => "etc_localtime_symlink",
        Etc::FileNairobi => "etc_localtime_regular_file",
        Etc::Absent => "etc_localtime_absent",
    }));
    // replay the log
    let model_of = |i: usize| resolve(&sources[i], h.etc, &cx.host_localtime, &cx.host_named);
    let mut state = h.initial; // source index in force
    let mut prev_valid_before_garbage: Option<bool> = None;
    // (state index, stamp_after) of main-thread conversions so far
    let mut main_convs: Vec<(usize, u128)> = Vec::new();
    let mut visited = vec![h.initial];
    let mut last_change_ta: Option<u128> = None;
    let mut events_json: Vec<serde_json::Value> = Vec::new();
    for (idx, (step, line)) in h.steps.iter().zip(lines.iter()).enumerate() {
        let mut it = line.splitn(4, ' ');
        let (_i, tb, ta, res) = (it.next(), it.next().and_then(|s| s.parse::<u128>().ok()).unwrap_or(0), it.next().and_then(|s| s.parse::<u128>().ok()).unwrap_or(0), it.next().unwrap_or(""));
        events_json.push(json!({"step": idx, "what": format!("{:?}", step), "t_before_ns": tb.to_string(), "t_after_ns": ta.to_string(), "result": res}));
        match step {
            Step::Set(_) | Step::Unset => {
                let nxt = match step {
                    Step::Set(i) => *i,
                    _ => sources.iter().position(|s| s.value.is_none()).unwrap(),
                };
                let (a, b) = (&sources[state], &sources[nxt]);
                match (a.value.is_some(), b.value.is_some()) {
                    (true, true) => loc.bucket(bi("change_env_to_env")),
                    (true, false) => loc.bucket(bi("change_env_to_unset")),
                    (false, true) => loc.bucket(bi("change_unset_to_env")),
                    _ => {}
                }
                if !b.valid {
                    prev_valid_before_garbage = Some(a.valid);
                } else if !a.valid && prev_valid_before_garbage == Some(true) {
                    loc.bucket(bi("change_valid_garbage_valid"));
                }
                if visited.contains(&nxt) && nxt != state {
                    loc.bucket(bi("change_back_to_earlier_value"));
                }
                visited.push(nxt);
                if nxt != state {
                    last_change_ta = Some(ta);
                }
                state = nxt;
            }
            Step::Sleep(_) => {}
            Step::Conv(kind, v, fresh) => {
                loc.eval();
                loc.bucket(bi(if *kind == "U" { "convert_utc_to_local" } else { "convert_local_to_utc" }));
                let s = &sources[state];
                loc.bucket(bi(match s.kind {
                    "abs" => "source_absolute_path",
                    "colon_abs" => "source_colon_absolute_path",
                    "name" => "source_zone_name",
                    "colon_name" => "source_colon_zone_name",
                    "rule" => "source_posix_rule",
                    "empty" => "source_empty",
                    "unreadable" => "source_unreadable_path",
                    "not_tzif" => "source_not_a_tzif_file",
                    "garbage" => "source_garbage_text",
                    _ => "source_unset",
                }));
                if !s.valid || (s.value.is_none() && h.etc == Etc::Absent) {
                    loc.bucket(bi(if h.etc == Etc::SymlinkTokyo { "fallback_system_zone_named" } else { "fallback_final_utc" }));
                }
                let got = Ans::parse(res);
                // admissible states
                let mut adm: Vec<usize> = vec![state];
                if !*fresh {
                    for (st, ca) in &main_convs {
                        // a previous main-thread conversion that ended less than one second before this one began
                        if *ca + 1_000_000_000 > tb && !adm.contains(st) {
                            adm.push(*st);
                        }
                    }
                }
                let answers: Vec<(usize, Ans)> = adm.iter().map(|st| (*st, expected_answer(&model_of(*st), kind, *v))).collect();
                let current_answer = answers[0].1.clone();
                let must_be_current = answers.iter().all(|(_, a)| *a == current_answer);
                if *fresh {
                    loc.bucket(bi("convert_fresh_thread"));
                } else if must_be_current {
                    loc.bucket(bi("convert_must_be_current"));
                    // reached by polling: some earlier same-thread conversion is recent, yet the change is >= 1 s old
                    if adm.len() == 1 && main_convs.last().map(|(_, ca)| *ca + 1_000_000_000 > tb).unwrap_or(false) && last_change_ta.map(|t| t + 1_000_000_000 <= tb).unwrap_or(false) {
                        loc.bucket(bi("polling_more_than_1s_after_change"));
                    }
                } else {
                    loc.bucket(bi("convert_either_admissible"));
                }
                if !answers.iter().any(|(_, a)| *a == got) {
                    let route = if *fresh { "fresh-thread" } else if must_be_current { "same-thread-at-least-1s-after-change" } else { "same-thread-within-1s" };
                    let cls = if let Ans::Panic(_) = got {
                        "panic-or-inconsistent-entry-points".to_string()
                    } else {
                        // is it the answer of some *other* configured source (stale / wrong precedence) or of none (mixing)?
                        let all: Vec<Ans> = (0..sources.len()).map(|i| expected_answer(&model_of(i), kind, *v)).collect();
                        if all.contains(&got) {
                            format!("shows-another-source/{}-source-{}", if s.valid { "valid" } else { "invalid" }, s.kind)
                        } else {
                            format!("matches-no-configured-zone/{}-source-{}", if s.valid { "valid" } else { "invalid" }, s.kind)
                        }
                    };
                    loc.violation(
                        &format!("C18/{}/{}", route, cls),
                        json!({"history": h.id, "etc": format!("{:?}", h.etc), "step": idx, "tz_in_force": s.value, "query": [kind, v], "observed": got.print(),
                               "admissible": answers.iter().map(|(st, a)| json!({"tz": sources[*st].value, "answer": a.print()})).collect::<Vec<_>>(), "initial_tz": sources[h.initial].value, "log": events_json}),
                    );
                }
                if !*fresh {
                    main_convs.push((state, ta));
                }
                loc.nontrivial(h2(h.id as u64, h2(idx as u64, hstr(&spec))));
                loc.sample(|| json!({"history": h.id, "etc": format!("{:?}", h.etc), "steps": spec.lines().collect::<Vec<_>>(), "log_tail": events_json.iter().rev().take(3).collect::<Vec<_>>() }));
            }
        }
    }
}

fn run_stress(loc: &mut Local, ctx: &Ctx, cx: &Ctxs, id: usize, rng: &mut Rng) {
    let sources = cx.sources;
    let valid: Vec<usize> = (0..sources.len()).filter(|i| sources[*i].valid && sources[*i].value.as_ref().map(|v| !v.is_empty()).unwrap_or(false)).collect();
    let mut vals: Vec<usize> = Vec::new();
    while vals.len() < 5.min(valid.len()) {
        let v = *rng.pick(&valid);
        if !vals.contains(&v) {
            vals.push(v);
        }
    }
    let dwell = 380u64;
    let rounds = 2usize;
    let exe = match std::env::current_exe() {
        Ok(e) => e,
        Err(_) => return,
    };
    let mut args: Vec<String> = vec!["--child".into(), "c18s".into(), dwell.to_string(), rounds.to_string()];
    for v in &vals {
        args.push(sources[*v].value.clone().unwrap());
    }
    let mut cmd = wrap_command(Etc::Host, &exe, &args);
    cmd.env("TZ", sources[vals[0]].value.as_ref().unwrap());
    let Ok(out) = cmd.output() else { return };
    let _ = ctx;
    loc.bucket(bi("stress_run"));
    let text = String::from_utf8_lossy(&out.stdout);
    // set events: (seq, tb, ta); value of seq k = vals[k % len]
    let mut sets: Vec<(u128, u128, usize)> = Vec::new();
    let mut obs: Vec<(bool, u128, u128, Ans, &str)> = Vec::new();
    let mut fin: Option<Ans> = None;
    for l in text.lines() {
        let p: Vec<&str> = l.splitn(5, ' ').collect();
        match p.first() {
            Some(&"S") if p.len() >= 4 => {
                let k: usize = p[1].parse().unwrap_or(0);
                sets.push((p[2].parse().unwrap_or(0), p[3].parse().unwrap_or(0), vals[k % vals.len()]));
            }
            Some(&"O") if p.len() >= 5 => obs.push((p[1] == "fresh", p[2].parse().unwrap_or(0), p[3].parse().unwrap_or(0), Ans::parse(p[4]), p[1])),
            Some(&"F") if p.len() >= 4 => fin = Some(Ans::parse(&l[l.match_indices(' ').nth(2).map(|x| x.0 + 1).unwrap_or(0)..])),
            _ => {}
        }
    }
    sets.sort();
    let model_of = |i: usize| resolve(&sources[i], Etc::Host, &cx.host_localtime, &cx.host_named);
    // value possibly in force during [a, b]: every set whose write may have started before b and
    // which was not certainly overwritten before a; plus the initial value before the first set
    let in_force = |a: u128, b: u128| -> Vec<usize> {
        let mut v = Vec::new();
        for (i, (tb, _ta, val)) in sets.iter().enumerate() {
            let overwritten_before_a = sets.get(i + 1).map(|n| n.1 <= a).unwrap_or(false);
            if *tb <= b && !overwritten_before_a {
                v.push(*val);
            }
        }
        if sets.first().map(|s| s.1 > a).unwrap_or(true) {
            v.push(vals[0]);
        }
        v
    };
    for (fresh, a, b, ans, who) in &obs {
        loc.eval();
        // a looping thread may lag up to one second behind (its last check); a fresh thread not at all
        let lo = if *fresh { *a } else { a.saturating_sub(1_000_000_000) };
        let (kind, v) = if *fresh { ("L", L0) } else { ("U", U0) };
        let adm = in_force(lo, *b);
        let ok = adm.iter().any(|i| expected_answer(&model_of(*i), kind, v) == *ans);
        if !ok {
            loc.violation(
                &format!("C18/stress/{}-thread/shows-value-not-in-force-within-the-allowed-window", who),
                json!({"run": id, "observed": ans.print(), "window_ns": [lo.to_string(), b.to_string()], "admissible": adm.iter().map(|i| json!({"tz": sources[*i].value, "answer": expected_answer(&model_of(*i), kind, v).print()})).collect::<Vec<_>>(), "sets": sets.iter().map(|s| json!([s.0.to_string(), s.1.to_string(), sources[s.2].value])).collect::<Vec<_>>()}),
            );
        }
        loc.nontrivial(h2(id as u64, h2(*a as u64, *b as u64)));
    }
    if let (Some(f), Some(last)) = (fin, sets.last()) {
        loc.eval();
        if f != expected_answer(&model_of(last.2), "U", U0) {
            loc.violation("C18/stress/main-thread/final-value-not-shown-after-quiescence", json!({"run": id, "observed": f.print(), "final_tz": sources[last.2].value}));
        }
    }
}

pub fn run(ctx: &Ctx) -> Outcome {
    let rep = Report::new("C18", B, FLOOR);
    if let Err(e) = tz::self_test() {
        rep.harness_error(e);
        return rep.finish(ctx, "self-test failed", &[]);
    }
    if std::fs::create_dir_all(&ctx.work_dir).is_err() {
        rep.harness_error("cannot create work dir");
        return rep.finish(ctx, "setup failed", &[]);
    }
    let wd = &ctx.work_dir;
    let fa = fixed_zone_file(wd, "zone-a.tzif", 3 * 3600 + 7 * 60 + 11);
    let fb = fixed_zone_file(wd, "zone-b.tzif", -(7 * 3600 + 13 * 60 + 29));
    let fc = fixed_zone_file(wd, "zone-c.tzif", 11 * 3600 + 2 * 60 + 3);
    let _ = std::fs::create_dir_all(wd.join("vrf-rel"));
    if fixed_zone_file(&wd.join("vrf-rel"), "zone-d.tzif", -(2 * 3600 + 34 * 60 + 56)).is_none() {
        rep.harness_error("cannot write the relative zone file");
    }
    let not_tzif = wd.join("not-a-zone.txt");
    let _ = std::fs::write(&not_tzif, "this is a text file, not TZif data\n");
    // a TZif file far larger than any stock zoneinfo file (1000 transitions, > 5 KB, v1 only): it
    // must be read completely
    let big = {
        let (ta, tb) = (TzType { off: 4 * 3600 + 44 * 60 + 44, dst: false, name: "BGA".into() }, TzType { off: 5 * 3600 + 44 * 60 + 44, dst: true, name: "BGB".into() });
        let transitions: Vec<(i64, usize)> = (0..1000).map(|k| (-2_000_000_000 + k as i64 * 2_600_000, (k + 1) % 2)).collect();
        let m = ZoneModel { transitions, types: vec![ta, tb], leaps: vec![], rule: None };
        let b = tz::write_tzif(&m, &WriteOpts { version: 1, indicators: false, full_v1: true, footer_override: None });
        let p = wd.join("zone-big.tzif");
        if b.len() <= 4096 || std::fs::write(&p, b).is_err() {
            rep.harness_error("cannot write the large zone file");
        }
        p
    };
    let (Some(fa), Some(fb), Some(fc)) = (fa, fb, fc) else {
        rep.harness_error("cannot write zone files");
        return rep.finish(ctx, "setup failed", &[]);
    };
    let sources: Vec<Source> = vec![
        Source { kind: "abs", value: Some(fa.display().to_string()), valid: true },
        Source { kind: "colon_abs", value: Some(format!(":{}", fb.display())), valid: true },
        Source { kind: "abs", value: Some(fc.display().to_string()), valid: true },
        Source { kind: "abs", value: Some(big.display().to_string()), valid: true },
        Source { kind: "name", value: Some("Asia/Kathmandu".into()), valid: true },
        Source { kind: "colon_name", value: Some(":America/St_Johns".into()), valid: true },
        Source { kind: "colon_name", value: Some(":Pacific/Chatham".into()), valid: true },
        Source { kind: "rule", value: Some("QQQ-9:11:23".into()), valid: true },
        Source { kind: "rule", value: Some("AAA4:20BBB,M3.2.0,M11.1.0".into()), valid: true },
        Source { kind: "empty", value: Some(String::new()), valid: true },
        Source { kind: "unreadable", value: Some("/nonexistent/dir/zone".into()), valid: false },
        Source { kind: "unreadable", value: Some(":Nowhere/Land".into()), valid: false },
        // the colon form of a rule string names a (non-existent) file: same text, different meaning
        Source { kind: "unreadable", value: Some(":QQQ-9:11:23".into()), valid: false },
        // a relative name that is in none of the zoneinfo directories but *does* exist below the
        // child's working directory as a valid TZif file: relative names are relative to the zoneinfo
        // directories only, so this cannot be read and the fallback applies
        Source { kind: "unreadable", value: Some("vrf-rel/zone-d.tzif".into()), valid: false },
        Source { kind: "unreadable", value: Some(":vrf-rel/zone-d.tzif".into()), valid: false },
        Source { kind: "not_tzif", value: Some(not_tzif.display().to_string()), valid: false },
        Source { kind: "garbage", value: Some("this is not a timezone!!".into()), valid: false },
        Source { kind: "garbage", value: Some("EST5EDT,M13.1.0,M11.1.0".into()), valid: false },
        Source { kind: "unset", value: None, valid: true },
    ];
    // the host's own /etc (no namespace)
    let host_localtime = model_of_file("/etc/localtime");
    let host_named = std::fs::read_link("/etc/localtime")
        .ok()
        .and_then(|p| p.to_str().map(|s| s.to_string()))
        .and_then(|s| ["/usr/share/zoneinfo/", "../usr/share/zoneinfo/", "/etc/zoneinfo/", "../etc/zoneinfo/"].iter().find_map(|pre| s.strip_prefix(pre).map(|x| x.to_string())))
        .or_else(|| std::fs::read_to_string("/etc/timezone").ok().map(|s| s.trim_end().to_string()))
        .and_then(|name| model_of_file(&format!("/usr/share/zoneinfo/{}", name)));
    let cx = Ctxs { sources: &sources, host_localtime, host_named, skipped: std::sync::atomic::AtomicUsize::new(0) };
    // oracle sanity: all valid sources have pairwise distinct answers at U0 (so staleness is visible)
    {
        let mut seen: Vec<(i32, String)> = Vec::new();
        for s in sources.iter().filter(|s| s.valid && s.value.is_some()) {
            let o = resolve(s, Etc::SymlinkTokyo, &None, &None).offset_at(U0);
            if let Some((_, other)) = seen.iter().find(|(x, _)| *x == o) {
                rep.harness_error(format!("sources {:?} and {} are indistinguishable at U0", s.value, other));
            }
            seen.push((o, format!("{:?}", s.value)));
        }
    }
    let ns = namespace_available();
    rep.set_extra("mount_namespace_available", json!(ns));
    let n_hist = ctx.n(48, 600) as usize;
    let long_budget = 4usize;
    let mut hists: Vec<History> = Vec::new();
    for id in 0..n_hist {
        let mut rng = Rng::new(ctx.seed, "C18/history", id as u64);
        let etc = if ns {
            match id % 4 {
                0 => Etc::SymlinkTokyo,
                1 => Etc::FileNairobi,
                2 => Etc::Absent,
                _ => Etc::Host,
            }
        } else {
            Etc::Host
        };
        hists.push(gen_history(&mut rng, id, etc, &sources, long_budget));
    }
    let width = ctx.tier.pick(48usize, 64usize);
    let hists = &hists;
    par_shards(&rep, width, hists.len(), |i| {
        let mut loc = rep.local();
        run_history(&mut loc, ctx, &cx, &hists[i]);
    });
    let skipped = cx.skipped.load(std::sync::atomic::Ordering::Relaxed);
    rep.set_extra("histories", json!({"generated": hists.len(), "skipped_child_did_not_run": skipped}));
    if skipped * 4 > hists.len() {
        rep.harness_error(format!("{} of {} history children did not run to completion", skipped, hists.len()));
    }
    if ctx.tier == Tier::Thorough {
        let n_stress = ctx.n(0, 24) as usize;
        par_shards(&rep, 8, n_stress, |i| {
            let mut loc = rep.local();
            let mut rng = Rng::new(ctx.seed, "C18/stress", i as u64);
            run_stress(&mut loc, ctx, &cx, i, &mut rng);
        });
    }
    rep.finish(
        ctx,
        "generated histories of 10-30 steps over one main thread (set TZ to absolute path / :absolute path / zone name / :zone name / POSIX rule / empty / unreadable path / non-TZif file / garbage; unset; sleep 30-380 ms or 1.05-1.35 s; convert UTC->local or local->UTC on the main thread or on a fresh thread), each in its own child process, 3 of 4 inside a private mount namespace with /etc/localtime as symlink (named system zone), regular file, or absent. The parent checks each conversion against the answers of the admissible states computed from measured stamps: the state in force, plus states in force at earlier same-thread conversions that ended less than 1 s before this one began. Thorough adds stress runs (TZ rotating through 5 values while a looping thread and fresh threads convert). Non-trivial: every conversion; distinct = distinct (history, step)",
        &["R-tz oracle resolves each TZ value by the documented precedence", "chrono reads the clock between the stamps taken before and after each step, so measured gaps bound chrono's own elapsed time from below", "all configured sources have pairwise distinct offsets at the query instant (checked at start)"],
    )
}
