//! C09 — default text forms parse back to the same value.
//!
//! Oracle: identity. For T in {NaiveDate, NaiveTime, NaiveDateTime, DateTime<Utc>,
//! DateTime<FixedOffset> (whole-minute offsets), FixedOffset (whole-minute), Weekday, Month} the
//! value is built from reference integers (R-cal day number, second of day, fraction, offset
//! seconds), printed with `Display` and with `Debug`, every *distinct* printed form is handed to
//! `str::parse::<T>()`, and the result is compared field by field with the reference integers.
//! A shape monitor (an independent scanner of the printed text, no chrono code) asserts the three
//! statements the property makes about the text: the fraction has the fewest of 0/3/6/9 digits that
//! lose nothing, the year carries an explicit sign exactly when it is outside 0..=9999, and the
//! seconds field reads 60 exactly for a leap-second representation. Nothing else about the text
//! is asserted (field widths, separators, the offset notation are only constrained through the
//! round trip).
//!
//! Leap-second representations are generated on second 59 only (as the property says); offsets are
//! whole minutes only. `Month` has no `Display`, its default printed form is the derived `Debug`.

use crate::gen;
use crate::mon::{guard, h2, par_shards, Ctx, Local, Outcome, Report, Tier};
use crate::refcal as rc;
use crate::refinst::{self as ri, RDt};
use crate::rng::Rng;
use chrono::{DateTime, Datelike, FixedOffset, Month, NaiveDate, NaiveDateTime, NaiveTime, TimeZone, Timelike, Utc, Weekday};
use serde_json::{json, Value};
use std::fmt::Write as _;
use std::str::FromStr;
use std::sync::atomic::{AtomicU64, Ordering};

const B: &[&str] = &[
    // NaiveDate
    "date_year_0_9999", "date_year_below_1000", "date_year_negative", "date_year_above_9999", "date_year_6_digits", "date_year_0",
    "date_year_minus_1", "date_year_9999", "date_year_10000", "date_range_min", "date_range_max", "date_random",
    "date_debug_differs_from_display_optional",
    // NaiveTime
    "time_frac_0_digits", "time_frac_3_digits", "time_frac_6_digits", "time_frac_9_digits", "time_leap_on_59", "time_leap_whole_second",
    "time_every_second_of_day", "time_random_fraction",
    // NaiveDateTime
    "ndt_debug", "ndt_display", "ndt_leap", "ndt_signed_year", "ndt_range_end", "ndt_fraction",
    // DateTime<Utc>
    "utc_debug", "utc_display", "utc_leap", "utc_signed_year", "utc_range_end", "utc_fraction",
    // DateTime<FixedOffset>
    "fo_debug", "fo_display", "fo_offset_negative", "fo_offset_zero", "fo_offset_positive", "fo_offset_extreme", "fo_wall_date_differs",
    "fo_wall_year_sign_status_differs", "fo_wall_headroom_low", "fo_wall_headroom_high", "fo_leap", "fo_fraction", "fo_signed_year",
    // FixedOffset
    "offset_negative", "offset_zero", "offset_positive", "offset_extreme",
    // names
    "weekday_display", "weekday_debug", "month_debug",
    "random_products", "local_zone_round_trip",
];

fn bi(n: &str) -> usize {
    B.iter().position(|x| *x == n).unwrap_or_else(|| panic!("C09: unknown bucket {}", n))
}

struct Ix {
    d_in: usize, d_lt1000: usize, d_neg: usize, d_big: usize, d_6: usize, d_0: usize, d_m1: usize, d_9999: usize, d_10000: usize,
    d_min: usize, d_max: usize, d_rand: usize, d_dbg_differs: usize,
    t_f0: usize, t_f3: usize, t_f6: usize, t_f9: usize, t_leap: usize, t_leap0: usize, t_every: usize, t_rand: usize,
    n_dbg: usize, n_disp: usize, n_leap: usize, n_sign: usize, n_end: usize, n_frac: usize,
    u_dbg: usize, u_disp: usize, u_leap: usize, u_sign: usize, u_end: usize, u_frac: usize,
    f_dbg: usize, f_disp: usize, f_neg: usize, f_zero: usize, f_pos: usize, f_ext: usize, f_date: usize, f_signst: usize, f_hlo: usize,
    f_hhi: usize, f_leap: usize, f_frac: usize, f_sign: usize,
    o_neg: usize, o_zero: usize, o_pos: usize, o_ext: usize,
    w_disp: usize, w_dbg: usize, m_dbg: usize, rand_prod: usize,
}

fn ix() -> Ix {
    Ix {
        d_in: bi("date_year_0_9999"), d_lt1000: bi("date_year_below_1000"), d_neg: bi("date_year_negative"), d_big: bi("date_year_above_9999"),
        d_6: bi("date_year_6_digits"), d_0: bi("date_year_0"), d_m1: bi("date_year_minus_1"), d_9999: bi("date_year_9999"),
        d_10000: bi("date_year_10000"), d_min: bi("date_range_min"), d_max: bi("date_range_max"), d_rand: bi("date_random"),
        d_dbg_differs: bi("date_debug_differs_from_display_optional"),
        t_f0: bi("time_frac_0_digits"), t_f3: bi("time_frac_3_digits"), t_f6: bi("time_frac_6_digits"), t_f9: bi("time_frac_9_digits"),
        t_leap: bi("time_leap_on_59"), t_leap0: bi("time_leap_whole_second"), t_every: bi("time_every_second_of_day"), t_rand: bi("time_random_fraction"),
        n_dbg: bi("ndt_debug"), n_disp: bi("ndt_display"), n_leap: bi("ndt_leap"), n_sign: bi("ndt_signed_year"), n_end: bi("ndt_range_end"), n_frac: bi("ndt_fraction"),
        u_dbg: bi("utc_debug"), u_disp: bi("utc_display"), u_leap: bi("utc_leap"), u_sign: bi("utc_signed_year"), u_end: bi("utc_range_end"), u_frac: bi("utc_fraction"),
        f_dbg: bi("fo_debug"), f_disp: bi("fo_display"), f_neg: bi("fo_offset_negative"), f_zero: bi("fo_offset_zero"), f_pos: bi("fo_offset_positive"),
        f_ext: bi("fo_offset_extreme"), f_date: bi("fo_wall_date_differs"), f_signst: bi("fo_wall_year_sign_status_differs"),
        f_hlo: bi("fo_wall_headroom_low"), f_hhi: bi("fo_wall_headroom_high"), f_leap: bi("fo_leap"), f_frac: bi("fo_fraction"), f_sign: bi("fo_signed_year"),
        o_neg: bi("offset_negative"), o_zero: bi("offset_zero"), o_pos: bi("offset_positive"), o_ext: bi("offset_extreme"),
        w_disp: bi("weekday_display"), w_dbg: bi("weekday_debug"), m_dbg: bi("month_debug"), rand_prod: bi("random_products"),
    }
}

// ------------------------------------------------------------------------------------------------
// Shape monitor: an independent scanner of the printed text
// ------------------------------------------------------------------------------------------------

fn take_digits(s: &str) -> (&str, &str) {
    let n = s.bytes().take_while(|b| b.is_ascii_digit()).count();
    s.split_at(n)
}

/// `[+|-] DIGITS - DIGITS - DIGITS` → (sign, year digits, rest after the day digits)
fn scan_date(s: &str) -> Option<(Option<char>, &str, &str)> {
    let (sign, r) = match s.chars().next()? {
        c @ ('+' | '-') => (Some(c), &s[1..]),
        _ => (None, s),
    };
    let (y, r) = take_digits(r);
    if y.is_empty() {
        return None;
    }
    let r = r.strip_prefix('-')?;
    let (m, r) = take_digits(r);
    if m.is_empty() {
        return None;
    }
    let r = r.strip_prefix('-')?;
    let (d, r) = take_digits(r);
    if d.is_empty() {
        return None;
    }
    Some((sign, y, r))
}

/// `DIGITS : DIGITS : DIGITS [. DIGITS]` → (seconds digits, fraction digits (without the dot), rest)
fn scan_time(s: &str) -> Option<(&str, Option<&str>, &str)> {
    let (h, r) = take_digits(s);
    if h.is_empty() {
        return None;
    }
    let r = r.strip_prefix(':')?;
    let (m, r) = take_digits(r);
    if m.is_empty() {
        return None;
    }
    let r = r.strip_prefix(':')?;
    let (sec, r) = take_digits(r);
    if sec.is_empty() {
        return None;
    }
    match r.strip_prefix('.') {
        Some(r2) => {
            let (f, r3) = take_digits(r2);
            Some((sec, Some(f), r3))
        }
        None => Some((sec, None, r)),
    }
}

/// The fewest of 0, 3, 6, 9 fractional digits that lose nothing of `nano` (0 ≤ nano < 10^9).
fn lossless_digits(nano: i64) -> usize {
    if nano == 0 {
        0
    } else if nano % 1_000_000 == 0 {
        3
    } else if nano % 1_000 == 0 {
        6
    } else {
        9
    }
}

struct Who<'a> {
    tname: &'a str,
    form: &'a str,
}

/// "an explicit sign exactly for years outside 0-9999"
fn shape_year(loc: &mut Local, w: &Who, text: &str, sign: Option<char>, year: i64, val: &dyn Fn() -> Value) {
    let outside = !(0..=9999).contains(&year);
    if outside != sign.is_some() {
        let kind = if outside { "year-sign-missing" } else { "year-sign-unexpected" };
        loc.violation(
            &format!("C09/{}/{}/shape/{}/{}", w.tname, w.form, kind, ycls(year)),
            json!({"type": w.tname, "form": w.form, "value": val(), "text": text, "year": year,
                   "expected": "an explicit sign exactly for years outside 0..=9999", "observed_sign": sign.map(|c| c.to_string())}),
        );
    }
}

/// "the fewest of 0, 3, 6 or 9 fractional digits that lose nothing ... and second 60 for a leap second"
fn shape_time(loc: &mut Local, w: &Who, text: &str, sec: &str, frac: Option<&str>, leap: bool, nano: i64, val: &dyn Fn() -> Value) {
    let is60 = sec.trim_start_matches('0') == "60";
    if is60 != leap {
        let kind = if leap { "leap-second-not-printed-as-60" } else { "second-60-without-leap-second" };
        loc.violation(
            &format!("C09/{}/{}/shape/{}", w.tname, w.form, kind),
            json!({"type": w.tname, "form": w.form, "value": val(), "text": text, "seconds_field": sec, "leap_second_representation": leap}),
        );
    }
    let exp = lossless_digits(nano);
    let got = frac.map(|f| f.len()).unwrap_or(0);
    // a dot without digits counts as a malformed fraction
    let malformed = frac == Some("");
    if got != exp || malformed {
        loc.violation(
            &format!("C09/{}/{}/shape/fraction-not-the-fewest-lossless-of-0-3-6-9-digits/expected-{}-digits", w.tname, w.form, exp),
            json!({"type": w.tname, "form": w.form, "value": val(), "text": text, "nanosecond": nano, "expected_digits": exp, "observed_digits": got}),
        );
    } else if let Some(f) = frac {
        // exp ∈ {3,6,9} here: the digits must denote exactly `nano`
        let mut v: i64 = 0;
        for b in f.bytes() {
            v = v * 10 + (b - b'0') as i64;
        }
        for _ in got..9 {
            v *= 10;
        }
        if v != nano {
            loc.violation(
                &format!("C09/{}/{}/shape/fraction-digits-lose-or-change-the-value", w.tname, w.form),
                json!({"type": w.tname, "form": w.form, "value": val(), "text": text, "nanosecond": nano, "fraction_digits": f}),
            );
        }
    }
}

fn shape_unscannable(loc: &mut Local, w: &Who, text: &str, what: &str, val: &dyn Fn() -> Value) {
    loc.violation(
        &format!("C09/{}/{}/shape/no-{}-found-in-text", w.tname, w.form, what),
        json!({"type": w.tname, "form": w.form, "value": val(), "text": text,
               "expected": "text of the form [sign]Y-M-D / H:M:S[.fraction] so that the year sign, seconds field and fraction can be located"}),
    );
}

fn ycls(y: i64) -> &'static str {
    if y < 0 {
        "year-negative"
    } else if y > 9999 {
        "year-above-9999"
    } else {
        "year-0-9999"
    }
}

fn self_test() -> Result<(), String> {
    let chk = |c: bool, s: &str| if c { Ok(()) } else { Err(format!("C09 scanner self-test failed: {}", s)) };
    chk(scan_date("2015-09-05") == Some((None, "2015", "")), "2015-09-05")?;
    chk(scan_date("-0001-01-01") == Some((Some('-'), "0001", "")), "-0001-01-01")?;
    chk(scan_date("+10000-12-31T") == Some((Some('+'), "10000", "T")), "+10000-12-31T")?;
    chk(scan_date("2015-0905").is_none() && scan_date("--1-1").is_none() && scan_date("").is_none(), "bad dates")?;
    chk(scan_time("23:56:04") == Some(("04", None, "")), "23:56:04")?;
    chk(scan_time("23:56:04.001234Z") == Some(("04", Some("001234"), "Z")), "23:56:04.001234Z")?;
    chk(scan_time("06:59:60.500 UTC") == Some(("60", Some("500"), " UTC")), "06:59:60.500 UTC")?;
    chk(scan_time("06:59").is_none() && scan_time("065960").is_none(), "bad times")?;
    chk(lossless_digits(0) == 0 && lossless_digits(500_000_000) == 3 && lossless_digits(1_000_000) == 3, "digits 0/3")?;
    chk(lossless_digits(999_000) == 6 && lossless_digits(1_000) == 6 && lossless_digits(1_001_000) == 6, "digits 6")?;
    chk(lossless_digits(1) == 9 && lossless_digits(999_999_999) == 9 && lossless_digits(1_000_001) == 9, "digits 9")?;
    // rustdoc example "2015-06-30T23:59:60.500"
    let (sg, y, r) = scan_date("2015-06-30T23:59:60.500").ok_or("scan")?;
    chk(sg.is_none() && y == "2015" && r.starts_with('T'), "ndt date part")?;
    chk(scan_time(&r[1..]) == Some(("60", Some("500"), "")), "ndt time part")?;
    Ok(())
}

// ------------------------------------------------------------------------------------------------
// Printing and parsing under the panic monitor
// ------------------------------------------------------------------------------------------------

trait KindName {
    fn kind_name(&self) -> String;
}
impl KindName for chrono::ParseError {
    fn kind_name(&self) -> String {
        format!("{:?}", self.kind())
    }
}
impl KindName for chrono::ParseWeekdayError {
    fn kind_name(&self) -> String {
        "ParseWeekdayError".into()
    }
}
impl KindName for chrono::ParseMonthError {
    fn kind_name(&self) -> String {
        "ParseMonthError".into()
    }
}

/// Print `v` with `{}` (display = true) or `{:?}` into `buf`. A panic or a formatter error is a
/// violation (printing a representable value must succeed). Returns false if no text was made.
fn print_into<T: std::fmt::Display + std::fmt::Debug>(loc: &mut Local, w: &Who, buf: &mut String, v: &T, display: bool, val: &dyn Fn() -> Value) -> bool {
    buf.clear();
    let r = guard(|| if display { write!(buf, "{}", v) } else { write!(buf, "{:?}", v) });
    match r {
        Ok(Ok(())) => true,
        Ok(Err(_)) => {
            loc.violation(&format!("C09/{}/{}/print/fmt-error", w.tname, w.form), json!({"type": w.tname, "form": w.form, "value": val()}));
            false
        }
        Err(p) => {
            loc.violation(
                &format!("C09/{}/{}/print/panic@{}", w.tname, w.form, p.site()),
                json!({"type": w.tname, "form": w.form, "value": val(), "panic": p.to_json()}),
            );
            false
        }
    }
}

#[derive(PartialEq, Eq, Clone, Copy, Debug)]
enum Rt {
    Same,
    ParseErr,
    Wrong,
    Panic,
}

/// `text.parse::<T>()` must be `Ok(v)` with `differs(&v) == None`. `class` is the input class
/// that goes into the signature; `reclass` may refine the class of a parse *error* (it runs only
/// then).
#[allow(clippy::too_many_arguments)]
fn round_trip<T>(
    loc: &mut Local,
    w: &Who,
    text: &str,
    class: &str,
    differs: impl FnOnce(&T) -> Option<Value>,
    val: &dyn Fn() -> Value,
    reclass: impl FnOnce() -> Option<&'static str>,
) -> Rt
where
    T: FromStr,
    T::Err: KindName,
{
    loc.eval();
    let r = guard(|| match text.parse::<T>() {
        Ok(v) => Ok(differs(&v)),
        Err(e) => Err(e.kind_name()),
    });
    match r {
        Ok(Ok(None)) => Rt::Same,
        Ok(Ok(Some(obs))) => {
            loc.violation(
                &format!("C09/{}/{}/parse/wrong-value/{}", w.tname, w.form, class),
                json!({"type": w.tname, "form": w.form, "value": val(), "text": text, "expected": "Ok(the original value)", "observed": obs}),
            );
            Rt::Wrong
        }
        Ok(Err(kind)) => {
            let c = reclass().unwrap_or(class);
            loc.violation(
                &format!("C09/{}/{}/parse/error-{}/{}", w.tname, w.form, kind, c),
                json!({"type": w.tname, "form": w.form, "value": val(), "text": text, "expected": "Ok(the original value)", "observed": format!("Err({})", kind)}),
            );
            Rt::ParseErr
        }
        Err(p) => {
            loc.violation(
                &format!("C09/{}/{}/parse/panic@{}", w.tname, w.form, p.site()),
                json!({"type": w.tname, "form": w.form, "value": val(), "text": text, "panic": p.to_json()}),
            );
            Rt::Panic
        }
    }
}

/// Reusable text buffers of one worker
struct Bufs {
    a: String,
    b: String,
}

impl Bufs {
    fn new() -> Bufs {
        Bufs { a: String::with_capacity(64), b: String::with_capacity(64) }
    }
}

// ------------------------------------------------------------------------------------------------
// Cases
// ------------------------------------------------------------------------------------------------

struct Env<'a> {
    rep: &'a Report,
    x: Ix,
    unbuildable: AtomicU64,
}

impl Env<'_> {
    /// A reference value chrono refuses to construct cannot be evaluated here (that is C01/C02/C04's
    /// business); the run is then inconclusive rather than silently smaller.
    fn unbuildable(&self, what: &str) {
        if self.unbuildable.fetch_add(1, Ordering::Relaxed) < 5 {
            self.rep.harness_error(format!("C09: could not construct the reference value through chrono: {}", what));
        }
    }
}

fn case_date(env: &Env, loc: &mut Local, bufs: &mut Bufs, n: i64, y: i64, m: i64, dd: i64, walk: bool) {
    let x = &env.x;
    let Some(d) = guard(|| NaiveDate::from_num_days_from_ce_opt(n as i32)).ok().flatten() else {
        env.unbuildable(&format!("NaiveDate day number {}", n));
        return;
    };
    let val = || json!({"ymd": [y, m, dd], "day_number": n});
    let val: &dyn Fn() -> Value = &val;
    let differs = |p: &NaiveDate| {
        if *p == d && p.num_days_from_ce() as i64 == n {
            None
        } else {
            Some(json!({"parsed_day_number": p.num_days_from_ce(), "parsed_ymd": [p.year() as i64, p.month() as i64, p.day() as i64]}))
        }
    };
    let wd = Who { tname: "NaiveDate", form: "Display" };
    if print_into(loc, &wd, &mut bufs.a, &d, true, val) {
        match scan_date(&bufs.a) {
            Some((sign, _, _)) => shape_year(loc, &wd, &bufs.a, sign, y, val),
            None => shape_unscannable(loc, &wd, &bufs.a, "date", val),
        }
        round_trip::<NaiveDate>(loc, &wd, &bufs.a, ycls(y), differs, val, || None);
    }
    let wg = Who { tname: "NaiveDate", form: "Debug" };
    if print_into(loc, &wg, &mut bufs.b, &d, false, val) && bufs.b != bufs.a {
        loc.bucket(x.d_dbg_differs);
        match scan_date(&bufs.b) {
            Some((sign, _, _)) => shape_year(loc, &wg, &bufs.b, sign, y, val),
            None => shape_unscannable(loc, &wg, &bufs.b, "date", val),
        }
        round_trip::<NaiveDate>(loc, &wg, &bufs.b, ycls(y), differs, val, || None);
    }
    // buckets
    let first_or_last = (m == 1 && dd == 1) || (m == 12 && dd == 31);
    if (0..=9999).contains(&y) {
        loc.bucket(x.d_in);
        if y < 1000 {
            loc.bucket(x.d_lt1000)
        }
    } else if y < 0 {
        loc.bucket(x.d_neg)
    } else {
        loc.bucket(x.d_big)
    }
    if y.abs() >= 100_000 {
        loc.bucket(x.d_6)
    }
    match y {
        0 => loc.bucket(x.d_0),
        -1 => loc.bucket(x.d_m1),
        9999 => loc.bucket(x.d_9999),
        10000 => loc.bucket(x.d_10000),
        _ => {}
    }
    if n == rc::min_day() {
        loc.bucket(x.d_min)
    }
    if n == rc::max_day() {
        loc.bucket(x.d_max)
    }
    if !(1000..=9999).contains(&y) || first_or_last {
        loc.nontrivial(h2(1, n as u64));
    }
    if walk && (n == rc::min_day() || n == rc::max_day() || n == -365) {
        loc.sample(|| json!({"type": "NaiveDate", "day_number": n, "text": bufs.a.clone(), "parsed_back": "same"}));
    }
}

/// `secs` second of day, `frac` < 2·10^9 (≥ 10^9 only with secs % 60 == 59)
fn case_time(env: &Env, loc: &mut Local, bufs: &mut Bufs, secs: i64, frac: i64) {
    let x = &env.x;
    let Some(t) = guard(|| NaiveTime::from_num_seconds_from_midnight_opt(secs as u32, frac as u32)).ok().flatten() else {
        env.unbuildable(&format!("NaiveTime secs {} frac {}", secs, frac));
        return;
    };
    let leap = frac >= 1_000_000_000;
    let nano = frac % 1_000_000_000;
    let val = || json!({"second_of_day": secs, "hms": [secs / 3600, secs / 60 % 60, secs % 60], "frac": frac, "leap_second_representation": leap});
    let val: &dyn Fn() -> Value = &val;
    let differs = |p: &NaiveTime| {
        if *p == t && p.num_seconds_from_midnight() as i64 == secs && p.nanosecond() as i64 == frac {
            None
        } else {
            Some(json!({"parsed_second_of_day": p.num_seconds_from_midnight(), "parsed_frac": p.nanosecond()}))
        }
    };
    let class = if leap { "leap-second" } else { "no-leap-second" };
    let wd = Who { tname: "NaiveTime", form: "Display" };
    if print_into(loc, &wd, &mut bufs.a, &t, true, val) {
        match scan_time(&bufs.a) {
            Some((sec, fr, _)) => shape_time(loc, &wd, &bufs.a, sec, fr, leap, nano, val),
            None => shape_unscannable(loc, &wd, &bufs.a, "time", val),
        }
        round_trip::<NaiveTime>(loc, &wd, &bufs.a, class, differs, val, || None);
    }
    let wg = Who { tname: "NaiveTime", form: "Debug" };
    if print_into(loc, &wg, &mut bufs.b, &t, false, val) && bufs.b != bufs.a {
        match scan_time(&bufs.b) {
            Some((sec, fr, _)) => shape_time(loc, &wg, &bufs.b, sec, fr, leap, nano, val),
            None => shape_unscannable(loc, &wg, &bufs.b, "time", val),
        }
        round_trip::<NaiveTime>(loc, &wg, &bufs.b, class, differs, val, || None);
    }
    loc.bucket(match lossless_digits(nano) {
        0 => x.t_f0,
        3 => x.t_f3,
        6 => x.t_f6,
        _ => x.t_f9,
    });
    if leap {
        loc.bucket(x.t_leap);
        if nano == 0 {
            loc.bucket(x.t_leap0)
        }
    }
    if frac != 0 {
        loc.nontrivial(h2(2, h2(secs as u64, frac as u64)));
    }
    if secs == 25_199 && (frac == 1_500_000_000 || frac == 1_000) {
        loc.sample(|| json!({"type": "NaiveTime", "second_of_day": secs, "frac": frac, "text": bufs.a.clone(), "parsed_back": "same"}));
    }
}

fn rdt_json(r: &RDt) -> Value {
    let (y, m, d) = r.ymd();
    let (hh, mm, ss) = r.hms();
    json!({"ymd": [y, m, d], "hms": [hh, mm, ss], "frac": r.frac, "day_number": r.day, "second_of_day": r.secs})
}

fn rdt_diff(got: &RDt, exp: &RDt) -> Option<Value> {
    if got == exp {
        None
    } else {
        Some(json!({"parsed": rdt_json(got)}))
    }
}

/// NaiveDateTime and DateTime<Utc> of the same reference value, Debug and Display each.
fn case_naive_and_utc(env: &Env, loc: &mut Local, bufs: &mut Bufs, r: RDt) {
    let x = &env.x;
    let Some(ndt) = guard(|| r.to_chrono()).ok().flatten() else {
        env.unbuildable(&format!("NaiveDateTime {:?}", r));
        return;
    };
    let (y, _, _) = r.ymd();
    let leap = r.is_leap();
    let nano = r.frac % 1_000_000_000;
    let at_end = r.day == rc::min_day() || r.day == rc::max_day();
    let val = || rdt_json(&r);
    let val: &dyn Fn() -> Value = &val;

    // ---- NaiveDateTime
    let differs = |p: &NaiveDateTime| if *p == ndt { rdt_diff(&RDt::of(p), &r) } else { Some(json!({"parsed": rdt_json(&RDt::of(p))})) };
    for display in [false, true] {
        let w = Who { tname: "NaiveDateTime", form: if display { "Display" } else { "Debug" } };
        let buf = if display { &mut bufs.b } else { &mut bufs.a };
        if !print_into(loc, &w, buf, &ndt, display, val) {
            continue;
        }
        if display && bufs.a == bufs.b {
            continue;
        }
        let text: &str = if display { &bufs.b } else { &bufs.a };
        loc.bucket(if display { x.n_disp } else { x.n_dbg });
        let mut sep_at = None;
        match scan_date(text) {
            Some((sign, _, rest)) => {
                shape_year(loc, &w, text, sign, y, val);
                sep_at = Some(text.len() - rest.len());
                let mut it = rest.chars();
                match it.next().and_then(|_| scan_time(it.as_str())) {
                    Some((sec, fr, _)) => shape_time(loc, &w, text, sec, fr, leap, nano, val),
                    None => shape_unscannable(loc, &w, text, "time", val),
                }
            }
            None => shape_unscannable(loc, &w, text, "date", val),
        }
        // D1 diagnosis: is the text rejected *only* because of the space between date and time?
        let reclass = || -> Option<&'static str> {
            let at = sep_at?;
            if text.as_bytes().get(at) != Some(&b' ') {
                return None;
            }
            let mut alt = String::with_capacity(text.len());
            alt.push_str(&text[..at]);
            alt.push('T');
            alt.push_str(&text[at + 1..]);
            match guard(|| alt.parse::<NaiveDateTime>().ok().map(|p| p == ndt && RDt::of(&p) == r)) {
                Ok(Some(true)) => Some("only-the-space-between-date-and-time-is-rejected"),
                _ => None,
            }
        };
        round_trip::<NaiveDateTime>(loc, &w, text, ycls(y), differs, val, reclass);
    }
    if leap {
        loc.bucket(x.n_leap)
    }
    if !(0..=9999).contains(&y) {
        loc.bucket(x.n_sign)
    }
    if at_end {
        loc.bucket(x.n_end)
    }
    if nano != 0 {
        loc.bucket(x.n_frac)
    }

    // ---- DateTime<Utc>
    let Ok(udt) = guard(|| Utc.from_utc_datetime(&ndt)) else {
        env.unbuildable(&format!("DateTime<Utc> {:?}", r));
        return;
    };
    let differs_u = |p: &DateTime<Utc>| {
        let pr = RDt::of(&p.naive_utc());
        if *p == udt {
            rdt_diff(&pr, &r)
        } else {
            Some(json!({"parsed_utc": rdt_json(&pr)}))
        }
    };
    for display in [false, true] {
        let w = Who { tname: "DateTime<Utc>", form: if display { "Display" } else { "Debug" } };
        let buf = if display { &mut bufs.b } else { &mut bufs.a };
        if !print_into(loc, &w, buf, &udt, display, val) {
            continue;
        }
        if display && bufs.a == bufs.b {
            continue;
        }
        let text: &str = if display { &bufs.b } else { &bufs.a };
        loc.bucket(if display { x.u_disp } else { x.u_dbg });
        shape_datetime(loc, &w, text, y, leap, nano, val);
        round_trip::<DateTime<Utc>>(loc, &w, text, ycls(y), differs_u, val, || None);
    }
    if leap {
        loc.bucket(x.u_leap)
    }
    if !(0..=9999).contains(&y) {
        loc.bucket(x.u_sign)
    }
    if at_end {
        loc.bucket(x.u_end)
    }
    if nano != 0 {
        loc.bucket(x.u_frac)
    }
    if !(1000..=9999).contains(&y) || r.frac != 0 || at_end {
        loc.nontrivial(h2(3, h2(r.day as u64, h2(r.secs as u64, r.frac as u64))));
    }
    if r.day == rc::max_day() && r.secs == 86_399 && r.frac == 1_500_000_000 {
        loc.sample(|| json!({"type": "DateTime<Utc>", "value": rdt_json(&r), "display_text": bufs.b.clone()}));
    }
}

fn shape_datetime(loc: &mut Local, w: &Who, text: &str, year: i64, leap: bool, nano: i64, val: &dyn Fn() -> Value) {
    match scan_date(text) {
        Some((sign, _, rest)) => {
            shape_year(loc, w, text, sign, year, val);
            let mut it = rest.chars();
            match it.next().and_then(|_| scan_time(it.as_str())) {
                Some((sec, fr, _)) => shape_time(loc, w, text, sec, fr, leap, nano, val),
                None => shape_unscannable(loc, w, text, "time", val),
            }
        }
        None => shape_unscannable(loc, w, text, "date", val),
    }
}

/// DateTime<FixedOffset>: instant `u` (UTC reading), offset `off` seconds (a whole minute).
fn case_fixed(env: &Env, loc: &mut Local, bufs: &mut Bufs, u: RDt, off: i64) {
    let x = &env.x;
    let built = guard(|| {
        let n = u.to_chrono()?;
        Some(FixedOffset::east_opt(off as i32)?.from_utc_datetime(&n))
    });
    let Some(dt) = built.ok().flatten() else {
        env.unbuildable(&format!("DateTime<FixedOffset> {:?} offset {}", u, off));
        return;
    };
    // wall-clock reading by plain integer arithmetic (the day may be one outside NaiveDate's range)
    let t = u.secs + off;
    let wall = RDt::new(u.day + t.div_euclid(86_400), t.rem_euclid(86_400), u.frac);
    let (wy, _, _) = rc::civil_from_days(wall.day);
    let (uy, _, _) = u.ymd();
    let leap = u.is_leap();
    let nano = u.frac % 1_000_000_000;
    let headroom = if wall.day < rc::min_day() {
        -1
    } else if wall.day > rc::max_day() {
        1
    } else {
        0
    };
    let val = || json!({"utc": rdt_json(&u), "offset_seconds": off, "wall": rdt_json(&wall)});
    let val: &dyn Fn() -> Value = &val;
    let class = if headroom != 0 { "wall-date-outside-NaiveDate-range" } else { ycls(wy) };
    let differs = |p: &DateTime<FixedOffset>| {
        let pr = RDt::of(&p.naive_utc());
        let po = p.offset().local_minus_utc() as i64;
        if pr == u && po == off && *p == dt {
            None
        } else {
            Some(json!({"parsed_utc": rdt_json(&pr), "parsed_offset_seconds": po}))
        }
    };
    for display in [false, true] {
        let w = Who { tname: "DateTime<FixedOffset>", form: if display { "Display" } else { "Debug" } };
        let buf = if display { &mut bufs.b } else { &mut bufs.a };
        if !print_into(loc, &w, buf, &dt, display, val) {
            continue;
        }
        if display && bufs.a == bufs.b {
            continue;
        }
        let text: &str = if display { &bufs.b } else { &bufs.a };
        loc.bucket(if display { x.f_disp } else { x.f_dbg });
        shape_datetime(loc, &w, text, wy, leap, nano, val);
        round_trip::<DateTime<FixedOffset>>(loc, &w, text, class, differs, val, || None);
    }
    loc.bucket(if off < 0 {
        x.f_neg
    } else if off == 0 {
        x.f_zero
    } else {
        x.f_pos
    });
    if off.abs() == 1439 * 60 {
        loc.bucket(x.f_ext)
    }
    if wall.day != u.day {
        loc.bucket(x.f_date)
    }
    if (0..=9999).contains(&wy) != (0..=9999).contains(&uy) {
        loc.bucket(x.f_signst)
    }
    if headroom < 0 {
        loc.bucket(x.f_hlo)
    }
    if headroom > 0 {
        loc.bucket(x.f_hhi)
    }
    if leap {
        loc.bucket(x.f_leap)
    }
    if nano != 0 {
        loc.bucket(x.f_frac)
    }
    if !(0..=9999).contains(&wy) {
        loc.bucket(x.f_sign)
    }
    if off != 0 || u.frac != 0 || !(1000..=9999).contains(&wy) {
        loc.nontrivial(h2(4, h2(h2(u.day as u64, off as u64), h2(u.secs as u64, u.frac as u64))));
    }
    if off == 34_200 && u.secs == 86_399 && leap && wy == 10_000 && uy == 9_999 {
        loc.sample(|| json!({"type": "DateTime<FixedOffset>", "utc": rdt_json(&u), "offset_seconds": off, "display_text": bufs.b.clone(), "debug_text": bufs.a.clone()}));
    }
}

fn case_offset(env: &Env, loc: &mut Local, bufs: &mut Bufs, off: i64) {
    let x = &env.x;
    let Some(fo) = guard(|| FixedOffset::east_opt(off as i32)).ok().flatten() else {
        env.unbuildable(&format!("FixedOffset {}", off));
        return;
    };
    let val = || json!({"offset_seconds": off});
    let val: &dyn Fn() -> Value = &val;
    let differs = |p: &FixedOffset| {
        if *p == fo && p.local_minus_utc() as i64 == off {
            None
        } else {
            Some(json!({"parsed_offset_seconds": p.local_minus_utc()}))
        }
    };
    let class = if off < 0 { "offset-negative" } else { "offset-non-negative" };
    let wd = Who { tname: "FixedOffset", form: "Display" };
    if print_into(loc, &wd, &mut bufs.a, &fo, true, val) {
        round_trip::<FixedOffset>(loc, &wd, &bufs.a, class, differs, val, || None);
    }
    let wg = Who { tname: "FixedOffset", form: "Debug" };
    if print_into(loc, &wg, &mut bufs.b, &fo, false, val) && bufs.b != bufs.a {
        round_trip::<FixedOffset>(loc, &wg, &bufs.b, class, differs, val, || None);
    }
    loc.bucket(if off < 0 {
        x.o_neg
    } else if off == 0 {
        x.o_zero
    } else {
        x.o_pos
    });
    if off.abs() == 1439 * 60 {
        loc.bucket(x.o_ext)
    }
    if off != 0 {
        loc.nontrivial(h2(5, off as u64));
    }
    if off == -34_200 {
        loc.sample(|| json!({"type": "FixedOffset", "offset_seconds": off, "text": bufs.a.clone(), "parsed_back": "same"}));
    }
}

// ------------------------------------------------------------------------------------------------
// Workload
// ------------------------------------------------------------------------------------------------

pub fn run(ctx: &Ctx) -> Outcome {
    let floor: Vec<&'static str> = B.iter().copied().filter(|b| !b.ends_with("_optional")).collect();
    let rep = Report::with_bitmap_bits("C09", B, &floor, 28);
    for r in [rc::self_test(), ri::self_test(), self_test()] {
        if let Err(e) = r {
            rep.harness_error(e);
            return rep.finish(ctx, "self-test failed", &[]);
        }
    }
    let env = Env { rep: &rep, x: ix(), unbuildable: AtomicU64::new(0) };
    names(&env);
    walk_dates(ctx, &env);
    random_dates(ctx, &env);
    times(ctx, &env);
    products(ctx, &env);
    offsets_and_fixed(ctx, &env);
    local_child(ctx, &env);
    let full = ctx.tier == Tier::Thorough;
    if full {
        rep.exhaustive.store(true, Ordering::Relaxed);
    }
    rep.set_extra(
        "exhaustive_domain",
        json!(if full {
            "NaiveDate: all 191,491,529 representable dates; FixedOffset: all 2879 whole-minute offsets; Weekday: all 7; Month: all 12; NaiveTime: every second of the day x the fraction catalogue (fractions beyond the catalogue are sampled); NaiveDateTime/DateTime: sampled products"
        } else {
            "FixedOffset: all 2879 whole-minute offsets; Weekday: all 7; Month: all 12; NaiveTime: every second of the day x the fraction catalogue; NaiveDate: all dates of the year windows listed in date_windows; the rest sampled"
        }),
    );
    rep.finish(
        ctx,
        "values are built from reference integers (R-cal day number, second of day, fraction, offset seconds): NaiveDate = incremental R-cal walk over all dates (thorough) or over year windows around MIN, -100000, -10000, -1200..2400, 10000, 100000 and MAX, about 9600 years (quick) + random days; NaiveTime = every second of the day x a fraction catalogue aimed at the 0/3/6/9-digit decisions (+ leap representations on every :59, + random fractions); NaiveDateTime and DateTime<Utc> = catalogue days x catalogue seconds x fractions (+ leap on :59) + random; DateTime<FixedOffset> = each of the 2879 whole-minute offsets x instants at year starts/ends of sign- and width-changing years and the range ends (+ random); FixedOffset = all whole-minute offsets; all weekdays and months. One evaluation = one parse of a printed form compared with the reference integers (Debug is parsed only where its text differs from Display). A case is non-trivial if its year is outside 1000..=9999 (sign or zero padding), or it is a first/last day of a year or range, or its fraction is non-zero (incl. leap representations), or its offset is non-zero; distinct = distinct (type, reference integers) tuples, hashed bitmap, collisions under-count",
        &[
            "R-cal / R-inst (harness/src/refcal.rs, refinst.rs) are correct: self-tested at the start of every run",
            "the constructors from_num_days_from_ce_opt / from_num_seconds_from_midnight_opt / from_utc_datetime and the accessors used to read a parsed value back are correct (properties C01, C02, C04)",
            "leap-second representations only on second 59 of a minute and offsets of whole minutes only, as the property states; DateTime<Local> is driven in child processes with TZ set to four rule zones with whole-minute offsets",
            "Month has no Display impl; its default printed form is the derived Debug",
        ],
    )
}

/// `DateTime<Local>` in a process whose local zone is not UTC (child processes started with `TZ`
/// set to zones with whole-minute offsets): Display / Debug / RFC 3339 text parses back through
/// `FromStr for DateTime<Local>` to the same instant with the zone's offset. In-process the local
/// zone of this sandbox is UTC, where every printed offset is +00:00.
fn local_child(ctx: &Ctx, env: &Env) {
    use crate::props::tzchild::{self, Ans};
    let mut loc = env.rep.local();
    let bk = bi("local_zone_round_trip");
    for (zi, tz) in ["IST-5:30", "NST3:30NDT,M3.2.0,M11.1.0", "NZST-12NZDT,M9.5.0,M4.1.0/3", "<-03>3"].iter().enumerate() {
        let mut rng = Rng::new(ctx.seed, "C09/local-child", zi as u64);
        let mut q: Vec<(char, i64)> = Vec::new();
        for _ in 0..ctx.n(250, 20_000) {
            let u = match rng.below(4) {
                0 => rng.range(1_600_000_000, 1_700_000_000),
                1 => *rng.pick(&[1_615_705_200i64, 1_636_264_800, 1_632_578_400, 1_617_458_400]) + rng.range(-90_000, 90_000),
                2 => rng.range(-62_135_596_800, 253_402_300_799),
                _ => rng.range(-2_000_000_000, 4_000_000_000),
            };
            q.push(('P', u));
        }
        match tzchild::run_child(&ctx.work_dir, &format!("c09-{}", zi), Some(tz), &q) {
            Ok(ans) => {
                for ((_, u), a) in q.iter().zip(ans.iter()) {
                    loc.eval();
                    loc.bucket(bk);
                    match a {
                        Ans::Single(_) => {}
                        Ans::Panic(msg) if msg.starts_with(tzchild::GLUE) => loc.violation("C09/DateTime<Local>/parse/text-does-not-parse-back-to-the-value", json!({"TZ": tz, "unix": u, "message": msg})),
                        other => loc.violation("C09/DateTime<Local>/parse/panic-or-error", json!({"TZ": tz, "unix": u, "observed": other.print()})),
                    }
                    loc.nontrivial(h2(93, h2(zi as u64, *u as u64)));
                }
            }
            Err(e) => env.rep.harness_error(format!("C09 local-zone child died: {}", e)),
        }
    }
}

fn names(env: &Env) {
    let mut loc = env.rep.local();
    let x = &env.x;
    let mut bufs = Bufs::new();
    let wds = [Weekday::Mon, Weekday::Tue, Weekday::Wed, Weekday::Thu, Weekday::Fri, Weekday::Sat, Weekday::Sun];
    for (i, wd) in wds.iter().enumerate() {
        let val = || json!({"weekday_index_from_monday": i});
        let val: &dyn Fn() -> Value = &val;
        let differs = |p: &Weekday| {
            if p == wd && p.num_days_from_monday() as usize == i {
                None
            } else {
                Some(json!({"parsed_index_from_monday": p.num_days_from_monday()}))
            }
        };
        let w = Who { tname: "Weekday", form: "Display" };
        if print_into(&mut loc, &w, &mut bufs.a, wd, true, val) {
            loc.bucket(x.w_disp);
            round_trip::<Weekday>(&mut loc, &w, &bufs.a, "weekday", differs, val, || None);
        }
        let w = Who { tname: "Weekday", form: "Debug" };
        if print_into(&mut loc, &w, &mut bufs.b, wd, false, val) {
            // the derived Debug prints the same three letters; parse it in any case (7 values)
            loc.bucket(x.w_dbg);
            round_trip::<Weekday>(&mut loc, &w, &bufs.b, "weekday", differs, val, || None);
        }
        loc.nontrivial(h2(6, i as u64));
        if i == 3 {
            loc.sample(|| json!({"type": "Weekday", "index_from_monday": i, "display_text": bufs.a.clone(), "debug_text": bufs.b.clone()}));
        }
    }
    let months = [
        Month::January, Month::February, Month::March, Month::April, Month::May, Month::June, Month::July, Month::August,
        Month::September, Month::October, Month::November, Month::December,
    ];
    for (i, m) in months.iter().enumerate() {
        let val = || json!({"month_number": i + 1});
        let val: &dyn Fn() -> Value = &val;
        let differs = |p: &Month| {
            if p == m && p.number_from_month() as usize == i + 1 {
                None
            } else {
                Some(json!({"parsed_month_number": p.number_from_month()}))
            }
        };
        // Month implements Debug only (no Display)
        let w = Who { tname: "Month", form: "Debug" };
        bufs.a.clear();
        let r = guard(|| write!(bufs.a, "{:?}", m));
        match r {
            Ok(Ok(())) => {
                loc.bucket(x.m_dbg);
                round_trip::<Month>(&mut loc, &w, &bufs.a, "month", differs, val, || None);
            }
            Ok(Err(_)) => loc.violation("C09/Month/Debug/print/fmt-error", json!({"month_number": i + 1})),
            Err(p) => loc.violation(&format!("C09/Month/Debug/print/panic@{}", p.site()), json!({"month_number": i + 1, "panic": p.to_json()})),
        }
        loc.nontrivial(h2(7, i as u64));
        if i == 8 {
            loc.sample(|| json!({"type": "Month", "month_number": i + 1, "debug_text": bufs.a.clone()}));
        }
    }
}

/// Year windows of the quick tier (inclusive), chosen from the specification: range ends, the
/// sign change at 0, the sign/width changes at ±9999/±10000 and ±99999/±100000, modern years.
fn quick_windows() -> Vec<(i64, i64)> {
    vec![
        (rc::MIN_YEAR, rc::MIN_YEAR + 1_000),
        (-100_500, -99_500),
        (-10_500, -9_500),
        (-1_200, 2_400),
        (9_500, 10_500),
        (99_500, 100_500),
        (rc::MAX_YEAR - 1_000, rc::MAX_YEAR),
    ]
}

fn walk_dates(ctx: &Ctx, env: &Env) {
    let rep = env.rep;
    let full = ctx.tier == Tier::Thorough;
    // list of (lo, hi) day ranges, each one shard
    let mut ranges: Vec<(i64, i64)> = Vec::new();
    let mut total = 0i64;
    let mut push = |lo: i64, hi: i64, chunk: i64| {
        let mut a = lo;
        while a <= hi {
            let b = (a + chunk - 1).min(hi);
            ranges.push((a, b));
            a = b + 1;
        }
        total += hi - lo + 1;
    };
    if full {
        push(rc::min_day(), rc::max_day(), 200_000);
    } else {
        for (ya, yb) in quick_windows() {
            push(rc::day_number(ya, 1, 1), rc::day_number(yb, 12, 31), 40_000);
        }
        rep.set_extra("date_windows", json!(quick_windows()));
    }
    let visited = AtomicU64::new(0);
    par_shards(rep, ctx.threads, ranges.len(), |shard| {
        let (lo, hi) = ranges[shard];
        let mut loc = rep.local();
        let mut bufs = Bufs::new();
        let mut w = rc::Walker::at_day(lo);
        if rc::day_number(w.y, w.m, w.d) != lo {
            rep.harness_error("C09: walker start mismatch");
            return;
        }
        let mut count = 0u64;
        loop {
            case_date(env, &mut loc, &mut bufs, w.n, w.y, w.m, w.d, true);
            count += 1;
            if w.n == hi {
                break;
            }
            w.next();
        }
        if rc::civil_from_days(hi) != (w.y, w.m, w.d) {
            rep.harness_error(format!("C09: walker end mismatch at {}", hi));
        }
        visited.fetch_add(count, Ordering::Relaxed);
    });
    let v = visited.load(Ordering::Relaxed);
    rep.set_extra("dates_walked", json!(v));
    if v != total as u64 {
        rep.harness_error(format!("C09: date walk visited {} of {} dates", v, total));
    }
}

fn random_dates(ctx: &Ctx, env: &Env) {
    let rep = env.rep;
    let total = ctx.n(1_000_000, 4_000_000);
    let n_shards = 64usize;
    let per = (total / n_shards as u64).max(1);
    let cat = gen::catalogue_days();
    par_shards(rep, ctx.threads, n_shards, |shard| {
        let mut rng = Rng::new(ctx.seed, "C09/dates", shard as u64);
        let mut loc = rep.local();
        let mut bufs = Bufs::new();
        if shard == 0 {
            for &n in &cat {
                let (y, m, d) = rc::civil_from_days(n);
                case_date(env, &mut loc, &mut bufs, n, y, m, d, false);
            }
        }
        for _ in 0..per {
            let n = gen::random_day(&mut rng, &cat);
            let (y, m, d) = rc::civil_from_days(n);
            case_date(env, &mut loc, &mut bufs, n, y, m, d, false);
            loc.bucket(env.x.d_rand);
        }
    });
}

/// Fractions aimed at the 0/3/6/9-digit decision and at zero padding inside the fraction.
fn fraction_catalogue() -> Vec<i64> {
    let mut v = gen::catalogue_fracs();
    v.extend([
        10, 100, 10_000, 100_000, 10_000_000, 100_000_000, 1_000_000 - 1_000, 12_000, 120_000, 12_000_000, 120_000_000, 123_000_000,
        123_456_000, 1_001_000, 1_000_001, 900_000_000, 990_000_000, 999_990_000, 999_999_990, 1_000_000 + 1,
    ]);
    v.sort();
    v.dedup();
    v.retain(|f| (0..1_000_000_000).contains(f));
    v
}

fn times(ctx: &Ctx, env: &Env) {
    let rep = env.rep;
    let fr = fraction_catalogue();
    let n_rand = ctx.n(10, 400);
    let n_shards = 96usize;
    let per = 86_400 / n_shards as i64;
    par_shards(rep, ctx.threads, n_shards, |shard| {
        let mut rng = Rng::new(ctx.seed, "C09/times", shard as u64);
        let mut loc = rep.local();
        let mut bufs = Bufs::new();
        for secs in per * shard as i64..per * (shard as i64 + 1) {
            loc.bucket(env.x.t_every);
            let on59 = secs % 60 == 59;
            for &f in &fr {
                case_time(env, &mut loc, &mut bufs, secs, f);
                if on59 {
                    case_time(env, &mut loc, &mut bufs, secs, f + 1_000_000_000);
                }
            }
            for _ in 0..n_rand {
                let f = gen::random_frac(&mut rng);
                loc.bucket(env.x.t_rand);
                case_time(env, &mut loc, &mut bufs, secs, f);
                if on59 {
                    case_time(env, &mut loc, &mut bufs, secs, gen::random_frac(&mut rng) + 1_000_000_000);
                }
            }
        }
    });
}

fn products(ctx: &Ctx, env: &Env) {
    let rep = env.rep;
    let days = gen::catalogue_days();
    let mut secs = gen::catalogue_secs();
    secs.extend([119, 3_659, 43_259, 86_279]);
    secs.sort();
    secs.dedup();
    let fr_q: Vec<i64> = vec![0, 1, 1_000, 999_000, 1_000_000, 500_000_000, 120_000_000, 999_999_999, 123_456_789];
    let fr_t = fraction_catalogue();
    let fr: &[i64] = if ctx.tier == Tier::Thorough { &fr_t } else { &fr_q };
    // catalogue product, sharded by day
    let n_shards = 128usize;
    par_shards(rep, ctx.threads, n_shards, |shard| {
        let mut loc = rep.local();
        let mut bufs = Bufs::new();
        for (i, &day) in days.iter().enumerate() {
            if i % n_shards != shard {
                continue;
            }
            for &s in &secs {
                for &f in fr {
                    case_naive_and_utc(env, &mut loc, &mut bufs, RDt::new(day, s, f));
                    if s % 60 == 59 {
                        case_naive_and_utc(env, &mut loc, &mut bufs, RDt::new(day, s, f + 1_000_000_000));
                    }
                }
            }
        }
    });
    // random
    let total = ctx.n(600_000, 12_000_000);
    let n_shards = 64usize;
    let per = (total / n_shards as u64).max(1);
    par_shards(rep, ctx.threads, n_shards, |shard| {
        let mut rng = Rng::new(ctx.seed, "C09/products", shard as u64);
        let mut loc = rep.local();
        let mut bufs = Bufs::new();
        for _ in 0..per {
            let r = gen::random_rdt_leap(&mut rng, &days, true);
            loc.bucket(env.x.rand_prod);
            case_naive_and_utc(env, &mut loc, &mut bufs, r);
        }
    });
}

/// Instants (UTC readings) for the offset product: first and last day of years at which the sign
/// or width of the printed year changes, and of the range ends, at times next to midnight (so
/// that whole-minute offsets move the wall clock across the year boundary) and at noon.
fn fixed_instants() -> Vec<RDt> {
    let years = [
        rc::MIN_YEAR, -100_000, -99_999, -10_000, -9_999, -1_000, -999, -1, 0, 1, 999, 1_000, 1_970, 2_024, 9_999, 10_000, 99_999, 100_000,
        rc::MAX_YEAR,
    ];
    let times: [(i64, i64); 7] = [
        (0, 0),
        (59, 1_000_000_000),
        (59, 1_999_999_999),
        (43_200, 120_000_000),
        (86_399, 0),
        (86_399, 999_999_999),
        (86_399, 1_500_000_000),
    ];
    let mut v = Vec::new();
    for y in years {
        let mut ds = vec![rc::day_number(y, 1, 1), rc::day_number(y, 12, 31)];
        if y == 2_024 {
            ds.push(rc::day_number(y, 2, 29));
        }
        for d in ds {
            for (s, f) in times {
                v.push(RDt::new(d, s, f));
            }
        }
    }
    v
}

fn offsets_and_fixed(ctx: &Ctx, env: &Env) {
    let rep = env.rep;
    let instants = fixed_instants();
    let days = gen::catalogue_days();
    let n_rand = ctx.n(120, 30_000);
    let n_off = 2 * 1439 + 1;
    let covered = AtomicU64::new(0);
    par_shards(rep, ctx.threads, n_off, |shard| {
        let off = (shard as i64 - 1439) * 60;
        let mut rng = Rng::new(ctx.seed, "C09/fixed", shard as u64);
        let mut loc = rep.local();
        let mut bufs = Bufs::new();
        case_offset(env, &mut loc, &mut bufs, off);
        for u in &instants {
            case_fixed(env, &mut loc, &mut bufs, *u, off);
        }
        for _ in 0..n_rand {
            let u = gen::random_rdt_leap(&mut rng, &days, true);
            case_fixed(env, &mut loc, &mut bufs, u, off);
        }
        covered.fetch_add(1, Ordering::Relaxed);
    });
    rep.set_extra("whole_minute_offsets_covered", json!(covered.load(Ordering::Relaxed)));
    if covered.load(Ordering::Relaxed) != n_off as u64 {
        rep.harness_error("C09: not all whole-minute offsets were visited");
    }
}
