//! Child-process side of the public `Local` route: the parent starts `chk --child tzq <file>` with
//! the `TZ` variable (and possibly a private /etc/localtime) already in place; the child answers a
//! batch of queries through `chrono::Local` and prints one line per query.
//!
//! Query lines:  `U <unix secs>`  (instant -> offset)      answer `S <off>` | `N` | `P <panic>`
//!               `L <local secs>` (wall time -> offsets)   answer `N` | `S <off>` | `A <o1> <o2>` | `P <panic>`
//!               `P <unix secs>`  (text forms of the instant as DateTime<Local> parse back)  answer `S <off>` | `P <message>`
//! where `<local secs>` is the wall clock expressed as seconds since 1970-01-01T00:00 (as if UTC).

use crate::mon::guard;
use chrono::{DateTime, FixedOffset, Local, MappedLocalTime, NaiveDateTime, NaiveTime, Offset, TimeZone, Utc};
use std::io::{BufRead, Write};

pub fn ndt_of_secs(s: i64) -> Option<NaiveDateTime> {
    DateTime::from_timestamp(s, 0).map(|d| d.naive_utc())
}

#[derive(Clone, Debug, PartialEq, Eq)]
pub enum Ans {
    None,
    Single(i32),
    Ambiguous(i32, i32),
    Panic(String),
    Unrepresentable,
}

impl Ans {
    pub fn print(&self) -> String {
        match self {
            Ans::None => "N".into(),
            Ans::Single(o) => format!("S {}", o),
            Ans::Ambiguous(a, b) => format!("A {} {}", a, b),
            Ans::Panic(m) => format!("P {}", m.replace('\n', " ")),
            Ans::Unrepresentable => "X".into(),
        }
    }
    pub fn parse(s: &str) -> Ans {
        let mut it = s.split_whitespace();
        match it.next() {
            Some("N") => Ans::None,
            Some("S") => Ans::Single(it.next().and_then(|x| x.parse().ok()).unwrap_or(i32::MIN)),
            Some("A") => Ans::Ambiguous(it.next().and_then(|x| x.parse().ok()).unwrap_or(i32::MIN), it.next().and_then(|x| x.parse().ok()).unwrap_or(i32::MIN)),
            Some("X") => Ans::Unrepresentable,
            _ => Ans::Panic(s.get(2..).unwrap_or("").to_string()),
        }
    }
}

pub fn answer_utc(u: i64) -> Ans {
    let Some(n) = ndt_of_secs(u) else { return Ans::Unrepresentable };
    match guard(|| {
        // both public entry points must agree
        let o1 = Local.offset_from_utc_datetime(&n).fix().local_minus_utc();
        let dt = Local.from_utc_datetime(&n);
        let o2 = dt.offset().fix().local_minus_utc();
        (o1, o2, dt.naive_utc() == n, glue_utc(&n, &dt, o1))
    }) {
        Ok((o1, o2, same, glue)) => {
            if o1 != o2 || !same {
                Ans::Panic(format!("offset_from_utc_datetime={} but from_utc_datetime offset={} same_instant={}", o1, o2, same))
            } else if let Some(g) = glue {
                Ans::Panic(format!("{}{}", GLUE, g))
            } else {
                Ans::Single(o1)
            }
        }
        Err(p) => Ans::Panic(format!("{} at {}", p.msg, p.site())),
    }
}

/// Prefix of the message of an answer that reports two public routes disagreeing with each other.
pub const GLUE: &str = "routes-disagree: ";
/// Prefix of `run_child`'s error when the child process could not be started at all.
pub const SPAWN_FAILED: &str = "spawn-failed: ";

/// The other public ways of getting the same instant shown in the local zone (or the local value shown
/// in another zone): each must carry the zone's offset for that instant and keep the instant.
#[allow(deprecated)]
fn glue_utc(n: &NaiveDateTime, dt: &DateTime<Local>, off: i32) -> Option<String> {
    let src_off = if off == 19_815 { -12_345 } else { 19_815 };
    let src: DateTime<FixedOffset> = FixedOffset::east_opt(src_off).expect("offset").from_utc_datetime(n);
    let mut bad = Vec::new();
    let mut chk = |name: &str, o: i32, nu: NaiveDateTime, want: i32| {
        if o != want || nu != *n {
            bad.push(format!("{} gives offset {} (instant kept: {}), expected offset {}", name, o, nu == *n, want));
        }
    };
    let l1: DateTime<Local> = src.into();
    chk("From<DateTime<FixedOffset>> for DateTime<Local>", l1.offset().local_minus_utc(), l1.naive_utc(), off);
    let l2: DateTime<Local> = Utc.from_utc_datetime(n).into();
    chk("From<DateTime<Utc>> for DateTime<Local>", l2.offset().local_minus_utc(), l2.naive_utc(), off);
    let l3 = src.with_timezone(&Local);
    chk("DateTime<FixedOffset>::with_timezone(&Local)", l3.offset().local_minus_utc(), l3.naive_utc(), off);
    let f1: DateTime<FixedOffset> = (*dt).into();
    chk("From<DateTime<Local>> for DateTime<FixedOffset>", f1.offset().local_minus_utc(), f1.naive_utc(), off);
    let f2 = dt.fixed_offset();
    chk("DateTime<Local>::fixed_offset", f2.offset().local_minus_utc(), f2.naive_utc(), off);
    let u1: DateTime<Utc> = (*dt).into();
    chk("From<DateTime<Local>> for DateTime<Utc>", 0, u1.naive_utc(), 0);
    // the system clock type, both ways
    let secs = n.and_utc().timestamp();
    let nanos = n.and_utc().timestamp_subsec_nanos();
    let st = if secs >= 0 {
        std::time::UNIX_EPOCH.checked_add(std::time::Duration::new(secs as u64, nanos))
    } else {
        std::time::UNIX_EPOCH.checked_sub(std::time::Duration::new(secs.unsigned_abs(), 0)).and_then(|t| t.checked_add(std::time::Duration::new(0, nanos)))
    };
    if let (Some(st), true) = (st, nanos < 1_000_000_000) {
        let l4: DateTime<Local> = st.into();
        chk("From<SystemTime> for DateTime<Local>", l4.offset().local_minus_utc(), l4.naive_utc(), off);
        let back: std::time::SystemTime = (*dt).into();
        if back != st {
            chk("From<DateTime<Local>> for SystemTime (instant changed)", off, *n - chrono::TimeDelta::seconds(1), off);
        }
    }
    // the (deprecated) date-level entry point is the offset at UTC midnight of that date
    let mid = n.date().and_time(NaiveTime::MIN);
    let (od, om) = (Local.offset_from_utc_date(&n.date()).local_minus_utc(), Local.offset_from_utc_datetime(&mid).local_minus_utc());
    if od != om {
        bad.push(format!("offset_from_utc_date gives {} but the offset at UTC midnight of that date is {}", od, om));
    }
    if bad.is_empty() {
        None
    } else {
        Some(bad.join("; "))
    }
}

/// The (deprecated) date-level entry points are documented as the mapping of local midnight.
#[allow(deprecated)]
fn glue_local(n: &NaiveDateTime) -> Option<String> {
    let d = n.date();
    let conv = |m: MappedLocalTime<FixedOffset>| m.map(|o| o.local_minus_utc());
    let at_mid = conv(Local.offset_from_local_datetime(&d.and_time(NaiveTime::MIN)));
    let by_date = conv(Local.offset_from_local_date(&d));
    let by_from = Local.from_local_date(&d).map(|x| x.offset().local_minus_utc());
    if by_date != at_mid || by_from != at_mid {
        Some(format!("local midnight of {} maps to {:?} but offset_from_local_date gives {:?} and from_local_date {:?}", d, at_mid, by_date, by_from))
    } else {
        None
    }
}

/// `P <unix secs>`: the default text forms of the instant as a `DateTime<Local>` parse back (through
/// `FromStr for DateTime<Local>`) to the same instant shown with the local zone's offset; so does the
/// same instant printed with a foreign offset. Answer `S <off>` or a `routes-disagree` message.
pub fn answer_parse(u: i64) -> Ans {
    let Some(n) = ndt_of_secs(u) else { return Ans::Unrepresentable };
    match guard(|| {
        let dt = Local.from_utc_datetime(&n);
        let off = dt.offset().local_minus_utc();
        let foreign_off = if off == 19_800 { -12_600 } else { 19_800 };
        let foreign = FixedOffset::east_opt(foreign_off).expect("offset").from_utc_datetime(&n);
        let mut bad = Vec::new();
        for (name, text) in [
            ("Display", dt.to_string()),
            ("Debug", format!("{:?}", dt)),
            ("to_rfc3339", dt.to_rfc3339()),
            ("Display of the same instant at another offset", foreign.to_string()),
            ("to_rfc3339 of the same instant in UTC", Utc.from_utc_datetime(&n).to_rfc3339()),
        ] {
            match text.parse::<DateTime<Local>>() {
                Ok(b) => {
                    if b.naive_utc() != n || b.offset().local_minus_utc() != off || b.naive_local() != dt.naive_local() {
                        bad.push(format!("{} text {:?} parses as DateTime<Local> to {:?} {:?}, expected {:?} {:?}", name, text, b.naive_utc(), b.offset(), n, dt.offset()));
                    }
                }
                Err(e) => bad.push(format!("{} text {:?} does not parse as DateTime<Local>: {}", name, text, e)),
            }
        }
        // serialized forms (serde): Local -> text/bytes -> Local, and the same instant written from
        // another zone read as Local
        for (name, r) in [
            ("serde_json of DateTime<Local>", serde_json::to_string(&dt).map_err(|e| e.to_string()).and_then(|t| serde_json::from_str::<DateTime<Local>>(&t).map_err(|e| format!("{} ({})", e, t)))),
            ("serde_json of the same instant at another offset", serde_json::to_string(&foreign).map_err(|e| e.to_string()).and_then(|t| serde_json::from_str::<DateTime<Local>>(&t).map_err(|e| format!("{} ({})", e, t)))),
            ("serde_json of the same instant in UTC", serde_json::to_string(&Utc.from_utc_datetime(&n)).map_err(|e| e.to_string()).and_then(|t| serde_json::from_str::<DateTime<Local>>(&t).map_err(|e| format!("{} ({})", e, t)))),
            ("bincode of DateTime<Local>", bincode::serialize(&dt).map_err(|e| e.to_string()).and_then(|b| bincode::deserialize::<DateTime<Local>>(&b).map_err(|e| e.to_string()))),
        ] {
            match r {
                Ok(b) => {
                    if b.naive_utc() != n || b.offset().local_minus_utc() != off {
                        bad.push(format!("{} reads back as {:?} {:?}, expected {:?} {:?}", name, b.naive_utc(), b.offset(), n, dt.offset()));
                    }
                }
                Err(e) => bad.push(format!("{} does not read back: {}", name, e)),
            }
        }
        (off, bad)
    }) {
        Ok((off, bad)) => {
            if bad.is_empty() {
                Ans::Single(off)
            } else {
                Ans::Panic(format!("{}{}", GLUE, bad.join("; ")))
            }
        }
        Err(p) => Ans::Panic(format!("{} at {}", p.msg, p.site())),
    }
}

pub fn answer_local(l: i64) -> Ans {
    let Some(n) = ndt_of_secs(l) else { return Ans::Unrepresentable };
    match guard(|| {
        let a = Local.offset_from_local_datetime(&n).map(|o| o.fix().local_minus_utc());
        let b = Local.from_local_datetime(&n);
        // earliest()/latest() must be consistent with the variant
        let el = (b.clone().earliest().map(|d| d.offset().fix().local_minus_utc()), b.clone().latest().map(|d| d.offset().fix().local_minus_utc()));
        let b2 = b.map(|d| d.offset().fix().local_minus_utc());
        (a, b2, el, glue_local(&n))
    }) {
        Ok((_, _, _, Some(g))) => Ans::Panic(format!("{}{}", GLUE, g)),
        Ok((a, b, el, None)) => {
            let conv = |m: MappedLocalTime<i32>| match m {
                MappedLocalTime::None => Ans::None,
                MappedLocalTime::Single(o) => Ans::Single(o),
                MappedLocalTime::Ambiguous(x, y) => Ans::Ambiguous(x, y),
            };
            let (ra, rb) = (conv(a), conv(b));
            let el_ok = match &ra {
                Ans::None => el == (None, None),
                Ans::Single(o) => el == (Some(*o), Some(*o)),
                Ans::Ambiguous(x, y) => el == (Some(*x), Some(*y)),
                _ => true,
            };
            // from_local_datetime may turn a result into None when local - offset leaves the range; otherwise they agree
            if (ra != rb && rb != Ans::None) || (ra == rb && !el_ok) {
                Ans::Panic(format!("offset_from_local_datetime={:?} from_local_datetime={:?} earliest/latest={:?}", ra, rb, el))
            } else {
                ra
            }
        }
        Err(p) => Ans::Panic(format!("{} at {}", p.msg, p.site())),
    }
}

/// Exactly one conversion through `Local` per answer (C18 judges single conversions while the
/// environment changes: two calls in one observation could legitimately see two zones).
pub fn answer_utc_single(u: i64) -> Ans {
    let Some(n) = ndt_of_secs(u) else { return Ans::Unrepresentable };
    match guard(|| Local.from_utc_datetime(&n).offset().fix().local_minus_utc()) {
        Ok(o) => Ans::Single(o),
        Err(p) => Ans::Panic(format!("{} at {}", p.msg, p.site())),
    }
}

pub fn answer_local_single(l: i64) -> Ans {
    let Some(n) = ndt_of_secs(l) else { return Ans::Unrepresentable };
    match guard(|| Local.from_local_datetime(&n).map(|d| d.offset().fix().local_minus_utc())) {
        Ok(MappedLocalTime::None) => Ans::None,
        Ok(MappedLocalTime::Single(o)) => Ans::Single(o),
        Ok(MappedLocalTime::Ambiguous(a, b)) => Ans::Ambiguous(a, b),
        Err(p) => Ans::Panic(format!("{} at {}", p.msg, p.site())),
    }
}

/// `chk --child tzq <queries file>`: answers on stdout.
pub fn child_main(args: &[String]) -> i32 {
    let Some(path) = args.first() else { return 3 };
    let Ok(f) = std::fs::File::open(path) else { return 3 };
    let out = std::io::stdout();
    let mut out = std::io::BufWriter::new(out.lock());
    for line in std::io::BufReader::new(f).lines().map_while(Result::ok) {
        let mut it = line.split_whitespace();
        let (k, v) = (it.next(), it.next().and_then(|x| x.parse::<i64>().ok()));
        let ans = match (k, v) {
            (Some("U"), Some(v)) => answer_utc(v),
            (Some("L"), Some(v)) => answer_local(v),
            (Some("P"), Some(v)) => answer_parse(v),
            _ => Ans::Panic("bad query".into()),
        };
        let _ = writeln!(out, "{}", ans.print());
    }
    let _ = out.flush();
    0
}

/// Parent side: run a batch through a child with the given TZ value (None = unset).
/// Returns one answer per query, or Err on a harness-level failure.
pub fn run_child(work_dir: &std::path::Path, tag: &str, tz: Option<&str>, queries: &[(char, i64)]) -> Result<Vec<Ans>, String> {
    std::fs::create_dir_all(work_dir).map_err(|e| e.to_string())?;
    let qpath = work_dir.join(format!("q-{}-{}.txt", std::process::id(), tag));
    let mut s = String::new();
    for (k, v) in queries {
        s.push_str(&format!("{} {}\n", k, v));
    }
    std::fs::write(&qpath, s).map_err(|e| e.to_string())?;
    let exe = std::env::current_exe().map_err(|e| e.to_string())?;
    let mut cmd = std::process::Command::new(exe);
    cmd.arg("--child").arg("tzq").arg(&qpath);
    match tz {
        Some(v) => {
            cmd.env("TZ", v);
        }
        None => {
            cmd.env_remove("TZ");
        }
    }
    // spawning can fail transiently on a machine that is out of processes or memory: retry, and
    // tag the failure so that callers report it as a harness problem, never as chrono's behaviour
    let mut out = cmd.output();
    for pause in [300u64, 1500] {
        if out.is_ok() {
            break;
        }
        std::thread::sleep(std::time::Duration::from_millis(pause));
        out = cmd.output();
    }
    let out = out.map_err(|e| format!("{}{}", SPAWN_FAILED, e))?;
    let _ = std::fs::remove_file(&qpath);
    let text = String::from_utf8_lossy(&out.stdout);
    let answers: Vec<Ans> = text.lines().map(Ans::parse).collect();
    if answers.len() != queries.len() {
        // the child died (abort / allocation failure): report the stderr tail
        let err = String::from_utf8_lossy(&out.stderr);
        return Err(format!("child answered {} of {} queries, status {:?}, stderr: {}", answers.len(), queries.len(), out.status.code(), err.chars().rev().take(300).collect::<String>().chars().rev().collect::<String>()));
    }
    Ok(answers)
}
