//! Deprecated twins: chrono keeps a deprecated (mostly panicking) form next to many `_opt` / newer
//! functions. Each must give the same value as the form the property's main driver checks against
//! its oracle, and panic exactly where that form reports failure. One small phase per owning property.
#![allow(deprecated)]

use crate::gen;
use crate::mon::{guard, h2, par_shards, Ctx, Local, PanicInfo, Report};
use crate::rng::Rng;
use chrono::{DateTime, FixedOffset, NaiveDate, NaiveDateTime, NaiveTime, TimeZone, Utc, Weekday};
use serde_json::{json, Value};

fn cmp<T: PartialEq + std::fmt::Debug>(loc: &mut Local, prop: &str, name: &str, input: &dyn Fn() -> Value, got: Result<T, PanicInfo>, exp: Option<T>) {
    loc.eval();
    let g = got.ok();
    if g != exp {
        loc.violation(
            &format!("{}/deprecated-{}/differs-from-the-current-form", prop, name),
            json!({"input": input(), "current_form": exp.map(|e| format!("{:?}", e)).unwrap_or_else(|| "None / failure".into()), "deprecated_form": g.map(|e| format!("{:?}", e)).unwrap_or_else(|| "panic".into())}),
        );
    }
}

fn hms_args(rng: &mut Rng) -> (u32, u32, u32) {
    let pick = |rng: &mut Rng, lim: u32| match rng.below(6) {
        0 => lim,
        1 => lim - 1,
        2 => u32::MAX,
        3 => lim + rng.below(5000) as u32,
        _ => rng.below(lim as u64) as u32,
    };
    (pick(rng, 24), pick(rng, 60), pick(rng, 60))
}

/// C07: NaiveTime::from_hms*, from_num_seconds_from_midnight, NaiveDate::and_hms*
pub fn c07(ctx: &Ctx, rep: &Report, bk: usize) {
    let cat = gen::catalogue_days();
    par_shards(rep, ctx.threads, 32, |shard| {
        let mut rng = Rng::new(ctx.seed, "C07/deprecated", shard as u64);
        let mut loc = rep.local();
        for _ in 0..ctx.n(60_000, 6_000_000) / 32 {
            let (h, m, s) = hms_args(&mut rng);
            let sub = |rng: &mut Rng, unit: u32| match rng.below(6) {
                0 => unit - 1,
                1 => unit,
                2 => 2 * unit - 1,
                3 => 2 * unit,
                4 => u32::MAX,
                _ => rng.below(2 * unit as u64) as u32,
            };
            let (ms, us, ns) = (sub(&mut rng, 1000), sub(&mut rng, 1_000_000), sub(&mut rng, 1_000_000_000));
            let secs = match rng.below(4) {
                0 => 86_399,
                1 => 86_400,
                2 => u32::MAX,
                _ => rng.below(86_400) as u32,
            };
            loc.bucket(bk);
            let inp = || json!({"h": h, "m": m, "s": s, "milli": ms, "micro": us, "nano": ns, "secs": secs});
            cmp(&mut loc, "C07", "NaiveTime::from_hms", &inp, guard(|| NaiveTime::from_hms(h, m, s)), NaiveTime::from_hms_opt(h, m, s));
            cmp(&mut loc, "C07", "NaiveTime::from_hms_milli", &inp, guard(|| NaiveTime::from_hms_milli(h, m, s, ms)), NaiveTime::from_hms_milli_opt(h, m, s, ms));
            cmp(&mut loc, "C07", "NaiveTime::from_hms_micro", &inp, guard(|| NaiveTime::from_hms_micro(h, m, s, us)), NaiveTime::from_hms_micro_opt(h, m, s, us));
            cmp(&mut loc, "C07", "NaiveTime::from_hms_nano", &inp, guard(|| NaiveTime::from_hms_nano(h, m, s, ns)), NaiveTime::from_hms_nano_opt(h, m, s, ns));
            cmp(&mut loc, "C07", "NaiveTime::from_num_seconds_from_midnight", &inp, guard(|| NaiveTime::from_num_seconds_from_midnight(secs, ns)), NaiveTime::from_num_seconds_from_midnight_opt(secs, ns));
            if let Some(d) = NaiveDate::from_num_days_from_ce_opt(gen::random_day(&mut rng, &cat) as i32) {
                cmp(&mut loc, "C07", "NaiveDate::and_hms", &inp, guard(|| d.and_hms(h, m, s)), d.and_hms_opt(h, m, s));
                cmp(&mut loc, "C07", "NaiveDate::and_hms_milli", &inp, guard(|| d.and_hms_milli(h, m, s, ms)), d.and_hms_milli_opt(h, m, s, ms));
                cmp(&mut loc, "C07", "NaiveDate::and_hms_micro", &inp, guard(|| d.and_hms_micro(h, m, s, us)), d.and_hms_micro_opt(h, m, s, us));
                cmp(&mut loc, "C07", "NaiveDate::and_hms_nano", &inp, guard(|| d.and_hms_nano(h, m, s, ns)), d.and_hms_nano_opt(h, m, s, ns));
            }
            loc.nontrivial(h2(h2(h as u64, m as u64), h2(s as u64, ns as u64)));
        }
    });
}

/// C02: the deprecated timestamp constructors / accessors of NaiveDateTime, DateTime::timestamp_nanos,
/// TimeZone::timestamp / timestamp_millis
pub fn c02(ctx: &Ctx, rep: &Report, bk: usize) {
    let cat = gen::catalogue_i64();
    par_shards(rep, ctx.threads, 32, |shard| {
        let mut rng = Rng::new(ctx.seed, "C02/deprecated", shard as u64);
        let mut loc = rep.local();
        for _ in 0..ctx.n(60_000, 6_000_000) / 32 {
            let secs = match rng.below(5) {
                0 => *rng.pick(&cat),
                1 => *rng.pick(&[-8_334_601_228_800i64, 8_210_266_876_799]) + rng.range(-2, 2),
                2 => rng.range(-9_223_372_037, 9_223_372_037),
                _ => rng.range(-8_334_601_228_800, 8_210_266_876_799),
            };
            let ns = match rng.below(4) {
                0 => 999_999_999,
                1 => 1_000_000_000 + rng.below(1_000_000_000) as u32,
                2 => 2_000_000_000,
                _ => rng.below(1_000_000_000) as u32,
            };
            let off = rng.range(-86_399, 86_399) as i32;
            let fo = FixedOffset::east_opt(off).expect("offset");
            loc.bucket(bk);
            let inp = || json!({"secs": secs, "nsecs": ns, "offset": off});
            let cur = DateTime::from_timestamp(secs, ns);
            cmp(&mut loc, "C02", "NaiveDateTime::from_timestamp", &inp, guard(|| NaiveDateTime::from_timestamp(secs, ns)), cur.map(|d| d.naive_utc()));
            cmp(&mut loc, "C02", "NaiveDateTime::from_timestamp_opt", &inp, guard(|| NaiveDateTime::from_timestamp_opt(secs, ns)), Some(cur.map(|d| d.naive_utc())));
            cmp(&mut loc, "C02", "TimeZone::timestamp(Utc)", &inp, guard(|| Utc.timestamp(secs, ns)), cur);
            cmp(&mut loc, "C02", "TimeZone::timestamp(FixedOffset)", &inp, guard(|| fo.timestamp(secs, ns).naive_utc()), cur.map(|d| d.naive_utc()));
            let ms = secs.saturating_mul(1000).saturating_add((ns / 1_000_000) as i64 % 1000);
            cmp(&mut loc, "C02", "TimeZone::timestamp_millis(Utc)", &inp, guard(|| Utc.timestamp_millis(ms)), DateTime::from_timestamp_millis(ms));
            cmp(&mut loc, "C02", "TimeZone::timestamp_millis(FixedOffset)", &inp, guard(|| fo.timestamp_millis(ms).naive_utc()), DateTime::from_timestamp_millis(ms).map(|d| d.naive_utc()));
            if let Some(d) = cur {
                let n = d.naive_utc();
                cmp(&mut loc, "C02", "NaiveDateTime::timestamp", &inp, guard(|| n.timestamp()), Some(d.timestamp()));
                cmp(&mut loc, "C02", "NaiveDateTime::timestamp_millis", &inp, guard(|| n.timestamp_millis()), Some(d.timestamp_millis()));
                cmp(&mut loc, "C02", "NaiveDateTime::timestamp_micros", &inp, guard(|| n.timestamp_micros()), Some(d.timestamp_micros()));
                cmp(&mut loc, "C02", "NaiveDateTime::timestamp_nanos_opt", &inp, guard(|| n.timestamp_nanos_opt()), Some(d.timestamp_nanos_opt()));
                cmp(&mut loc, "C02", "NaiveDateTime::timestamp_nanos", &inp, guard(|| n.timestamp_nanos()), d.timestamp_nanos_opt());
                cmp(&mut loc, "C02", "DateTime::timestamp_nanos", &inp, guard(|| d.timestamp_nanos()), d.timestamp_nanos_opt());
                cmp(&mut loc, "C02", "NaiveDateTime::timestamp_subsec_*", &inp, guard(|| (n.timestamp_subsec_millis(), n.timestamp_subsec_micros(), n.timestamp_subsec_nanos())), Some((d.timestamp_subsec_millis(), d.timestamp_subsec_micros(), d.timestamp_subsec_nanos())));
            }
            loc.nontrivial(h2(secs as u64, ns as u64));
        }
    });
}

/// C04: FixedOffset::east / west, DateTime::from_utc / from_local
pub fn c04(ctx: &Ctx, rep: &Report, bk: usize) {
    let cat = gen::catalogue_days();
    par_shards(rep, ctx.threads, 32, |shard| {
        let mut rng = Rng::new(ctx.seed, "C04/deprecated", shard as u64);
        let mut loc = rep.local();
        for _ in 0..ctx.n(60_000, 6_000_000) / 32 {
            let secs = match rng.below(5) {
                0 => *rng.pick(&[86_399i32, 86_400, -86_399, -86_400, i32::MIN, i32::MAX, 0]),
                1 => rng.range(-90_000, 90_000) as i32,
                _ => rng.range(-86_399, 86_399) as i32,
            };
            loc.bucket(bk);
            let inp = || json!({"offset_secs": secs});
            cmp(&mut loc, "C04", "FixedOffset::east", &inp, guard(|| FixedOffset::east(secs)), FixedOffset::east_opt(secs));
            cmp(&mut loc, "C04", "FixedOffset::west", &inp, guard(|| FixedOffset::west(secs)), FixedOffset::west_opt(secs));
            if let (Some(fo), Some(n)) = (FixedOffset::east_opt(secs), NaiveDate::from_num_days_from_ce_opt(gen::random_day(&mut rng, &cat) as i32).and_then(|d| d.and_hms_nano_opt(rng.below(24) as u32, rng.below(60) as u32, rng.below(60) as u32, rng.below(1_000_000_000) as u32))) {
                let inp = || json!({"offset_secs": secs, "naive": format!("{:?}", n)});
                cmp(&mut loc, "C04", "DateTime::from_utc", &inp, guard(|| DateTime::<FixedOffset>::from_utc(n, fo)), Some(DateTime::<FixedOffset>::from_naive_utc_and_offset(n, fo)));
                // from_local: the wall clock is given; it panics where the instant is not representable
                let cur = fo.from_local_datetime(&n).single();
                cmp(&mut loc, "C04", "DateTime::from_local", &inp, guard(|| DateTime::<FixedOffset>::from_local(n, fo)), cur);
            }
            loc.nontrivial(h2(5, secs as u64));
        }
    });
}

/// C08: NaiveDate::from_weekday_of_month
pub fn c08(ctx: &Ctx, rep: &Report, bk: usize) {
    par_shards(rep, ctx.threads, 16, |shard| {
        let mut rng = Rng::new(ctx.seed, "C08/deprecated", shard as u64);
        let mut loc = rep.local();
        for _ in 0..ctx.n(40_000, 4_000_000) / 16 {
            let y = match rng.below(4) {
                0 => *rng.pick(&[-262_144i32, -262_143, 262_142, 262_143, 0, 1, i32::MIN, i32::MAX]),
                _ => rng.range(-262_143, 262_142) as i32,
            };
            let m = match rng.below(5) {
                0 => *rng.pick(&[0u32, 13, u32::MAX]),
                _ => 1 + rng.below(12) as u32,
            };
            let wd = crate::props::c01::wd_of(rng.range(0, 6));
            let n = match rng.below(4) {
                0 => *rng.pick(&[0u8, 5, 6, 37, 38, 255]),
                _ => 1 + rng.below(5) as u8,
            };
            loc.bucket(bk);
            let inp = || json!({"year": y, "month": m, "weekday": format!("{:?}", wd), "n": n});
            cmp(&mut loc, "C08", "NaiveDate::from_weekday_of_month", &inp, guard(|| NaiveDate::from_weekday_of_month(y, m, wd, n)), NaiveDate::from_weekday_of_month_opt(y, m, wd, n));
            loc.nontrivial(h2(h2(y as u64, m as u64), h2(n as u64, wd as u64)));
        }
    });
}

#[allow(dead_code)]
fn _unused(_: Weekday) {}
