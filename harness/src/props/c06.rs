//! C06 — durations are exact signed nanosecond counts within a closed range.
//! Oracle: R-delta (i128 nanoseconds, closed range ±(2^63−1)·10^6 ns). Every `TimeDelta` any call
//! returns passes the invariant monitor (raw state read through the serde route: 0 ≤ nanos < 10^9
//! and MIN ≤ secs·10^9+nanos ≤ MAX).

use crate::gen;
use crate::mon::{guard, h2, par_shards, Ctx, Local, Outcome, Report};
use crate::refinst;
use crate::rng::Rng;
use chrono::TimeDelta;
use serde_json::{json, Value};
use std::cmp::Ordering;
use std::collections::HashSet;
use std::time::Duration;

const NS: i128 = 1_000_000_000;
/// range ends, written from the statement: ±(2^63−1) milliseconds
const MAXN: i128 = ((1i128 << 63) - 1) * 1_000_000;
const MINN: i128 = -MAXN;
const I64MAX: i128 = i64::MAX as i128;
const I64MIN: i128 = i64::MIN as i128;

macro_rules! buckets {
    ($($name:ident),* $(,)?) => {
        #[allow(non_camel_case_types, dead_code)]
        #[derive(Clone, Copy)]
        #[repr(usize)]
        enum Bk { $($name),* }
        const B: &[&str] = &[$(stringify!($name)),*];
    };
}

buckets! {
    // new(secs, nanos)
    new_some, new_none_below, new_none_above, new_nanos_ge_1e9, new_at_min, new_at_max,
    new_min_minus_1ns, new_max_plus_1ns, new_secs_i64_extreme,
    // unit constructors
    unit_some, unit_none_below, unit_none_above, unit_i64_product_overflow, unit_at_limit,
    unit_just_outside_limit, millis_i64_min, millis_neg_i64_max, micros_negative_fraction,
    nanos_negative_fraction, micros_i64_extreme, nanos_i64_extreme, panicking_form_panics, panicking_form_returns,
    // add / sub
    add_some, add_none_above, add_none_below, add_result_at_max, add_result_at_min, add_just_above_max,
    add_just_below_min, add_nanos_carry, add_mixed_sign,
    sub_some, sub_none_above, sub_none_below, sub_result_at_max, sub_result_at_min, sub_just_above_max,
    sub_just_below_min, sub_nanos_borrow, sub_equal_operands, operator_forms,
    // mul / div
    mul_some, mul_none_above, mul_none_below, mul_by_zero, mul_by_negative, mul_by_i32_extreme,
    mul_near_limit_inside, mul_near_limit_outside, mul_fraction_carry,
    div_by_zero, div_by_negative, div_by_i32_extreme, div_inexact, div_exact, div_negative_fraction_dividend,
    div_by_minus_one_of_extreme,
    // neg / abs
    neg_of_min, neg_of_max, neg_fractional, neg_whole, abs_negative_fractional, abs_of_min, abs_nonnegative,
    // accessors
    acc_negative_fractional, acc_negative_whole, acc_positive_fractional, acc_zero, acc_at_min, acc_at_max,
    acc_micros_none, acc_micros_edge_some, acc_nanos_none, acc_nanos_edge_some, acc_subsecond_negative,
    // order
    cmp_less, cmp_equal, cmp_greater, cmp_same_floor_second_negative, cmp_opposite_sign,
    // std interop
    from_std_ok, from_std_err, from_std_at_max, from_std_max_plus_1ns, from_std_secs_above_i64,
    to_std_ok, to_std_err, to_std_err_subsecond_negative, to_std_zero,
    // text
    display_zero, display_negative_fractional, display_whole, display_short_fraction, display_nine_digits,
    display_at_min, display_at_max,
    // sum
    sum_in_range, sum_prefix_out_of_range, sum_empty,
    // result re-inspection
    result_accessors,
}

const FLOOR: &[&str] = B;

// ------------------------------------------------------------------------------------------------
// observation routes
// ------------------------------------------------------------------------------------------------

/// Raw state (secs, nanos) through `Serialize` (a tuple of the two fields) — no accessor involved.
#[inline]
fn raw(td: &TimeDelta) -> (i64, i32) {
    let mut buf = [0u8; 12];
    if bincode::serialize_into(&mut buf[..], td).is_err() {
        return (i64::MIN, -1);
    }
    let mut s = [0u8; 8];
    s.copy_from_slice(&buf[..8]);
    let mut n = [0u8; 4];
    n.copy_from_slice(&buf[8..]);
    (i64::from_le_bytes(s), i32::from_le_bytes(n))
}

#[inline]
fn raw_ns(td: &TimeDelta) -> (i128, bool) {
    let (s, n) = raw(td);
    (s as i128 * NS + n as i128, (0..1_000_000_000).contains(&n))
}

#[inline]
fn in_range(v: i128) -> bool {
    (MINN..=MAXN).contains(&v)
}

/// Input construction (through the range-checked constructor, verified by the raw route).
fn mk(v: i128) -> Option<TimeDelta> {
    if !in_range(v) {
        return None;
    }
    let td = guard(|| TimeDelta::new(v.div_euclid(NS) as i64, v.rem_euclid(NS) as u32)).ok()??;
    if raw_ns(&td) != (v, true) {
        return None;
    }
    Some(td)
}

#[inline]
fn hv(v: i128) -> u64 {
    h2(v as u64, (v >> 64) as u64)
}

fn s128(v: i128) -> String {
    v.to_string()
}

fn show(td: &TimeDelta) -> Value {
    let (s, n) = raw(td);
    json!({"secs": s, "nanos": n})
}

/// value is "near a limit" (range ends, ±2^63 ns, ±2^63 µs) or negative with a sub-second part
#[inline]
fn interesting(v: i128) -> bool {
    let a = v.abs();
    (v < 0 && v % NS != 0)
        || MAXN - a <= 2 * NS
        || (a - (1i128 << 63)).abs() <= 2 * NS
        || (a - (1i128 << 63) * 1000).abs() <= 2 * NS
        || a <= 1
}

// ------------------------------------------------------------------------------------------------
// per-shard checker
// ------------------------------------------------------------------------------------------------

struct Ck<'a> {
    loc: Local<'a>,
    seen: HashSet<String>,
    /// which operation writes samples in this shard (0 = none)
    sample_op: u8,
}

impl<'a> Ck<'a> {
    fn new(rep: &'a Report) -> Ck<'a> {
        Ck { loc: rep.local(), seen: HashSet::new(), sample_op: 0 }
    }
    fn sampling(mut self, op: u8, on: bool) -> Ck<'a> {
        if on {
            self.sample_op = op;
        }
        self
    }
    #[inline]
    fn b(&mut self, k: Bk) {
        self.loc.bucket(k as usize);
    }
    /// witness is built only the first time a signature is seen in this shard
    fn viol(&mut self, sig: String, w: impl FnOnce() -> Value) {
        if self.seen.contains(&sig) {
            self.loc.violation(&sig, Value::Null);
        } else {
            self.loc.violation(&sig, w());
            self.seen.insert(sig);
        }
    }
    /// guarded call of an entry point that must not panic
    #[inline]
    fn call<T>(&mut self, entry: &str, input: impl FnOnce() -> Value, f: impl FnOnce() -> T) -> Option<T> {
        match guard(f) {
            Ok(v) => Some(v),
            Err(p) => {
                let sig = format!("C06/{}/panic@{}", entry, p.site());
                self.viol(sig, || json!({"entry": entry, "input": input(), "panic": p.to_json()}));
                None
            }
        }
    }

    /// Invariant monitor on a returned value; true if it is a well-formed in-range duration.
    #[inline]
    fn invariant(&mut self, entry: &str, input: &dyn Fn() -> Value, got: &TimeDelta) -> Option<i128> {
        let (g, nanos_ok) = raw_ns(got);
        if !nanos_ok {
            self.viol(format!("C06/{}/result-nanos-not-in-0..1e9", entry), || {
                json!({"entry": entry, "input": input(), "observed_raw": show(got)})
            });
            return None;
        }
        if !in_range(g) {
            self.viol(format!("C06/{}/result-outside-range", entry), || {
                json!({"entry": entry, "input": input(), "observed_raw": show(got), "observed_ns": s128(g),
                       "range_ns": [s128(MINN), s128(MAXN)]})
            });
            return None;
        }
        Some(g)
    }

    /// A returned duration against the exact expected nanosecond count.
    #[inline]
    fn value(&mut self, entry: &str, input: &dyn Fn() -> Value, got: &TimeDelta, exp: i128) {
        self.loc.eval();
        if let Some(g) = self.invariant(entry, input, got) {
            if g != exp {
                self.viol(format!("C06/{}/wrong-value", entry), || {
                    json!({"entry": entry, "input": input(), "expected_ns": s128(exp), "observed_ns": s128(g), "observed_raw": show(got)})
                });
            }
        }
    }

    /// `Option` result against the exact result (`None` expected iff `exp` is outside the range).
    #[inline]
    fn option(&mut self, entry: &str, input: &dyn Fn() -> Value, got: Option<TimeDelta>, exp: i128) {
        self.loc.eval();
        match got {
            Some(td) => {
                if let Some(g) = self.invariant(entry, input, &td) {
                    if !in_range(exp) {
                        self.viol(format!("C06/{}/some-for-out-of-range-result", entry), || {
                            json!({"entry": entry, "input": input(), "exact_ns": s128(exp), "observed_ns": s128(g)})
                        });
                    } else if g != exp {
                        self.viol(format!("C06/{}/wrong-value", entry), || {
                            json!({"entry": entry, "input": input(), "expected_ns": s128(exp), "observed_ns": s128(g), "observed_raw": show(&td)})
                        });
                    }
                }
            }
            None => {
                if in_range(exp) {
                    self.viol(format!("C06/{}/none-for-in-range-result", entry), || {
                        json!({"entry": entry, "input": input(), "expected_ns": s128(exp)})
                    });
                }
            }
        }
    }
}

// ------------------------------------------------------------------------------------------------
// accessors, order, text, std (one value)
// ------------------------------------------------------------------------------------------------

fn sign_class(v: i128) -> &'static str {
    if v == 0 {
        "zero"
    } else if v > 0 {
        if v % NS != 0 { "positive-fractional" } else { "positive-whole" }
    } else if v % NS != 0 {
        "negative-fractional"
    } else {
        "negative-whole"
    }
}

fn fit(v: i128) -> Option<i64> {
    if (I64MIN..=I64MAX).contains(&v) { Some(v as i64) } else { None }
}

impl<'a> Ck<'a> {
    /// All unit accessors of one in-range value `v` held by `td`.
    fn accessors(&mut self, v: i128, td: &TimeDelta, buckets: bool) {
        let inp = || json!({"value_ns": s128(v), "raw": show(td)});
        let got = self.call("accessors", inp, || {
            (
                [td.num_weeks(), td.num_days(), td.num_hours(), td.num_minutes(), td.num_seconds(), td.num_milliseconds()],
                td.num_microseconds(),
                td.num_nanoseconds(),
                [td.subsec_nanos(), td.subsec_micros(), td.subsec_millis()],
                td.is_zero(),
            )
        });
        self.loc.evals(12);
        let Some((counts, us, ns, sub, is_zero)) = got else { return };
        let sub_ns = v % NS; // same sign as v (truncation)
        let units: [(&str, i128); 6] = [
            ("num_weeks", 604_800 * NS),
            ("num_days", 86_400 * NS),
            ("num_hours", 3_600 * NS),
            ("num_minutes", 60 * NS),
            ("num_seconds", NS),
            ("num_milliseconds", 1_000_000),
        ];
        let cls = sign_class(v);
        for (i, (name, u)) in units.iter().enumerate() {
            let e = v / u; // i128 `/` truncates toward zero
            if counts[i] as i128 != e {
                self.viol(format!("C06/{}/wrong-count/{}", name, cls), || json!({"input": inp(), "expected": s128(e), "observed": counts[i]}));
            }
        }
        let e_us = fit(v / 1000);
        if us != e_us {
            let kind = match (us, e_us) {
                (Some(_), None) => "some-for-count-outside-i64",
                (None, Some(_)) => "none-for-count-inside-i64",
                _ => "wrong-count",
            };
            self.viol(format!("C06/num_microseconds/{}/{}", kind, cls), || json!({"input": inp(), "expected": e_us, "observed": us}));
        }
        let e_ns = fit(v);
        if ns != e_ns {
            let kind = match (ns, e_ns) {
                (Some(_), None) => "some-for-count-outside-i64",
                (None, Some(_)) => "none-for-count-inside-i64",
                _ => "wrong-count",
            };
            self.viol(format!("C06/num_nanoseconds/{}/{}", kind, cls), || json!({"input": inp(), "expected": e_ns, "observed": ns}));
        }
        let e_sub = [sub_ns, sub_ns / 1000, sub_ns / 1_000_000];
        for (i, name) in ["subsec_nanos", "subsec_micros", "subsec_millis"].iter().enumerate() {
            if sub[i] as i128 != e_sub[i] {
                self.viol(format!("C06/{}/wrong-part/{}", name, cls), || json!({"input": inp(), "expected": s128(e_sub[i]), "observed": sub[i]}));
            }
        }
        if is_zero != (v == 0) {
            self.viol("C06/is_zero/mismatch".to_string(), || json!({"input": inp(), "observed": is_zero}));
        }
        // fractional-second accessors: the count of seconds as a float. The statement asks for the
        // count "truncated toward zero with sub-unit parts of the same sign"; for the float forms
        // only what the pinned evaluation `secs as f + nanos as f / 1e9` (floor seconds plus a
        // non-negative fraction, which cancels for small negative values) guarantees is judged:
        // never the opposite sign, exactly zero for zero, and a distance from the exact rational
        // v / 10^9 of at most a few ulp *at the magnitude max(|v / 10^9|, 1)* (f64: 1e-15, f32: 1e-6).
        if let Some((f64v, f32v)) = self.call("as_seconds_f64/f32", inp, || (td.as_seconds_f64(), td.as_seconds_f32())) {
            self.loc.evals(2);
            let exact = (v as f64) / 1e9; // two roundings, ≤ 1 ulp from the exact quotient
            let scale = exact.abs().max(1.0);
            let bad64 = if v == 0 { f64v != 0.0 } else { !f64v.is_finite() || (f64v < 0.0 && v > 0) || (f64v > 0.0 && v < 0) || (f64v - exact).abs() > 1e-15 * scale };
            if bad64 {
                self.viol(format!("C06/as_seconds_f64/not-the-count-of-seconds/{}", cls), || json!({"input": inp(), "expected_about": exact, "observed": f64v}));
            }
            let exact32 = exact as f32;
            let bad32 = if v == 0 { f32v != 0.0 } else { !f32v.is_finite() || (f32v < 0.0 && v > 0) || (f32v > 0.0 && v < 0) || ((f32v as f64) - exact).abs() > 1e-6 * scale };
            if bad32 {
                self.viol(format!("C06/as_seconds_f32/not-the-count-of-seconds/{}", cls), || json!({"input": inp(), "expected_about": exact32, "observed": f32v}));
            }
        }
        if buckets {
            match cls {
                "negative-fractional" => {
                    self.b(Bk::acc_negative_fractional);
                    if v > -NS {
                        self.b(Bk::acc_subsecond_negative)
                    }
                }
                "negative-whole" => self.b(Bk::acc_negative_whole),
                "positive-fractional" => self.b(Bk::acc_positive_fractional),
                "zero" => self.b(Bk::acc_zero),
                _ => {}
            }
            if v == MINN {
                self.b(Bk::acc_at_min)
            }
            if v == MAXN {
                self.b(Bk::acc_at_max)
            }
            let near = |x: i128, lim: i128| (x.abs() - lim).abs() <= 2_000_000;
            if e_us.is_none() {
                self.b(Bk::acc_micros_none)
            } else if near(v, (1i128 << 63) * 1000) {
                self.b(Bk::acc_micros_edge_some)
            }
            if e_ns.is_none() {
                self.b(Bk::acc_nanos_none)
            } else if near(v, 1i128 << 63) {
                self.b(Bk::acc_nanos_edge_some)
            }
            if interesting(v) {
                self.loc.nontrivial(h2(1, hv(v)));
            }
        }
    }

    /// Display: parsed back by a tiny decimal reader, must denote exactly v/10^9 seconds.
    fn display(&mut self, v: i128, td: &TimeDelta) {
        let inp = || json!({"value_ns": s128(v), "raw": show(td)});
        let Some(s) = self.call("Display", inp, || td.to_string()) else { return };
        self.loc.eval();
        match read_duration_text(&s) {
            Ok(p) => {
                if p != v {
                    self.viol(format!("C06/Display/not-the-exact-value/{}", sign_class(v)), || json!({"input": inp(), "text": s, "text_denotes_ns": s128(p)}));
                }
            }
            Err(why) => {
                self.viol(format!("C06/Display/unreadable/{}", why), || json!({"input": inp(), "text": s}));
            }
        }
        if v == 0 {
            self.b(Bk::display_zero)
        } else if v % NS == 0 {
            self.b(Bk::display_whole)
        } else {
            if v < 0 {
                self.b(Bk::display_negative_fractional)
            }
            if v % 10 != 0 {
                self.b(Bk::display_nine_digits)
            } else {
                self.b(Bk::display_short_fraction)
            }
        }
        if v == MINN {
            self.b(Bk::display_at_min)
        }
        if v == MAXN {
            self.b(Bk::display_at_max)
        }
        if interesting(v) || v % 10 == 0 {
            self.loc.nontrivial(h2(2, hv(v)));
        }
        if self.sample_op == 3 && v % 1000 != 0 {
            self.loc.sample(|| json!({"op": "Display", "value_ns": s128(v), "text": s}));
        }
    }

    fn to_std(&mut self, v: i128, td: &TimeDelta) {
        let inp = || json!({"value_ns": s128(v), "raw": show(td)});
        let Some(r) = self.call("to_std", inp, || td.to_std()) else { return };
        self.loc.eval();
        match r {
            Ok(d) => {
                let g = d.as_secs() as i128 * NS + d.subsec_nanos() as i128;
                if v < 0 {
                    self.viol("C06/to_std/ok-for-negative".to_string(), || json!({"input": inp(), "observed": format!("{:?}", d)}));
                } else if g != v {
                    self.viol("C06/to_std/wrong-value".to_string(), || json!({"input": inp(), "observed": format!("{:?}", d)}));
                }
            }
            Err(_) => {
                if v >= 0 {
                    self.viol("C06/to_std/err-for-non-negative".to_string(), || json!({"input": inp()}));
                }
            }
        }
        if v < 0 {
            self.b(Bk::to_std_err);
            if v > -NS {
                self.b(Bk::to_std_err_subsecond_negative)
            }
        } else {
            self.b(Bk::to_std_ok);
            if v == 0 {
                self.b(Bk::to_std_zero)
            }
        }
        if interesting(v) {
            self.loc.nontrivial(h2(3, hv(v)));
        }
    }

    fn neg_abs(&mut self, v: i128, td: &TimeDelta) {
        let inp = || json!({"value_ns": s128(v), "raw": show(td)});
        if let Some(n) = self.call("neg", inp, || -*td) {
            self.value("neg", &inp, &n, -v);
        }
        if let Some(a) = self.call("abs", inp, || td.abs()) {
            self.value("abs", &inp, &a, v.abs());
        }
        if v == MINN {
            self.b(Bk::neg_of_min);
            self.b(Bk::abs_of_min);
        }
        if v == MAXN {
            self.b(Bk::neg_of_max)
        }
        if v % NS != 0 {
            self.b(Bk::neg_fractional);
            if v < 0 {
                self.b(Bk::abs_negative_fractional)
            }
        } else {
            self.b(Bk::neg_whole)
        }
        if v >= 0 {
            self.b(Bk::abs_nonnegative)
        }
        if interesting(v) {
            self.loc.nontrivial(h2(4, hv(v)));
        }
    }
}

/// `-?P(0D|T<digits>(.<digits>)?S)` -> exact ns; Err(reason) if the text has another shape or does
/// not denote a whole number of nanoseconds.
fn read_duration_text(s: &str) -> Result<i128, &'static str> {
    let b = s.as_bytes();
    let mut i = 0;
    let neg = b.first() == Some(&b'-');
    if neg {
        i += 1;
    }
    if b.get(i) != Some(&b'P') {
        return Err("no-P");
    }
    i += 1;
    if &b[i..] == b"0D" {
        return Ok(0);
    }
    if b.get(i) != Some(&b'T') {
        return Err("no-T");
    }
    i += 1;
    let start = i;
    let mut int: i128 = 0;
    while i < b.len() && b[i].is_ascii_digit() {
        if i - start > 20 {
            return Err("too-many-digits");
        }
        int = int * 10 + (b[i] - b'0') as i128;
        i += 1;
    }
    if i == start {
        return Err("no-integer-part");
    }
    let mut frac: i128 = 0;
    if b.get(i) == Some(&b'.') {
        i += 1;
        let fs = i;
        let mut scale = NS;
        while i < b.len() && b[i].is_ascii_digit() {
            let d = (b[i] - b'0') as i128;
            if scale > 1 {
                scale /= 10;
                frac += d * scale;
            } else if d != 0 {
                return Err("finer-than-nanoseconds");
            }
            i += 1;
        }
        if i == fs {
            return Err("empty-fraction");
        }
    }
    if b.get(i) != Some(&b'S') || i + 1 != b.len() {
        return Err("no-S-at-end");
    }
    let v = int * NS + frac;
    Ok(if neg { -v } else { v })
}

// ------------------------------------------------------------------------------------------------
// binary operations
// ------------------------------------------------------------------------------------------------

#[derive(Clone, Copy)]
struct V {
    ns: i128,
    td: TimeDelta,
}

impl<'a> Ck<'a> {
    /// checked_add, checked_sub of an ordered pair; `ops`: also the operator forms.
    fn add_sub(&mut self, a: &V, b: &V, ops: bool) {
        let inp = || json!({"a_ns": s128(a.ns), "b_ns": s128(b.ns), "a_raw": show(&a.td), "b_raw": show(&b.td)});
        let (x, y) = (&a.td, &b.td);
        // ---- add
        let e = a.ns + b.ns;
        if let Some(g) = self.call("checked_add", inp, || x.checked_add(y)) {
            self.option("checked_add", &inp, g, e);
            if self.sample_op == 5 && a.ns != 0 && b.ns % NS != 0 {
                self.loc.sample(|| json!({"op": "checked_add", "input": inp(), "exact_ns": s128(e), "observed": g.map(|t| show(&t))}));
            }
            if in_range(e) && self.loc_result_sampled(e) {
                if let Some(t) = g {
                    self.b(Bk::result_accessors);
                    self.accessors(e, &t, false);
                }
            }
        }
        let an = a.ns.rem_euclid(NS) + b.ns.rem_euclid(NS) >= NS;
        let mut nt = interesting(a.ns) || interesting(b.ns) || an;
        if in_range(e) {
            self.b(Bk::add_some);
            if e == MAXN {
                self.b(Bk::add_result_at_max)
            }
            if e == MINN {
                self.b(Bk::add_result_at_min)
            }
            nt |= interesting(e);
        } else {
            nt = true;
            if e > 0 {
                self.b(Bk::add_none_above);
                if e - MAXN <= 2 {
                    self.b(Bk::add_just_above_max)
                }
            } else {
                self.b(Bk::add_none_below);
                if MINN - e <= 2 {
                    self.b(Bk::add_just_below_min)
                }
            }
        }
        if an {
            self.b(Bk::add_nanos_carry)
        }
        if (a.ns < 0) != (b.ns < 0) && a.ns != 0 && b.ns != 0 {
            self.b(Bk::add_mixed_sign)
        }
        if nt {
            self.loc.nontrivial(h2(10, h2(hv(a.ns), hv(b.ns))));
        }
        // ---- sub
        let e2 = a.ns - b.ns;
        if let Some(g) = self.call("checked_sub", inp, || x.checked_sub(y)) {
            self.option("checked_sub", &inp, g, e2);
        }
        let bo = a.ns.rem_euclid(NS) < b.ns.rem_euclid(NS);
        let mut nt2 = interesting(a.ns) || interesting(b.ns) || bo;
        if in_range(e2) {
            self.b(Bk::sub_some);
            if e2 == MAXN {
                self.b(Bk::sub_result_at_max)
            }
            if e2 == MINN {
                self.b(Bk::sub_result_at_min)
            }
            if e2 == 0 {
                self.b(Bk::sub_equal_operands)
            }
            nt2 |= interesting(e2);
        } else {
            nt2 = true;
            if e2 > 0 {
                self.b(Bk::sub_none_above);
                if e2 - MAXN <= 2 {
                    self.b(Bk::sub_just_above_max)
                }
            } else {
                self.b(Bk::sub_none_below);
                if MINN - e2 <= 2 {
                    self.b(Bk::sub_just_below_min)
                }
            }
        }
        if bo {
            self.b(Bk::sub_nanos_borrow)
        }
        if nt2 {
            self.loc.nontrivial(h2(11, h2(hv(a.ns), hv(b.ns))));
        }
        if ops {
            self.b(Bk::operator_forms);
            // operator forms: compared when the exact result is in range; otherwise whatever they
            // return (if they return at all) must still pass the invariant monitor.
            let (p, q) = (*x, *y);
            let forms: [(&str, i128, Result<TimeDelta, _>); 4] = [
                ("add-operator", e, guard(|| p + q)),
                ("sub-operator", e2, guard(|| p - q)),
                ("add-assign-operator", e, guard(|| { let mut t = p; t += q; t })),
                ("sub-assign-operator", e2, guard(|| { let mut t = p; t -= q; t })),
            ];
            for (name, exact, r) in forms {
                match r {
                    Ok(t) => {
                        if in_range(exact) {
                            self.value(name, &inp, &t, exact);
                        } else if self.invariant(name, &inp, &t).is_some() {
                            self.viol(format!("C06/{}/returns-for-out-of-range-result", name), || json!({"input": inp(), "exact_ns": s128(exact), "observed_raw": show(&t)}));
                        }
                    }
                    Err(pi) => {
                        if in_range(exact) {
                            self.viol(format!("C06/{}/panic@{}", name, pi.site()), || json!({"input": inp(), "panic": pi.to_json()}));
                        }
                    }
                }
            }
            // an assigning form that refuses (panics) must not leave a value outside the range in
            // its left operand: the variable is still there after the unwinding
            if !in_range(e) || !in_range(e2) {
                let (mut t1, mut t2) = (p, p);
                let r1 = guard(|| t1 += q);
                let r2 = guard(|| t2 -= q);
                if r1.is_err() {
                    self.invariant("add-assign-operator/left-operand-after-refusal", &inp, &t1);
                }
                if r2.is_err() {
                    self.invariant("sub-assign-operator/left-operand-after-refusal", &inp, &t2);
                }
            }
        }
    }

    #[inline]
    fn loc_result_sampled(&mut self, e: i128) -> bool {
        (e as u64).wrapping_mul(0x9e3779b97f4a7c15) >> 61 == 0
    }

    fn order(&mut self, a: &V, b: &V) {
        let inp = || json!({"a_ns": s128(a.ns), "b_ns": s128(b.ns), "a_raw": show(&a.td), "b_raw": show(&b.td)});
        let (x, y) = (&a.td, &b.td);
        let e = a.ns.cmp(&b.ns);
        let Some((c, pc, eq, ne, lt, le, gt, ge)) =
            self.call("Ord", inp, || (x.cmp(y), x.partial_cmp(y), x == y, x != y, x < y, x <= y, x > y, x >= y))
        else {
            return;
        };
        self.loc.eval();
        let ok = c == e
            && pc == Some(e)
            && eq == (e == Ordering::Equal)
            && ne != eq
            && lt == (e == Ordering::Less)
            && le == (e != Ordering::Greater)
            && gt == (e == Ordering::Greater)
            && ge == (e != Ordering::Less);
        if !ok {
            self.viol("C06/Ord/disagrees-with-numeric-order".to_string(), || {
                json!({"input": inp(), "expected": format!("{:?}", e), "observed_cmp": format!("{:?}", c), "observed_partial_cmp": format!("{:?}", pc),
                       "eq": eq, "ne": ne, "lt": lt, "le": le, "gt": gt, "ge": ge})
            });
        }
        match e {
            Ordering::Less => self.b(Bk::cmp_less),
            Ordering::Equal => self.b(Bk::cmp_equal),
            Ordering::Greater => self.b(Bk::cmp_greater),
        }
        let same_floor = a.ns < 0 && b.ns < 0 && a.ns != b.ns && a.ns.div_euclid(NS) == b.ns.div_euclid(NS);
        if same_floor {
            self.b(Bk::cmp_same_floor_second_negative)
        }
        let opp = (a.ns < 0) != (b.ns < 0);
        if opp {
            self.b(Bk::cmp_opposite_sign)
        }
        if same_floor || opp || e == Ordering::Equal || (a.ns - b.ns).abs() < NS {
            self.loc.nontrivial(h2(12, h2(hv(a.ns), hv(b.ns))));
        }
    }

    fn mul(&mut self, a: &V, m: i32, ops: bool) {
        let inp = || json!({"a_ns": s128(a.ns), "a_raw": show(&a.td), "multiplier": m});
        let x = a.td;
        let e = a.ns * m as i128;
        if let Some(g) = self.call("checked_mul", inp, || x.checked_mul(m)) {
            self.option("checked_mul", &inp, g, e);
            if self.sample_op == 4 {
                self.loc.sample(|| json!({"op": "checked_mul", "input": inp(), "exact_ns": s128(e), "observed": g.map(|t| show(&t))}));
            }
        }
        let near = (e.abs() - MAXN).abs() <= 2 * (m as i128).abs().max(1);
        if in_range(e) {
            self.b(Bk::mul_some);
            if near && a.ns != 0 && m != 0 {
                self.b(Bk::mul_near_limit_inside)
            }
        } else {
            if e > 0 {
                self.b(Bk::mul_none_above)
            } else {
                self.b(Bk::mul_none_below)
            }
            if near {
                self.b(Bk::mul_near_limit_outside)
            }
        }
        if m == 0 {
            self.b(Bk::mul_by_zero)
        }
        if m < 0 {
            self.b(Bk::mul_by_negative)
        }
        if m == i32::MIN || m == i32::MAX {
            self.b(Bk::mul_by_i32_extreme)
        }
        let carry = (a.ns.rem_euclid(NS)) * (m as i128).abs() >= NS;
        if carry {
            self.b(Bk::mul_fraction_carry)
        }
        if near || !in_range(e) || interesting(a.ns) || interesting(e) || carry {
            self.loc.nontrivial(h2(13, h2(hv(a.ns), m as u64)));
        }
        if ops {
            match guard(|| x * m) {
                Ok(t) => {
                    if in_range(e) {
                        self.value("mul-operator", &inp, &t, e);
                    } else if self.invariant("mul-operator", &inp, &t).is_some() {
                        self.viol("C06/mul-operator/returns-for-out-of-range-result".to_string(), || json!({"input": inp(), "exact_ns": s128(e), "observed_raw": show(&t)}));
                    }
                }
                Err(pi) => {
                    if in_range(e) {
                        self.viol(format!("C06/mul-operator/panic@{}", pi.site()), || json!({"input": inp(), "panic": pi.to_json()}));
                    }
                }
            }
        }
    }

    fn div(&mut self, a: &V, d: i32, ops: bool) {
        let inp = || json!({"a_ns": s128(a.ns), "a_raw": show(&a.td), "divisor": d});
        let x = a.td;
        let Some(g) = self.call("checked_div", inp, || x.checked_div(d)) else { return };
        self.loc.eval();
        if self.sample_op == 6 && d != 0 {
            self.loc.sample(|| json!({"op": "checked_div", "input": inp(), "observed": g.map(|t| show(&t))}));
        }
        if d == 0 {
            self.b(Bk::div_by_zero);
            if let Some(t) = g {
                self.viol("C06/checked_div/some-for-zero-divisor".to_string(), || json!({"input": inp(), "observed_raw": show(&t)}));
            }
            self.loc.nontrivial(h2(14, h2(hv(a.ns), 0)));
        } else {
            match g {
                None => self.viol("C06/checked_div/none-for-nonzero-divisor".to_string(), || json!({"input": inp()})),
                Some(t) => {
                    if let Some(q) = self.invariant("checked_div", &inp, &t) {
                        // |q - v/d| < 2  <=>  |q*d - v| < 2*|d|
                        let err = (q * d as i128 - a.ns).abs();
                        if err >= 2 * (d as i128).abs() {
                            let cls = if (a.ns < 0) != (d < 0) { "negative-quotient" } else { "non-negative-quotient" };
                            self.viol(format!("C06/checked_div/off-by-two-ns-or-more/{}", cls), || {
                                json!({"input": inp(), "observed_ns": s128(q), "observed_raw": show(&t), "exact_quotient_floor_ns": s128(a.ns.div_euclid(d as i128))})
                            });
                        }
                    }
                }
            }
            let exact = a.ns % d as i128 == 0;
            if exact {
                self.b(Bk::div_exact)
            } else {
                self.b(Bk::div_inexact)
            }
            if d < 0 {
                self.b(Bk::div_by_negative)
            }
            if d == i32::MIN || d == i32::MAX {
                self.b(Bk::div_by_i32_extreme)
            }
            if a.ns < 0 && a.ns % NS != 0 {
                self.b(Bk::div_negative_fraction_dividend)
            }
            if d == -1 && (a.ns == MINN || a.ns == MAXN) {
                self.b(Bk::div_by_minus_one_of_extreme)
            }
            if !exact || d < 0 || interesting(a.ns) {
                self.loc.nontrivial(h2(14, h2(hv(a.ns), d as u64)));
            }
        }
        if ops {
            self.loc.eval();
            match guard(|| x / d) {
                Ok(t) => {
                    if d == 0 {
                        self.viol("C06/div-operator/returns-for-zero-divisor".to_string(), || json!({"input": inp(), "observed_raw": show(&t)}));
                    } else if let Some(q) = self.invariant("div-operator", &inp, &t) {
                        if Some(q) != g.map(|t| raw_ns(&t).0) {
                            self.viol("C06/div-operator/differs-from-checked_div".to_string(), || json!({"input": inp(), "observed_ns": s128(q)}));
                        }
                    }
                }
                Err(pi) => {
                    if d != 0 {
                        self.viol(format!("C06/div-operator/panic@{}", pi.site()), || json!({"input": inp(), "panic": pi.to_json()}));
                    }
                }
            }
        }
    }
}

// ------------------------------------------------------------------------------------------------
// constructors
// ------------------------------------------------------------------------------------------------

const MAX_SECS: i64 = 9_223_372_036_854_775; // floor(MAXN / 10^9)
const MIN_SECS: i64 = -9_223_372_036_854_776; // floor(MINN / 10^9)

type TryCtor = fn(i64) -> Option<TimeDelta>;
type Ctor = fn(i64) -> TimeDelta;

/// (name of try form, name of panicking form, ns per unit, try form, panicking form)
fn unit_ctors() -> Vec<(&'static str, &'static str, i128, Option<TryCtor>, Ctor)> {
    vec![
        ("try_weeks", "weeks", 604_800 * NS, Some(TimeDelta::try_weeks as TryCtor), TimeDelta::weeks as Ctor),
        ("try_days", "days", 86_400 * NS, Some(TimeDelta::try_days as TryCtor), TimeDelta::days as Ctor),
        ("try_hours", "hours", 3_600 * NS, Some(TimeDelta::try_hours as TryCtor), TimeDelta::hours as Ctor),
        ("try_minutes", "minutes", 60 * NS, Some(TimeDelta::try_minutes as TryCtor), TimeDelta::minutes as Ctor),
        ("try_seconds", "seconds", NS, Some(TimeDelta::try_seconds as TryCtor), TimeDelta::seconds as Ctor),
        ("try_milliseconds", "milliseconds", 1_000_000, Some(TimeDelta::try_milliseconds as TryCtor), TimeDelta::milliseconds as Ctor),
        ("-", "microseconds", 1_000, None, TimeDelta::microseconds as Ctor),
        ("-", "nanoseconds", 1, None, TimeDelta::nanoseconds as Ctor),
    ]
}

impl<'a> Ck<'a> {
    fn ctor_new(&mut self, secs: i64, nanos: u32) {
        let inp = || json!({"secs": secs, "nanos": nanos});
        let Some(g) = self.call("new", inp, || TimeDelta::new(secs, nanos)) else { return };
        let e = secs as i128 * NS + nanos as i128;
        if nanos >= 1_000_000_000 {
            // rustdoc: None. The statement only demands exact-or-failure, so a (normalised, exact,
            // in-range) value would also satisfy it; anything else is a violation.
            self.loc.eval();
            self.b(Bk::new_nanos_ge_1e9);
            if let Some(t) = g {
                if let Some(v) = self.invariant("new", &inp, &t) {
                    if v != e {
                        self.viol("C06/new/wrong-value/nanos-ge-1e9".to_string(), || json!({"input": inp(), "observed_raw": show(&t)}));
                    }
                }
            }
        } else {
            self.option("new", &inp, g, e);
            if self.sample_op == 1 && (secs == MIN_SECS || secs == MAX_SECS) && nanos > 2 {
                self.loc.sample(|| json!({"op": "new", "input": inp(), "exact_ns": s128(e), "observed": g.map(|t| show(&t))}));
            }
            if in_range(e) {
                self.b(Bk::new_some);
                if e == MINN {
                    self.b(Bk::new_at_min)
                }
                if e == MAXN {
                    self.b(Bk::new_at_max)
                }
            } else if e < 0 {
                self.b(Bk::new_none_below);
                if e == MINN - 1 {
                    self.b(Bk::new_min_minus_1ns)
                }
            } else {
                self.b(Bk::new_none_above);
                if e == MAXN + 1 {
                    self.b(Bk::new_max_plus_1ns)
                }
            }
        }
        if secs == i64::MIN || secs == i64::MAX {
            self.b(Bk::new_secs_i64_extreme)
        }
        if !in_range(e) || interesting(e) || nanos >= 1_000_000_000 {
            self.loc.nontrivial(h2(20, h2(secs as u64, nanos as u64)));
        }
    }

    fn ctor_unit(&mut self, idx: usize, c: &(&'static str, &'static str, i128, Option<TryCtor>, Ctor), x: i64, panicking: bool) {
        let (tname, pname, unit, tryf, pf) = *c;
        let inp = || json!({"argument": x});
        let e = x as i128 * unit;
        if let Some(f) = tryf {
            if let Some(g) = self.call(tname, inp, || f(x)) {
                self.option(tname, &inp, g, e);
                if self.sample_op == 2 {
                    self.loc.sample(|| json!({"op": tname, "input": inp(), "exact_ns": s128(e), "observed": g.map(|t| show(&t))}));
                }
            }
        }
        if panicking || tryf.is_none() {
            match guard(|| pf(x)) {
                Ok(t) => {
                    self.b(Bk::panicking_form_returns);
                    if in_range(e) {
                        self.value(pname, &inp, &t, e);
                    } else if self.invariant(pname, &inp, &t).is_some() {
                        self.viol(format!("C06/{}/returns-for-out-of-range-argument", pname), || json!({"input": inp(), "observed_raw": show(&t)}));
                    }
                }
                Err(pi) => {
                    self.b(Bk::panicking_form_panics);
                    if in_range(e) {
                        self.viol(format!("C06/{}/panic@{}", pname, pi.site()), || json!({"input": inp(), "panic": pi.to_json()}));
                    }
                }
            }
        }
        if in_range(e) {
            self.b(Bk::unit_some);
            if tryf.is_some() && (MAXN - e.abs()) < unit {
                self.b(Bk::unit_at_limit)
            }
        } else {
            if e < 0 {
                self.b(Bk::unit_none_below)
            } else {
                self.b(Bk::unit_none_above)
            }
            if e.abs() - MAXN <= unit {
                self.b(Bk::unit_just_outside_limit)
            }
            if idx < 4 && fit(x as i128 * (unit / NS)).is_none() {
                self.b(Bk::unit_i64_product_overflow)
            }
        }
        if pname == "milliseconds" {
            if x == i64::MIN {
                self.b(Bk::millis_i64_min)
            }
            if x == -i64::MAX {
                self.b(Bk::millis_neg_i64_max)
            }
        }
        if pname == "microseconds" {
            if x < 0 && x % 1_000_000 != 0 {
                self.b(Bk::micros_negative_fraction)
            }
            if x == i64::MIN || x == i64::MAX {
                self.b(Bk::micros_i64_extreme)
            }
        }
        if pname == "nanoseconds" {
            if x < 0 && x % 1_000_000_000 != 0 {
                self.b(Bk::nanos_negative_fraction)
            }
            if x == i64::MIN || x == i64::MAX {
                self.b(Bk::nanos_i64_extreme)
            }
        }
        if !in_range(e) || interesting(e) || (MAXN - e.abs()) < 2 * unit {
            self.loc.nontrivial(h2(21 + idx as u64, x as u64));
        }
    }

    fn from_std(&mut self, secs: u64, nanos: u32) {
        let d = Duration::new(secs, nanos); // nanos < 10^9: no carry
        let inp = || json!({"std_secs": secs, "std_nanos": nanos});
        let e = secs as i128 * NS + nanos as i128;
        let Some(r) = self.call("from_std", inp, || TimeDelta::from_std(d)) else { return };
        self.option("from_std", &inp, r.ok(), e);
        if in_range(e) {
            self.b(Bk::from_std_ok);
            if e == MAXN {
                self.b(Bk::from_std_at_max)
            }
        } else {
            self.b(Bk::from_std_err);
            if e == MAXN + 1 {
                self.b(Bk::from_std_max_plus_1ns)
            }
            if secs > i64::MAX as u64 {
                self.b(Bk::from_std_secs_above_i64)
            }
        }
        if !in_range(e) || interesting(e) {
            self.loc.nontrivial(h2(30, h2(secs, nanos as u64)));
        }
    }

    /// Sum over a list (both impls). Compared when every prefix sum is in range (the fold uses `+`).
    fn sum(&mut self, items: &[V]) {
        let inp = || json!({"items_ns": items.iter().map(|v| s128(v.ns)).collect::<Vec<_>>()});
        let mut acc: i128 = 0;
        let mut all_in = true;
        for v in items {
            acc += v.ns;
            all_in &= in_range(acc);
        }
        let by_val = guard(|| items.iter().map(|v| v.td).sum::<TimeDelta>());
        let tds: Vec<TimeDelta> = items.iter().map(|v| v.td).collect();
        let by_ref = guard(|| tds.iter().sum::<TimeDelta>());
        for (name, r) in [("Sum<TimeDelta>", by_val), ("Sum<&TimeDelta>", by_ref)] {
            match r {
                Ok(t) => {
                    if all_in {
                        self.value(name, &inp, &t, acc);
                    } else {
                        let _ = self.invariant(name, &inp, &t);
                    }
                }
                Err(pi) => {
                    if all_in {
                        self.viol(format!("C06/{}/panic@{}", name, pi.site()), || json!({"input": inp(), "panic": pi.to_json()}));
                    }
                }
            }
        }
        if items.is_empty() {
            self.b(Bk::sum_empty)
        }
        if all_in {
            self.b(Bk::sum_in_range)
        } else {
            self.b(Bk::sum_prefix_out_of_range)
        }
        let mut h = 40u64;
        for v in items {
            h = h2(h, hv(v.ns));
        }
        self.loc.nontrivial(h);
    }
}

// ------------------------------------------------------------------------------------------------
// workload
// ------------------------------------------------------------------------------------------------

/// Boundary values in ns, from the statement: zero and sign changes, second carries, unit sizes,
/// the i64 limits of the ns/µs/ms counts, the range ends; all with ±{0,1,2} ns neighbourhoods.
fn catalogue_ns() -> Vec<i128> {
    let mut base: Vec<i128> = vec![0, 1_000, 1_000_000, 500_000_000, NS, NS + NS / 2, 2 * NS, 60 * NS, 3_600 * NS, 86_400 * NS, 604_800 * NS];
    base.push(1i128 << 31);
    base.push(1i128 << 32);
    base.push((1i128 << 31) * NS);
    base.push((1i128 << 32) * NS);
    base.push(1i128 << 53);
    base.push(1i128 << 62);
    base.push(1i128 << 63); // i64 ns limit
    base.push(1i128 << 64);
    base.push((1i128 << 63) * 1000); // i64 µs limit
    base.push(I64MAX * 1000);
    base.push(MAXN);
    base.push(MAXN - 1_000_000);
    base.push(MAXN - 807_000_000); // whole seconds just inside
    base.push(MAXN - 807_000_000 - NS);
    base.push(MAX_SECS as i128 * NS + NS); // whole second just outside
    base.push(MAXN / 2);
    base.push(MAXN / 2 + 1);
    base.push(MAXN / 3);
    base.push(MAXN / 7);
    base.push(MAXN / 1000);
    base.push(MAXN / (i32::MAX as i128));
    base.push(MAXN / (1i128 << 31));
    base.push(123_456_789_012_345_678);
    base.push(987_654_321);
    base.push(100_000_000);
    base.push(120_000_000_000 + 500_000_000);
    let mut v = Vec::new();
    for b in base {
        for k in -2..=2i128 {
            v.push(b + k);
            v.push(-b + k);
        }
    }
    for b in [NS, 60 * NS, 86_400 * NS, MAXN - 807_000_000] {
        for k in [999_999_999i128, 999_999_000, 999_000_000, 1_000_000, 1_000, 999, 193_000_000, 807_000_000] {
            v.push(b + k);
            v.push(-b - k);
            v.push(-b + k);
        }
    }
    v.retain(|x| in_range(*x));
    v.sort();
    v.dedup();
    v
}

fn catalogue_i32() -> Vec<i32> {
    let mut v = vec![0, 1, -1, 2, -2, 3, -3, 7, -7, 10, -10, 60, -60, 1000, -1000, 1_000_000, -1_000_000, 1_000_000_000, -1_000_000_000,
        i32::MIN, i32::MIN + 1, i32::MAX, i32::MAX - 1, 65_535, 65_536, 65_537, -65_535, -65_536, -65_537, 999_999_999, 1_000_000_001, 2_000_000_000, -2_000_000_000];
    v.sort();
    v.dedup();
    v
}

fn rand_i32(rng: &mut Rng, cat: &[i32]) -> i32 {
    match rng.below(8) {
        0..=1 => *rng.pick(cat),
        2..=3 => rng.range(-20, 20) as i32,
        4 => rng.log_i64(31).clamp(i32::MIN as i64, i32::MAX as i64) as i32,
        5 => (*rng.pick(cat) as i64 + rng.range(-2, 2)).clamp(i32::MIN as i64, i32::MAX as i64) as i32,
        _ => rng.next() as i32,
    }
}

fn rand_ns(rng: &mut Rng, cat: &[i128]) -> i128 {
    let v = match rng.below(12) {
        0..=1 => rng.range128(MINN, MAXN),
        2..=3 => {
            // log-uniform magnitude below 2^83
            let bits = rng.below(84) as u32;
            let r = ((rng.next() as u128) << 64) | rng.next() as u128;
            let mag = if bits == 0 { 0 } else { (r >> (128 - bits)) as i128 };
            if rng.chance(1, 2) { -mag } else { mag }
        }
        4 => *rng.pick(cat) + rng.range(-3, 3) as i128,
        5 => *rng.pick(cat),
        6 => rng.log_i64(53) as i128 * NS,
        7 => {
            let m = MAXN - rng.log_u64(44) as i128;
            if rng.chance(1, 2) { -m } else { m }
        }
        8 => {
            let fr = *rng.pick(&[0i128, 1, 999_999_999, 500_000_000, 193_000_000, 807_000_000, 1_000_000, 999_000_000, 1_000, 999_999_000]);
            rng.log_i64(53) as i128 * NS + if rng.chance(1, 2) { fr } else { -fr }
        }
        9 => {
            let lim = if rng.chance(1, 2) { 1i128 << 63 } else { (1i128 << 63) * 1000 };
            let x = lim + rng.log_i64(22) as i128;
            if rng.chance(1, 2) { -x } else { x }
        }
        10 => rng.log_i64(40) as i128,
        _ => rng.range(MIN_SECS, MAX_SECS) as i128 * NS + gen::random_frac(rng) as i128,
    };
    v.clamp(MINN, MAXN)
}

fn build_values(ctx: &Ctx, rep: &Report, n: usize, stream: u64) -> Vec<V> {
    let cat = catalogue_ns();
    let mut rng = Rng::new(ctx.seed, "C06/values", stream);
    let mut out: Vec<V> = Vec::with_capacity(n);
    let push = |ns: i128, out: &mut Vec<V>| match mk(ns) {
        Some(td) => out.push(V { ns, td }),
        None => rep.violation(
            "C06/new/none-or-wrong-value-for-in-range-input",
            json!({"entry": "new", "input": {"secs": ns.div_euclid(NS) as i64, "nanos": ns.rem_euclid(NS) as u32}, "value_ns": s128(ns)}),
        ),
    };
    for &c in &cat {
        push(c, &mut out);
    }
    let mut tries = 0usize;
    while out.len() < n && tries < 4 * n {
        tries += 1;
        let v = rand_ns(&mut rng, &cat);
        push(v, &mut out);
    }
    out
}

// ------------------------------------------------------------------------------------------------
// phases
// ------------------------------------------------------------------------------------------------

fn phase_constructors(ctx: &Ctx, rep: &Report) {
    let i64cat = gen::catalogue_i64();
    let units = unit_ctors();
    // deterministic part (one shard)
    {
        let mut ck = Ck::new(rep).sampling(1, true);
        let mut secs: Vec<i64> = i64cat.clone();
        for k in -2..=2 {
            secs.push(MIN_SECS + k);
            secs.push(MAX_SECS + k);
        }
        let nanos: Vec<u32> = vec![
            0, 1, 2, 192_999_999, 193_000_000, 193_000_001, 499_999_999, 500_000_000, 806_999_999, 807_000_000, 807_000_001, 999_999_998,
            999_999_999, 1_000_000_000, 1_000_000_001, 1_193_000_000, 1_807_000_000, 2_000_000_000, i32::MAX as u32, i32::MAX as u32 + 1,
            i32::MAX as u32 + 2, 3_000_000_000, u32::MAX - 1, u32::MAX,
        ];
        for &s in &secs {
            for &n in &nanos {
                ck.ctor_new(s, n);
            }
        }
        for (idx, c) in units.iter().enumerate() {
            let unit = c.2;
            let mut args = i64cat.clone();
            for lim in [MAXN / unit, -(MAXN / unit)] {
                for k in -2..=2i128 {
                    if let Some(x) = fit(lim + k) {
                        args.push(x);
                    }
                }
            }
            if unit >= NS {
                let spu = (unit / NS) as i64;
                for k in -2..=2i64 {
                    args.extend((i64::MAX / spu).checked_add(k));
                    args.extend((i64::MIN / spu).checked_add(k));
                }
            }
            args.sort();
            args.dedup();
            for &x in &args {
                ck.ctor_unit(idx, c, x, true);
            }
        }
        // std::time::Duration
        let mut ss: Vec<u64> = vec![0, 1, 2, 59, 60, MAX_SECS as u64 - 1, MAX_SECS as u64, MAX_SECS as u64 + 1, MAX_SECS as u64 + 2, i64::MAX as u64 - 1,
            i64::MAX as u64, i64::MAX as u64 + 1, i64::MAX as u64 + 2, u64::MAX - 1, u64::MAX, 1 << 32, 1 << 53, (-(MIN_SECS as i128)) as u64];
        ss.sort();
        ss.dedup();
        for &s in &ss {
            for &n in &[0u32, 1, 193_000_000, 500_000_000, 806_999_999, 807_000_000, 807_000_001, 999_999_999] {
                ck.from_std(s, n);
            }
        }
        // constants
        let inp = || json!("constants");
        ck.value("MAX", &inp, &TimeDelta::MAX, MAXN);
        ck.value("MIN", &inp, &TimeDelta::MIN, MINN);
        ck.value("zero", &inp, &TimeDelta::zero(), 0);
        ck.value("default", &inp, &TimeDelta::default(), 0);
        #[allow(deprecated)]
        {
            ck.value("max_value", &inp, &TimeDelta::max_value(), MAXN);
            ck.value("min_value", &inp, &TimeDelta::min_value(), MINN);
        }
    }
    // random part
    let total = ctx.n(2_000_000, 60_000_000);
    let n_shards = 64usize;
    let per = total / n_shards as u64;
    par_shards(rep, ctx.threads, n_shards, |shard| {
        let mut rng = Rng::new(ctx.seed, "C06/ctors", shard as u64);
        let mut ck = Ck::new(rep).sampling(2, shard == 0);
        let units = unit_ctors();
        for _ in 0..per {
            match rng.below(10) {
                0..=3 => {
                    let s = match rng.below(8) {
                        0 => *rng.pick(&i64cat),
                        1 => MIN_SECS + rng.range(-3, 3),
                        2 => MAX_SECS + rng.range(-3, 3),
                        3 => rng.next() as i64,
                        4 => rng.log_i64(63),
                        _ => rng.range(MIN_SECS - 1000, MAX_SECS + 1000),
                    };
                    let n = match rng.below(8) {
                        0 => rng.next() as u32,
                        1 => 1_000_000_000 + rng.below(5) as u32,
                        2 => *rng.pick(&[0u32, 1, 192_999_999, 193_000_000, 193_000_001, 806_999_999, 807_000_000, 807_000_001, 999_999_999]),
                        _ => gen::random_frac(&mut rng) as u32,
                    };
                    ck.ctor_new(s, n);
                }
                4..=7 => {
                    let idx = rng.below(units.len() as u64) as usize;
                    let c = &units[idx];
                    let lim = MAXN / c.2;
                    let x = match rng.below(8) {
                        0 => *rng.pick(&i64cat),
                        1..=2 => fit((if rng.chance(1, 2) { lim } else { -lim }) + rng.range(-1000, 1000) as i128).unwrap_or(i64::MAX),
                        3 => rng.next() as i64,
                        4 => fit(rng.range128(-2 * lim.min(I64MAX / 2), 2 * lim.min(I64MAX / 2))).unwrap_or(0),
                        _ => rng.log_i64(63),
                    };
                    ck.ctor_unit(idx, c, x, rng.chance(1, 16));
                }
                _ => {
                    let s = match rng.below(6) {
                        0 => MAX_SECS as u64 + rng.below(5) - 2,
                        1 => rng.next(),
                        2 => i64::MAX as u64 + rng.below(5) - 2,
                        _ => rng.log_u64(64),
                    };
                    let n = match rng.below(3) {
                        0 => *rng.pick(&[0u32, 1, 806_999_999, 807_000_000, 807_000_001, 999_999_999]),
                        _ => gen::random_frac(&mut rng) as u32,
                    };
                    ck.from_std(s, n);
                }
            }
        }
    });
}

/// One value: accessors, text, to_std, neg/abs, × every catalogue multiplier/divisor.
fn phase_unary(ctx: &Ctx, rep: &Report, vals: &[V]) {
    let i32cat = catalogue_i32();
    let n_shards = 64usize;
    par_shards(rep, ctx.threads, n_shards, |shard| {
        let mut ck = Ck::new(rep).sampling(3, shard == 0);
        let mut i = shard;
        while i < vals.len() {
            let a = &vals[i];
            ck.accessors(a.ns, &a.td, true);
            ck.display(a.ns, &a.td);
            ck.to_std(a.ns, &a.td);
            ck.neg_abs(a.ns, &a.td);
            for &m in &i32cat {
                ck.mul(a, m, true);
                ck.div(a, m, true);
            }
            i += n_shards;
        }
    });
    let _ = ctx;
}

/// All ordered pairs of the value list.
fn phase_pairs(ctx: &Ctx, rep: &Report, vals: &[V]) {
    let n = vals.len();
    let n_shards = 256usize.min(n.max(1));
    par_shards(rep, ctx.threads, n_shards, |shard| {
        let mut ck = Ck::new(rep).sampling(5, shard == 7);
        let mut i = shard;
        while i < n {
            let a = &vals[i];
            for (j, b) in vals.iter().enumerate() {
                let ops = (i + j) % 61 == 0;
                ck.add_sub(a, b, ops);
                ck.order(a, b);
            }
            i += n_shards;
        }
    });
    let _ = ctx;
}

/// Operands constructed so that the exact result lands on / next to a range end.
fn phase_targeted(ctx: &Ctx, rep: &Report, vals: &[V]) {
    let n_shards = 64usize;
    let i32cat = catalogue_i32();
    let reps = ctx.n(6, 60) as usize;
    par_shards(rep, ctx.threads, n_shards, |shard| {
        let mut ck = Ck::new(rep).sampling(4, shard == 0);
        let mut rng = Rng::new(ctx.seed, "C06/targeted", shard as u64);
        let mut i = shard;
        while i < vals.len() {
            let a = &vals[i];
            for t in [MAXN, MINN] {
                for k in -2..=2i128 {
                    // a + b = t + k
                    if let Some(td) = mk(t + k - a.ns) {
                        ck.add_sub(a, &V { ns: t + k - a.ns, td }, k == 0);
                    }
                    // a - b = t + k
                    if let Some(td) = mk(a.ns - (t + k)) {
                        ck.add_sub(a, &V { ns: a.ns - (t + k), td }, false);
                    }
                }
            }
            // multiplier such that a*m straddles a range end
            if a.ns != 0 {
                let m0 = MAXN / a.ns;
                for k in -2..=2i128 {
                    for s in [1i128, -1] {
                        let m = s * m0 + k;
                        if m >= i32::MIN as i128 && m <= i32::MAX as i128 && m != 0 {
                            ck.mul(a, m as i32, false);
                        }
                    }
                }
            }
            // value such that v*m straddles a range end, for catalogue and random multipliers
            for r in 0..reps {
                let m = if r == 0 { i32cat[(i / n_shards) % i32cat.len()] } else { rand_i32(&mut rng, &i32cat) };
                if m == 0 {
                    continue;
                }
                let t = if rng.chance(1, 2) { MAXN } else { MINN };
                let q = t / m as i128;
                for k in -2..=2i128 {
                    if let Some(td) = mk(q + k) {
                        let v = V { ns: q + k, td };
                        ck.mul(&v, m, k == 0);
                        ck.div(&v, m, false);
                    }
                }
            }
            i += n_shards;
        }
    });
}

/// Fresh random values per shard: every operation.
fn phase_random(ctx: &Ctx, rep: &Report) {
    let total = ctx.n(4_000_000, 80_000_000);
    let n_shards = 128usize;
    let per = total / n_shards as u64;
    let cat = catalogue_ns();
    let i32cat = catalogue_i32();
    par_shards(rep, ctx.threads, n_shards, |shard| {
        let mut ck = Ck::new(rep).sampling(6, shard == 0);
        let mut rng = Rng::new(ctx.seed, "C06/random", shard as u64);
        for it in 0..per {
            let (x, y) = (rand_ns(&mut rng, &cat), rand_ns(&mut rng, &cat));
            let (Some(tx), Some(ty)) = (mk(x), mk(y)) else {
                rep.violation("C06/new/none-or-wrong-value-for-in-range-input", json!({"values_ns": [s128(x), s128(y)]}));
                continue;
            };
            let (a, b) = (V { ns: x, td: tx }, V { ns: y, td: ty });
            let ops = it % 32 == 0;
            ck.add_sub(&a, &b, ops);
            ck.order(&a, &b);
            // related operand: same floor second / tiny difference
            if it % 4 == 0 {
                let z = (x + rng.range(-1_500_000_000, 1_500_000_000) as i128).clamp(MINN, MAXN);
                if let Some(tz) = mk(z) {
                    let c = V { ns: z, td: tz };
                    ck.order(&a, &c);
                    ck.add_sub(&a, &c, false);
                }
            }
            let m = rand_i32(&mut rng, &i32cat);
            ck.mul(&a, m, ops);
            let d = rand_i32(&mut rng, &i32cat);
            ck.div(&a, d, ops);
            ck.accessors(x, &a.td, true);
            ck.neg_abs(x, &a.td);
            if it % 4 == 1 {
                ck.display(x, &a.td);
                ck.to_std(x, &a.td);
            }
        }
    });
}

fn phase_sum(ctx: &Ctx, rep: &Report) {
    let total = ctx.n(400_000, 8_000_000);
    let n_shards = 32usize;
    let per = total / n_shards as u64;
    let cat = catalogue_ns();
    par_shards(rep, ctx.threads, n_shards, |shard| {
        let mut ck = Ck::new(rep);
        let mut rng = Rng::new(ctx.seed, "C06/sum", shard as u64);
        if shard == 0 {
            ck.sum(&[]);
            // (if `new` refuses one of these, that is reported by the constructor phase)
            if let (Some(mx), Some(mn), Some(one)) = (mk(MAXN), mk(MINN), mk(1)) {
                let (vmx, vmn, v1) = (V { ns: MAXN, td: mx }, V { ns: MINN, td: mn }, V { ns: 1, td: one });
                ck.sum(&[vmx, vmn, vmx]);
                ck.sum(&[vmx, v1, vmn]);
                ck.sum(&[vmn, vmx, vmn, vmx]);
            }
        }
        for _ in 0..per {
            let k = rng.below(7) as usize;
            let small = rng.chance(2, 3);
            let mut items = Vec::with_capacity(k);
            for _ in 0..k {
                let v = if small { (rand_ns(&mut rng, &cat) / 8).clamp(MINN, MAXN) } else { rand_ns(&mut rng, &cat) };
                if let Some(td) = mk(v) {
                    items.push(V { ns: v, td });
                }
            }
            ck.sum(&items);
        }
    });
}

// ------------------------------------------------------------------------------------------------
// oracle self-test and entry point
// ------------------------------------------------------------------------------------------------

fn self_test() -> Result<(), String> {
    // range ends as stated: ±(2^63−1) ms; MIN is −9223372036854776 s + 193 ms
    if MAXN != 9_223_372_036_854_775_807_000_000 || MINN != MIN_SECS as i128 * NS + 193_000_000 || MAXN != MAX_SECS as i128 * NS + 807_000_000 {
        return Err("C06 self-test: range constants".into());
    }
    if MAXN != refinst::TD_MAX_NS || MINN != refinst::TD_MIN_NS {
        return Err("C06 self-test: disagreement with refinst range".into());
    }
    // raw route against the derived Debug text
    // (mid-range values only: whether `new` accepts the range ends is a subject of the check, not of the self-test)
    for (s, n) in [(0i64, 0u32), (5, 7), (-1, 999_999_999), (MAX_SECS - 1, 807_000_000), (MIN_SECS + 1, 193_000_000), (-123, 1)] {
        let td = TimeDelta::new(s, n).ok_or("C06 self-test: new refused a reference value")?;
        if raw(&td) != (s, n as i32) {
            return Err(format!("C06 self-test: raw route reads {:?} for ({}, {})", raw(&td), s, n));
        }
        let dbg = format!("{:?}", td);
        // (field order in the text is not the oracle's business)
        let has = |f: &str| dbg.contains(&format!("{} ", f)) || dbg.contains(&format!("{},", f));
        if !has(&format!("secs: {}", s)) || !has(&format!("nanos: {}", n)) {
            return Err(format!("C06 self-test: Debug text {} for ({}, {})", dbg, s, n));
        }
    }
    // text reader
    let cases: [(&str, Result<i128, ()>); 12] = [
        ("P0D", Ok(0)),
        ("PT1S", Ok(NS)),
        ("-PT1S", Ok(-NS)),
        ("PT0.001S", Ok(1_000_000)),
        ("-PT0.000000001S", Ok(-1)),
        ("PT9223372036854775.807S", Ok(MAXN)),
        ("PT1.50S", Ok(1_500_000_000)),
        ("PT1.S", Err(())),
        ("PT.5S", Err(())),
        ("PT1.0000000001S", Err(())),
        ("T1S", Err(())),
        ("PT1S ", Err(())),
    ];
    for (t, e) in cases {
        let g = read_duration_text(t);
        if g.map_err(|_| ()) != e {
            return Err(format!("C06 self-test: reader on {:?}", t));
        }
    }
    // truncation conventions of the i128 oracle
    if -1_500_000_000i128 / NS != -1 || -1_500_000_000i128 % NS != -500_000_000 || (-1i128).div_euclid(NS) != -1 || (-1i128).rem_euclid(NS) != 999_999_999 {
        return Err("C06 self-test: integer conventions".into());
    }
    Ok(())
}

pub fn run(ctx: &Ctx) -> Outcome {
    let rep = Report::with_bitmap_bits("C06", B, FLOOR, ctx.tier.pick(28, 30));
    if let Err(e) = self_test() {
        rep.harness_error(e);
        return rep.finish(ctx, "self-test failed", &[]);
    }
    // The TimeDelta part of the shared R-inst self-test exercises `TimeDelta::new`, MIN, MAX and the
    // accessors, i.e. subjects of this very property: a failure there must not turn a violation into
    // "inconclusive". It is a harness error only if the monitors below do not explain it.
    let shared = refinst::self_test();
    if let Err(e) = &shared {
        if !(e.contains("TimeDelta") || e.contains("td_ns")) {
            rep.harness_error(e.clone());
            return rep.finish(ctx, "self-test failed", &[]);
        }
    }
    let n_vals = ctx.n(3_000, 10_000) as usize;
    let vals = build_values(ctx, &rep, n_vals, 0);
    rep.set_extra("value_list_len", json!(vals.len()));
    rep.set_extra("catalogue_len", json!(catalogue_ns().len()));
    phase_constructors(ctx, &rep);
    phase_unary(ctx, &rep, &vals);
    phase_targeted(ctx, &rep, &vals);
    phase_pairs(ctx, &rep, &vals);
    phase_random(ctx, &rep);
    phase_sum(ctx, &rep);
    if let Err(e) = shared {
        if rep.n_violation_signatures() == 0 {
            rep.harness_error(format!("{} (and no C06 monitor fired)", e));
        } else {
            rep.note(format!("shared self-test failed on a TimeDelta subject: {}", e));
        }
    }
    rep.finish(
        ctx,
        "values are exact i128 nanosecond counts: a specification-derived catalogue (zero, sign changes, second carries, unit sizes, i64 limits of the ns/us/ms counts, range ends, each +-0..2 ns) plus seeded random values (uniform, log-uniform, near-limit, whole seconds +- special fractions); every value: all accessors, Display, to_std, neg, abs, x every catalogue multiplier/divisor; all ordered pairs of the value list: checked_add, checked_sub, Ord (operator forms on 1/61); targeted operands whose exact sum/difference/product lands within 2 units of a range end; constructors on (secs,nanos) and i64 catalogues x neighbourhoods plus random; std Durations around the limits; Sum over random lists. A case is non-trivial if an operand or the exact result is negative with a sub-second part, within 2 s of a range end or of the i64 ns/us limits, is 0 or +-1 ns, the outcome is a refusal, or a nanosecond carry/borrow/inexact quotient occurs; distinct = distinct (operation, operands) among those (hashed bitmap, collisions under-count)",
        &[
            "raw state of a TimeDelta is read through its Serialize impl (tuple secs,nanos via bincode); cross-checked against the derived Debug text at the start of every run",
            "inputs are built with TimeDelta::new and verified through the raw route before use",
            "new(secs, nanos >= 10^9): None (rustdoc) or the exact normalised value are both accepted, since the statement only says exact-or-refused",
            "to_std must succeed for every non-negative value (rustdoc: errors when less than zero)",
            "operator forms (+, -, *, +=, -=, Sum) are compared only when every exact intermediate result is in range; otherwise only the range invariant applies to whatever they return",
        ],
    )
}
