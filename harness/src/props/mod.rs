use crate::mon::{Ctx, Outcome};

pub mod c01;
pub mod c02;
pub mod c03;
pub mod c04;
pub mod c05;
pub mod c06;
pub mod c07;
pub mod c08;
pub mod c09;
pub mod c10;
pub mod c11;
pub mod c12;
pub mod c13;
pub mod c14;
pub mod c15;
pub mod c16;
pub mod c17;
pub mod c18;
pub mod c19;
pub mod c20;
pub mod twins;
pub mod tzchild;

pub const ALL: &[&str] = &["C01", "C02", "C03", "C04", "C05", "C06", "C07", "C08", "C09", "C10", "C11", "C12", "C13", "C14", "C15", "C16", "C17", "C18", "C19", "C20"];

pub fn run(ctx: &Ctx) -> Option<Outcome> {
    match ctx.prop.as_str() {
        "C01" => Some(c01::run(ctx)),
        "C02" => Some(c02::run(ctx)),
        "C03" => Some(c03::run(ctx)),
        "C04" => Some(c04::run(ctx)),
        "C05" => Some(c05::run(ctx)),
        "C06" => Some(c06::run(ctx)),
        "C07" => Some(c07::run(ctx)),
        "C08" => Some(c08::run(ctx)),
        "C09" => Some(c09::run(ctx)),
        "C10" => Some(c10::run(ctx)),
        "C11" => Some(c11::run(ctx)),
        "C12" => Some(c12::run(ctx)),
        "C13" => Some(c13::run(ctx)),
        "C14" => Some(c14::run(ctx)),
        "C15" => Some(c15::run(ctx)),
        "C16" => Some(c16::run(ctx)),
        "C17" => Some(c17::run(ctx)),
        "C18" => Some(c18::run(ctx)),
        "C19" => Some(c19::run(ctx)),
        "C20" => Some(c20::run(ctx)),
        _ => None,
    }
}

/// Child-process modes (re-executions of the harness binary). Returns the exit code.
pub fn child(mode: &str, args: &[String]) -> i32 {
    match mode {
        "tzq" => tzchild::child_main(args),
        "c16x" => c16::child_extremes(args),
        "c18h" => c18::child_history(args),
        "c18s" => c18::child_stress(args),
        _ => {
            eprintln!("unknown child mode");
            3
        }
    }
}
