use crate::mon::{Ctx, Outcome};

pub mod c01;
pub mod c02;
pub mod c03;
pub mod c04;
pub mod c05;
pub mod c07;
pub mod c08;
pub mod c14;
pub mod c17;
pub mod c16;
pub mod c19;
pub mod tzchild;

pub const ALL: &[&str] = &["C01", "C02", "C03", "C04", "C05", "C07", "C16", "C08"];

pub fn run(ctx: &Ctx) -> Option<Outcome> {
    match ctx.prop.as_str() {
        "C01" => Some(c01::run(ctx)),
        "C02" => Some(c02::run(ctx)),
        "C03" => Some(c03::run(ctx)),
        "C04" => Some(c04::run(ctx)),
        "C05" => Some(c05::run(ctx)),
        "C07" => Some(c07::run(ctx)),
        "C16" => Some(c16::run(ctx)),
        "C17" => Some(c17::run(ctx)),
        "C19" => Some(c19::run(ctx)),
        "C14" => Some(c14::run(ctx)),
        "C08" => Some(c08::run(ctx)),
        _ => None,
    }
}

/// Child-process modes (re-executions of the harness binary). Returns the exit code.
pub fn child(mode: &str, args: &[String]) -> i32 {
    match mode {
        "tzq" => tzchild::child_main(args),
        "c16x" => c16::child_extremes(args),
        _ => {
            eprintln!("unknown child mode");
            3
        }
    }
}
