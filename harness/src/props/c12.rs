//! C12 — every strftime specifier renders the documented field.
//!
//! Oracle: R-fmt, a reference strftime renderer written from the specifier table of the
//! `chrono::format::strftime` rustdoc, evaluated on R-cal fields of the value. Format strings are
//! *generated* from token lists (specifier + padding modifier, literal, white space, invalid
//! specifier), so the denoted meaning is known by construction and chrono's own format-string
//! parser is not trusted.
//!
//! ## Ambiguity table (rustdoc, chrono's tests and behaviour disagree -> only the common part is
//! asserted; implemented as a *set of acceptable renderings* per item)
//!
//! | item | rustdoc | tests / behaviour | accepted |
//! |---|---|---|---|
//! | `%f`, `%0f` | example `26490000`, note "7µs is formatted as `7000`" (unpadded) | `026490708` (9 digits, zero padded) | the nanosecond count unpadded or zero-padded to 9 |
//! | `%_f` | "uses spaces as padding" of an unstated width | width 9 | unpadded or space-padded to 9 |
//! | `%Z` | "identical to `%:z` when formatting" | the offset's own `Display` (`UTC`, `+09:30`, `-09:30:31`) | either |
//! | `%_Y`, `%_G` for years outside 0..=9999 | "space padding", "initial sign required" | `{:+5}` | spaces, then sign, then digits; total width 4 or 5; or sign followed by the digits space-padded to 4 |
//! | `%-Y`, `%-G` outside 0..=9999 | "no padding", "initial sign required" | `{:+}` | sign + digits (exact) |
//! | `%_C`/`%-C` for years < 0 or >= 10000 | floor division, `-1` for year -99 | garbage (F-%C) | the quotient, unpadded or space-padded to width 2 or 3 |
//! | `%0s`, `%_s` | "`%s` is not padded" | padded to 9 | unpadded or padded to width 9 |
//! | `%q`, `%w`, `%u` with modifiers | numeric, one digit | modifier ignored | the single digit (all readings coincide) |
//! | `%z`/`%:z`/`%+` at exactly 30 s | "rounded to the nearest minute" (tie unspecified) | half away from zero | either neighbour |
//! | `%z`/`%:z`/`%:::z`/`%+` of a negative offset that prints as zero | unspecified | `-0000`, `-00` | either sign |
//! | `%y`, `%g`, `%D`, `%x` for (ISO) years < 0 | "floor division ... 99" vs. tests | rem_euclid | not generated (property text) |
//! | `%U` | table example `28` for 2001-07-08 contradicts footnote 2 and the tests (`27`) | 27 | the definition (footnote 2) |
//! | leap second shown on a wall-clock second other than :59 (only through an offset with seconds) | `%S` "accounts for leap seconds" | second + 1 | second + 1 |

use crate::gen;
use crate::mon::{guard, h2, hstr, par_shards, Ctx, Local, Outcome, Report, Tier};
use crate::refcal as rc;
use crate::refinst::{self as ri, RDt};
use crate::rng::Rng;
use crate::zones::{NamedTz, ZONE_NAME};
use chrono::format::StrftimeItems;
use chrono::{DateTime, FixedOffset, NaiveDate, NaiveDateTime, NaiveTime, TimeZone, Utc};
use serde_json::{json, Value};
use std::fmt::Write as _;

// ------------------------------------------------------------------------------------------------
// Specifier table (from the rustdoc of chrono::format::strftime)
// ------------------------------------------------------------------------------------------------

#[derive(Clone, Copy, PartialEq, Eq, Debug)]
enum Md {
    No,
    Dash,
    Under,
    Zero,
}

impl Md {
    fn text(self) -> &'static str {
        match self {
            Md::No => "",
            Md::Dash => "-",
            Md::Under => "_",
            Md::Zero => "0",
        }
    }
}

#[derive(Clone, Copy, PartialEq, Eq, Debug)]
enum Pad {
    None,
    Zero,
    Space,
}

#[derive(Clone, Copy, PartialEq, Eq, Debug)]
enum Cl {
    /// numeric, single item: padding modifiers allowed
    Num,
    /// names, am/pm, fractions, offsets: no modifier allowed
    Fixed,
    /// expands to several items: no modifier allowed
    Comp,
    /// %t %n %%: no modifier allowed
    Special,
}

const NEED_D: u8 = 1;
const NEED_T: u8 = 2;
const NEED_O: u8 = 4;

struct Spec {
    /// text after '%' (and after the modifier)
    t: &'static str,
    cl: Cl,
    need: u8,
}

const SPECS: &[Spec] = &[
    Spec { t: "Y", cl: Cl::Num, need: NEED_D },
    Spec { t: "C", cl: Cl::Num, need: NEED_D },
    Spec { t: "y", cl: Cl::Num, need: NEED_D },
    Spec { t: "q", cl: Cl::Num, need: NEED_D },
    Spec { t: "m", cl: Cl::Num, need: NEED_D },
    Spec { t: "b", cl: Cl::Fixed, need: NEED_D },
    Spec { t: "B", cl: Cl::Fixed, need: NEED_D },
    Spec { t: "h", cl: Cl::Fixed, need: NEED_D },
    Spec { t: "d", cl: Cl::Num, need: NEED_D },
    Spec { t: "e", cl: Cl::Num, need: NEED_D },
    Spec { t: "a", cl: Cl::Fixed, need: NEED_D },
    Spec { t: "A", cl: Cl::Fixed, need: NEED_D },
    Spec { t: "w", cl: Cl::Num, need: NEED_D },
    Spec { t: "u", cl: Cl::Num, need: NEED_D },
    Spec { t: "U", cl: Cl::Num, need: NEED_D },
    Spec { t: "W", cl: Cl::Num, need: NEED_D },
    Spec { t: "G", cl: Cl::Num, need: NEED_D },
    Spec { t: "g", cl: Cl::Num, need: NEED_D },
    Spec { t: "V", cl: Cl::Num, need: NEED_D },
    Spec { t: "j", cl: Cl::Num, need: NEED_D },
    Spec { t: "D", cl: Cl::Comp, need: NEED_D },
    Spec { t: "x", cl: Cl::Comp, need: NEED_D },
    Spec { t: "F", cl: Cl::Comp, need: NEED_D },
    Spec { t: "v", cl: Cl::Comp, need: NEED_D },
    Spec { t: "H", cl: Cl::Num, need: NEED_T },
    Spec { t: "k", cl: Cl::Num, need: NEED_T },
    Spec { t: "I", cl: Cl::Num, need: NEED_T },
    Spec { t: "l", cl: Cl::Num, need: NEED_T },
    Spec { t: "P", cl: Cl::Fixed, need: NEED_T },
    Spec { t: "p", cl: Cl::Fixed, need: NEED_T },
    Spec { t: "M", cl: Cl::Num, need: NEED_T },
    Spec { t: "S", cl: Cl::Num, need: NEED_T },
    Spec { t: "f", cl: Cl::Num, need: NEED_T },
    Spec { t: ".f", cl: Cl::Fixed, need: NEED_T },
    Spec { t: ".3f", cl: Cl::Fixed, need: NEED_T },
    Spec { t: ".6f", cl: Cl::Fixed, need: NEED_T },
    Spec { t: ".9f", cl: Cl::Fixed, need: NEED_T },
    Spec { t: "3f", cl: Cl::Fixed, need: NEED_T },
    Spec { t: "6f", cl: Cl::Fixed, need: NEED_T },
    Spec { t: "9f", cl: Cl::Fixed, need: NEED_T },
    Spec { t: "R", cl: Cl::Comp, need: NEED_T },
    Spec { t: "T", cl: Cl::Comp, need: NEED_T },
    Spec { t: "X", cl: Cl::Comp, need: NEED_T },
    Spec { t: "r", cl: Cl::Comp, need: NEED_T },
    Spec { t: "Z", cl: Cl::Fixed, need: NEED_O },
    Spec { t: "z", cl: Cl::Fixed, need: NEED_O },
    Spec { t: ":z", cl: Cl::Fixed, need: NEED_O },
    Spec { t: "::z", cl: Cl::Fixed, need: NEED_O },
    Spec { t: ":::z", cl: Cl::Fixed, need: NEED_O },
    Spec { t: "c", cl: Cl::Comp, need: NEED_D | NEED_T },
    Spec { t: "+", cl: Cl::Fixed, need: NEED_D | NEED_T | NEED_O },
    Spec { t: "s", cl: Cl::Num, need: NEED_D | NEED_T },
    Spec { t: "t", cl: Cl::Special, need: 0 },
    Spec { t: "n", cl: Cl::Special, need: 0 },
    Spec { t: "%", cl: Cl::Special, need: 0 },
];

fn spec_idx(t: &str) -> usize {
    SPECS.iter().position(|s| s.t == t).unwrap_or_else(|| panic!("c12: unknown spec {}", t))
}

/// Specifiers whose text is not defined for a negative (ISO) year by the property.
fn uses_two_digit_year(t: &str) -> Option<bool> {
    // Some(false) = calendar year, Some(true) = ISO year
    match t {
        "y" | "D" | "x" => Some(false),
        "g" => Some(true),
        _ => None,
    }
}

// ------------------------------------------------------------------------------------------------
// Values: reference side (integers) and chrono side
// ------------------------------------------------------------------------------------------------

#[derive(Clone, Copy, PartialEq, Eq, Debug)]
enum Kind {
    Date,
    Time,
    Naive,
    Fixed,
    Utc,
}

impl Kind {
    fn name(self) -> &'static str {
        match self {
            Kind::Date => "NaiveDate",
            Kind::Time => "NaiveTime",
            Kind::Naive => "NaiveDateTime",
            Kind::Fixed => "DateTime<FixedOffset>",
            Kind::Utc => "DateTime<Utc>",
        }
    }
    fn has(self) -> u8 {
        match self {
            Kind::Date => NEED_D,
            Kind::Time => NEED_T,
            Kind::Naive => NEED_D | NEED_T,
            Kind::Fixed | Kind::Utc => NEED_D | NEED_T | NEED_O,
        }
    }
}

/// A value by its defining integers. For zone-aware kinds (day, secs, frac) is the UTC value and
/// `off` the offset in seconds east; otherwise it is the value itself.
#[derive(Clone, Copy, Debug)]
struct V {
    kind: Kind,
    day: i64,
    secs: i64,
    /// 0..2e9, >= 1e9 is a leap-second representation
    frac: i64,
    off: i64,
}

impl V {
    fn j(&self) -> Value {
        let (y, m, d) = rc::civil_from_days(self.day);
        match self.kind {
            Kind::Date => json!({"type": self.kind.name(), "ymd": [y, m, d]}),
            Kind::Time => json!({"type": self.kind.name(), "secs_of_day": self.secs, "nano": self.frac}),
            Kind::Naive => json!({"type": self.kind.name(), "ymd": [y, m, d], "secs_of_day": self.secs, "nano": self.frac}),
            _ => json!({"type": self.kind.name(), "utc_ymd": [y, m, d], "utc_secs_of_day": self.secs, "nano": self.frac, "offset_secs": self.off}),
        }
    }
    fn hash(&self) -> u64 {
        h2(h2(self.kind as u64, self.day as u64), h2(self.secs as u64 * 2_000_000_011 + self.frac as u64, self.off as u64))
    }
}

enum CV {
    D(NaiveDate),
    T(NaiveTime),
    N(NaiveDateTime),
    F(DateTime<FixedOffset>),
    U(DateTime<Utc>),
}

fn to_chrono(v: &V) -> Option<CV> {
    let date = || NaiveDate::from_num_days_from_ce_opt(i32::try_from(v.day).ok()?);
    let time = || NaiveTime::from_num_seconds_from_midnight_opt(v.secs as u32, v.frac as u32);
    Some(match v.kind {
        Kind::Date => CV::D(date()?),
        Kind::Time => CV::T(time()?),
        Kind::Naive => CV::N(NaiveDateTime::new(date()?, time()?)),
        Kind::Fixed => CV::F(FixedOffset::east_opt(v.off as i32)?.from_utc_datetime(&NaiveDateTime::new(date()?, time()?))),
        Kind::Utc => CV::U(Utc.from_utc_datetime(&NaiveDateTime::new(date()?, time()?))),
    })
}

/// Route 1 (primary): `write!(&mut String, "{}", value.format(fmt))`.
fn fmt_display(cv: &CV, f: &str) -> Result<String, ()> {
    let mut s = String::new();
    let r = match cv {
        CV::D(x) => write!(&mut s, "{}", x.format(f)),
        CV::T(x) => write!(&mut s, "{}", x.format(f)),
        CV::N(x) => write!(&mut s, "{}", x.format(f)),
        CV::F(x) => write!(&mut s, "{}", x.format(f)),
        CV::U(x) => write!(&mut s, "{}", x.format(f)),
    };
    r.map(|_| s).map_err(|_| ())
}

/// Route 2: `DelayedFormat::write_to`.
fn fmt_write_to(cv: &CV, f: &str) -> Result<String, ()> {
    let mut s = String::new();
    let r = match cv {
        CV::D(x) => x.format(f).write_to(&mut s),
        CV::T(x) => x.format(f).write_to(&mut s),
        CV::N(x) => x.format(f).write_to(&mut s),
        CV::F(x) => x.format(f).write_to(&mut s),
        CV::U(x) => x.format(f).write_to(&mut s),
    };
    r.map(|_| s).map_err(|_| ())
}

/// Route 3: pre-parsed items (`StrftimeItems::parse` + `format_with_items`). A format string that
/// does not parse counts as a formatting failure.
fn fmt_items(cv: &CV, f: &str, owned: bool) -> Result<String, ()> {
    let items = if owned { StrftimeItems::new(f).parse_to_owned().map_err(|_| ())? } else { StrftimeItems::new(f).parse().map_err(|_| ())? };
    let mut s = String::new();
    let r = match cv {
        CV::D(x) => write!(&mut s, "{}", x.format_with_items(items.iter())),
        CV::T(x) => write!(&mut s, "{}", x.format_with_items(items.iter())),
        CV::N(x) => write!(&mut s, "{}", x.format_with_items(items.iter())),
        CV::F(x) => write!(&mut s, "{}", x.format_with_items(items.iter())),
        CV::U(x) => write!(&mut s, "{}", x.format_with_items(items.iter())),
    };
    r.map(|_| s).map_err(|_| ())
}

/// The fields the documented table talks about, computed by R-cal from the defining integers.
#[derive(Clone, Copy, Debug)]
struct Fields {
    has: u8,
    year: i64,
    month: i64,
    day: i64,
    ordinal: i64,
    /// 0 = Monday
    wd: i64,
    iso_year: i64,
    iso_week: i64,
    /// weekday of January 1st of `year`, 0 = Monday
    jan1_wd: i64,
    hour: i64,
    minute: i64,
    second: i64,
    leap: bool,
    nano: i64,
    off: i64,
    is_utc: bool,
    ts: i64,
    headroom: bool,
    /// name shown by `%Z` when the zone's offset type displays a name (user-defined zone)
    zname: Option<&'static str>,
}

fn fields_of(v: &V) -> Fields {
    let has = v.kind.has();
    // wall clock: UTC value + offset, by plain integer arithmetic
    let (wday, wsecs) = if has & NEED_O != 0 {
        let t = v.secs + v.off;
        (v.day + t.div_euclid(86_400), t.rem_euclid(86_400))
    } else {
        (v.day, v.secs)
    };
    let (year, month, day) = rc::civil_from_days(wday);
    let (iso_year, iso_week, wd) = rc::iso_from_days(wday);
    Fields {
        has,
        year,
        month,
        day,
        ordinal: rc::ordinal_of(year, month, day),
        wd,
        iso_year,
        iso_week,
        jan1_wd: rc::weekday(rc::days_before_year(year) + 1),
        hour: wsecs / 3600,
        minute: wsecs / 60 % 60,
        second: wsecs % 60,
        leap: v.frac >= 1_000_000_000,
        nano: v.frac % 1_000_000_000,
        off: v.off,
        is_utc: v.kind == Kind::Utc,
        ts: (v.day - rc::UNIX_EPOCH_DAY) * 86_400 + v.secs,
        headroom: has & NEED_D != 0 && !rc::in_range_day(wday),
        zname: None,
    }
}

// ------------------------------------------------------------------------------------------------
// R-fmt: the reference renderer
// ------------------------------------------------------------------------------------------------

#[derive(Clone, Copy, PartialEq, Eq, Debug)]
enum BadKind {
    Unknown,
    ModOnNonNumeric,
    ModOnComposite,
    Truncated,
    ParseOnly,
}

impl BadKind {
    fn name(self) -> &'static str {
        match self {
            BadKind::Unknown => "unknown-specifier",
            BadKind::ModOnNonNumeric => "padding-modifier-on-non-numeric-specifier",
            BadKind::ModOnComposite => "padding-modifier-on-composite-specifier",
            BadKind::Truncated => "truncated-specifier-at-end",
            BadKind::ParseOnly => "parse-only-specifier",
        }
    }
}

#[derive(Clone, Debug)]
enum Tok {
    Sp(usize, Md),
    Lit(String),
    Bad(String, BadKind),
}

impl Tok {
    fn text(&self) -> String {
        match self {
            Tok::Sp(i, md) => format!("%{}{}", md.text(), SPECS[*i].t),
            Tok::Lit(s) => s.clone(),
            Tok::Bad(s, _) => s.clone(),
        }
    }
}

fn fmt_string(toks: &[Tok]) -> String {
    let mut s = String::new();
    for t in toks {
        s.push_str(&t.text());
    }
    s
}

/// Decimal number with the three documented paddings. The width counts the sign (as in the
/// rustdoc example `-1` for a 2-digit zero-padded field).
fn padn(v: i64, w: usize, pad: Pad) -> String {
    let digits = v.unsigned_abs().to_string();
    let sign = if v < 0 { "-" } else { "" };
    let len = digits.len() + sign.len();
    let fill = w.saturating_sub(len);
    match pad {
        Pad::None => format!("{}{}", sign, digits),
        Pad::Zero => format!("{}{}{}", sign, "0".repeat(fill), digits),
        Pad::Space => format!("{}{}{}", " ".repeat(fill), sign, digits),
    }
}

fn rjust(s: &str, w: usize) -> String {
    format!("{}{}", " ".repeat(w.saturating_sub(s.chars().count())), s)
}

fn eff(md: Md, default: Pad) -> Pad {
    match md {
        Md::No => default,
        Md::Dash => Pad::None,
        Md::Under => Pad::Space,
        Md::Zero => Pad::Zero,
    }
}

fn dedup(mut v: Vec<String>) -> Vec<String> {
    let mut out: Vec<String> = Vec::with_capacity(v.len());
    for s in v.drain(..) {
        if !out.contains(&s) {
            out.push(s);
        }
    }
    out
}

fn year_alts(y: i64, md: Md) -> Vec<String> {
    let pad = eff(md, Pad::Zero);
    if (0..=9999).contains(&y) {
        return vec![padn(y, 4, pad)];
    }
    // "years before 1 BCE or after 9999 CE require an initial sign (+/-)"
    let sign = if y < 0 { "-" } else { "+" };
    let digits = y.unsigned_abs().to_string();
    match pad {
        Pad::Zero => vec![format!("{}{}{}", sign, "0".repeat(4usize.saturating_sub(digits.len())), digits)],
        Pad::None => vec![format!("{}{}", sign, digits)],
        Pad::Space => {
            let sd = format!("{}{}", sign, digits);
            dedup(vec![rjust(&sd, 5), rjust(&sd, 4), format!("{}{}", sign, rjust(&digits, 4))])
        }
    }
}

fn century_alts(y: i64, md: Md) -> Vec<String> {
    let c = y.div_euclid(100);
    let pad = eff(md, Pad::Zero);
    if (0..=99).contains(&c) {
        return vec![padn(c, 2, pad)];
    }
    match pad {
        Pad::Zero => vec![padn(c, 2, Pad::Zero)],
        Pad::None => vec![c.to_string()],
        Pad::Space => dedup(vec![padn(c, 2, Pad::Space), padn(c, 3, Pad::Space)]),
    }
}

const MONTHS: [&str; 12] =
    ["January", "February", "March", "April", "May", "June", "July", "August", "September", "October", "November", "December"];
/// index 0 = Monday
const DAYS: [&str; 7] = ["Monday", "Tuesday", "Wednesday", "Thursday", "Friday", "Saturday", "Sunday"];

fn week_from(f: &Fields, first_weekday: i64) -> i64 {
    // "week 1 starts with the first Sunday (Monday) in that year", days before it are week 0:
    // = number of Sundays (Mondays) among the days 1..=ordinal of the year
    let first = 1 + (first_weekday - f.jan1_wd).rem_euclid(7);
    if f.ordinal < first {
        0
    } else {
        (f.ordinal - first) / 7 + 1
    }
}

fn hour12(h: i64) -> i64 {
    match h % 12 {
        0 => 12,
        x => x,
    }
}

fn hhmm(m: i64, colon: bool) -> String {
    format!("{:02}{}{:02}", m / 60, if colon { ":" } else { "" }, m % 60)
}

/// `%z` / `%:z`: hours and minutes, seconds rounded to the nearest minute.
fn off_minute_alts(off: i64, colon: bool) -> Vec<String> {
    let a = off.abs();
    let (lo, rem) = (a / 60, a % 60);
    let mins: Vec<i64> = match rem.cmp(&30) {
        std::cmp::Ordering::Less => vec![lo],
        std::cmp::Ordering::Greater => vec![lo + 1],
        std::cmp::Ordering::Equal => vec![lo + 1, lo],
    };
    let mut out = Vec::new();
    for m in mins {
        if off < 0 {
            out.push(format!("-{}", hhmm(m, colon)));
            if m == 0 {
                out.push(format!("+{}", hhmm(m, colon)));
            }
        } else {
            out.push(format!("+{}", hhmm(m, colon)));
        }
    }
    out
}

fn off_display(f: &Fields) -> String {
    if f.is_utc {
        return "UTC".to_string();
    }
    let a = f.off.abs();
    let sign = if f.off < 0 { "-" } else { "+" };
    if a % 60 == 0 {
        format!("{}{:02}:{:02}", sign, a / 3600, a / 60 % 60)
    } else {
        format!("{}{:02}:{:02}:{:02}", sign, a / 3600, a / 60 % 60, a % 60)
    }
}

fn dot_f(nano: i64) -> String {
    if nano == 0 {
        String::new()
    } else if nano % 1_000_000 == 0 {
        format!(".{:03}", nano / 1_000_000)
    } else if nano % 1000 == 0 {
        format!(".{:06}", nano / 1000)
    } else {
        format!(".{:09}", nano)
    }
}

type Alts = Vec<String>;

fn one(s: String) -> Vec<Alts> {
    vec![vec![s]]
}

/// Expansion of a composite into (spec text, modifier) / literal pieces.
fn expansion(t: &str) -> Option<&'static [&'static str]> {
    Some(match t {
        "D" | "x" => &["%m", "/", "%d", "/", "%y"],
        "F" => &["%Y", "-", "%m", "-", "%d"],
        "v" => &["%e", "-", "%b", "-", "%Y"],
        "R" => &["%H", ":", "%M"],
        "T" | "X" => &["%H", ":", "%M", ":", "%S"],
        "r" => &["%I", ":", "%M", ":", "%S", " ", "%p"],
        "c" => &["%a", " ", "%b", " ", "%e", " ", "%H", ":", "%M", ":", "%S", " ", "%Y"],
        "+" => &["%Y", "-", "%m", "-", "%d", "T", "%H", ":", "%M", ":", "%S", "%.f", "%:z"],
        _ => return None,
    })
}

/// Render one specifier. Err = the value does not have the field.
fn render_spec(t: &str, md: Md, f: &Fields) -> Result<Vec<Alts>, &'static str> {
    let sp = &SPECS[spec_idx(t)];
    if sp.need & !f.has != 0 {
        return Err(if sp.need & !f.has & NEED_D != 0 {
            "value-has-no-date"
        } else if sp.need & !f.has & NEED_T != 0 {
            "value-has-no-time"
        } else {
            "value-has-no-offset"
        });
    }
    if let Some(exp) = expansion(t) {
        let mut out = Vec::new();
        for piece in exp {
            if let Some(st) = piece.strip_prefix('%') {
                out.extend(render_spec(st, Md::No, f)?);
            } else {
                out.push(vec![piece.to_string()]);
            }
        }
        return Ok(out);
    }
    let two = |v: i64, default: Pad| one(padn(v, 2, eff(md, default)));
    Ok(match t {
        "Y" => vec![year_alts(f.year, md)],
        "G" => vec![year_alts(f.iso_year, md)],
        "C" => vec![century_alts(f.year, md)],
        "y" => two(f.year.rem_euclid(100), Pad::Zero),
        "g" => two(f.iso_year.rem_euclid(100), Pad::Zero),
        "q" => one(((f.month - 1) / 3 + 1).to_string()),
        "m" => two(f.month, Pad::Zero),
        "b" | "h" => one(MONTHS[(f.month - 1) as usize][..3].to_string()),
        "B" => one(MONTHS[(f.month - 1) as usize].to_string()),
        "d" => two(f.day, Pad::Zero),
        "e" => two(f.day, Pad::Space),
        "a" => one(DAYS[f.wd as usize][..3].to_string()),
        "A" => one(DAYS[f.wd as usize].to_string()),
        "w" => one(((f.wd + 1) % 7).to_string()),
        "u" => one((f.wd + 1).to_string()),
        "U" => two(week_from(f, 6), Pad::Zero),
        "W" => two(week_from(f, 0), Pad::Zero),
        "V" => two(f.iso_week, Pad::Zero),
        "j" => one(padn(f.ordinal, 3, eff(md, Pad::Zero))),
        "H" => two(f.hour, Pad::Zero),
        "k" => two(f.hour, Pad::Space),
        "I" => two(hour12(f.hour), Pad::Zero),
        "l" => two(hour12(f.hour), Pad::Space),
        "P" => one(if f.hour < 12 { "am" } else { "pm" }.to_string()),
        "p" => one(if f.hour < 12 { "AM" } else { "PM" }.to_string()),
        "M" => two(f.minute, Pad::Zero),
        "S" => two(f.second + f.leap as i64, Pad::Zero),
        "f" => vec![match eff(md, Pad::Zero) {
            Pad::None => vec![f.nano.to_string()],
            p => dedup(vec![padn(f.nano, 9, p), f.nano.to_string()]),
        }],
        ".f" => one(dot_f(f.nano)),
        ".3f" => one(format!(".{:03}", f.nano / 1_000_000)),
        ".6f" => one(format!(".{:06}", f.nano / 1000)),
        ".9f" => one(format!(".{:09}", f.nano)),
        "3f" => one(format!("{:03}", f.nano / 1_000_000)),
        "6f" => one(format!("{:06}", f.nano / 1000)),
        "9f" => one(format!("{:09}", f.nano)),
        "z" => vec![off_minute_alts(f.off, false)],
        ":z" => vec![off_minute_alts(f.off, true)],
        "::z" => {
            let a = f.off.abs();
            one(format!("{}{:02}:{:02}:{:02}", if f.off < 0 { "-" } else { "+" }, a / 3600, a / 60 % 60, a % 60))
        }
        ":::z" => {
            let h = f.off.abs() / 3600;
            let mut v = vec![format!("{}{:02}", if f.off < 0 { "-" } else { "+" }, h)];
            if f.off < 0 && h == 0 {
                v.push("+00".to_string());
            }
            vec![v]
        }
        "Z" if f.zname.is_some() => one(f.zname.unwrap_or("").to_string()),
        "Z" if f.is_utc => one("UTC".to_string()),
        "Z" => {
            let mut v = vec![off_display(f)];
            v.extend(off_minute_alts(f.off, true));
            vec![dedup(v)]
        }
        "s" => vec![match md {
            Md::No | Md::Dash => vec![f.ts.to_string()],
            Md::Zero => dedup(vec![padn(f.ts, 9, Pad::Zero), f.ts.to_string()]),
            Md::Under => dedup(vec![padn(f.ts, 9, Pad::Space), f.ts.to_string()]),
        }],
        "t" => one("\t".to_string()),
        "n" => one("\n".to_string()),
        "%" => one("%".to_string()),
        _ => panic!("c12: render_spec: unhandled {}", t),
    })
}

struct Part {
    alts: Alts,
    tok: usize,
}

enum Exp {
    /// formatting must fail: (reason, index of the token that causes it)
    Fail(&'static str, usize),
    Text(Vec<Part>),
}

fn expect(toks: &[Tok], f: &Fields) -> Exp {
    let mut parts = Vec::new();
    let mut fail: Option<(&'static str, usize)> = None;
    for (i, t) in toks.iter().enumerate() {
        match t {
            Tok::Lit(s) => parts.push(Part { alts: vec![s.clone()], tok: i }),
            Tok::Bad(_, k) => {
                if fail.is_none() {
                    fail = Some((k.name(), i));
                }
            }
            Tok::Sp(si, md) => {
                let sp = &SPECS[*si];
                debug_assert!(*md == Md::No || sp.cl == Cl::Num);
                match render_spec(sp.t, *md, f) {
                    Ok(v) => parts.extend(v.into_iter().map(|alts| Part { alts, tok: i })),
                    Err(r) => {
                        if fail.is_none() {
                            fail = Some((r, i));
                        }
                    }
                }
            }
        }
    }
    match fail {
        Some((r, i)) => Exp::Fail(r, i),
        None => Exp::Text(parts),
    }
}

fn matches(parts: &[Part], s: &str) -> bool {
    match parts.split_first() {
        None => s.is_empty(),
        Some((p, rest)) => {
            if p.alts.len() == 1 {
                s.strip_prefix(p.alts[0].as_str()).map_or(false, |r| matches(rest, r))
            } else {
                p.alts.iter().any(|a| s.strip_prefix(a.as_str()).map_or(false, |r| matches(rest, r)))
            }
        }
    }
}

fn matches_refs(parts: &[&Part], s: &str) -> bool {
    match parts.split_first() {
        None => s.is_empty(),
        Some((p, rest)) => p.alts.iter().any(|a| s.strip_prefix(a.as_str()).map_or(false, |r| matches_refs(rest, r))),
    }
}

/// Which token is to blame for a mismatch: walk greedily, the first part none of whose
/// alternatives is a prefix of what is left.
fn blame(parts: &[Part], s: &str) -> Option<usize> {
    let mut rest = s;
    for p in parts {
        match p.alts.iter().find_map(|a| rest.strip_prefix(a.as_str())) {
            Some(r) => rest = r,
            None => return Some(p.tok),
        }
    }
    None
}

fn show_expected(parts: &[Part]) -> Value {
    let first: String = parts.iter().map(|p| p.alts[0].as_str()).collect();
    let multi: Vec<Value> = parts.iter().filter(|p| p.alts.len() > 1).map(|p| json!(p.alts)).collect();
    if multi.is_empty() {
        json!(first)
    } else {
        json!({"text": first, "items_with_several_accepted_renderings": multi})
    }
}

// ------------------------------------------------------------------------------------------------
// Buckets
// ------------------------------------------------------------------------------------------------

const BASE_BUCKETS: &[&str] = &[
    "kind_NaiveDate", "kind_NaiveTime", "kind_NaiveDateTime", "kind_DateTime_FixedOffset", "kind_DateTime_Utc",
    "year_negative", "year_zero", "year_1_to_999", "year_5_digits", "year_6_digits", "wall_date_in_headroom",
    "iso_year_is_previous", "iso_year_is_next", "week_U_00", "week_U_53", "week_W_00", "week_W_53", "iso_week_53", "iso_week_01",
    "hour_0", "hour_11", "hour_12", "hour_13", "hour_23",
    "leap_second", "leap_second_not_on_59",
    "frac_zero", "frac_millis", "frac_micros", "frac_nanos",
    "offset_zero", "offset_negative", "offset_with_seconds", "offset_rem_lt_30", "offset_rem_eq_30", "offset_rem_gt_30",
    "offset_negative_prints_zero", "offset_rounds_to_24h",
    "timestamp_negative",
    "mod_dash", "mod_underscore", "mod_zero",
    "fail_unknown_specifier", "fail_modifier_on_non_numeric", "fail_modifier_on_composite", "fail_truncated", "fail_parse_only",
    "fail_no_date", "fail_no_time", "fail_no_offset",
    "literal_multibyte", "literal_whitespace", "composite",
    "several_renderings_accepted",
    "route_write_to", "route_items",
    "walk_dates", "walk_seconds", "walk_offsets", "product", "random_single", "random_string",
    "carrier_user_zone_with_name", "carrier_deprecated_Date_FixedOffset", "carrier_deprecated_Date_Utc", "carrier_deprecated_Date_user_zone",
];

/// Buckets that need not be observed (everything else is floor).
const NOT_FLOOR: &[&str] = &[];

fn bucket_names() -> &'static [&'static str] {
    static NAMES: std::sync::OnceLock<Vec<&'static str>> = std::sync::OnceLock::new();
    NAMES.get_or_init(|| {
        let mut v: Vec<&'static str> = BASE_BUCKETS.to_vec();
        for s in SPECS {
            v.push(Box::leak(format!("spec_%{}", s.t).into_boxed_str()));
        }
        v
    })
}

struct Ix {
    kind0: usize,
    y_neg: usize,
    y_zero: usize,
    y_small: usize,
    y5: usize,
    y6: usize,
    headroom: usize,
    iso_prev: usize,
    iso_next: usize,
    u00: usize,
    u53: usize,
    w00: usize,
    w53: usize,
    v53: usize,
    v01: usize,
    h0: usize,
    h11: usize,
    h12: usize,
    h13: usize,
    h23: usize,
    leap: usize,
    leap_odd: usize,
    fr0: usize,
    fr3: usize,
    fr6: usize,
    fr9: usize,
    off0: usize,
    off_neg: usize,
    off_secs: usize,
    off_lt: usize,
    off_eq: usize,
    off_gt: usize,
    off_negzero: usize,
    off_24: usize,
    ts_neg: usize,
    md_dash: usize,
    md_under: usize,
    md_zero: usize,
    f_unknown: usize,
    f_modfixed: usize,
    f_modcomp: usize,
    f_trunc: usize,
    f_parseonly: usize,
    f_nodate: usize,
    f_notime: usize,
    f_nooff: usize,
    lit_mb: usize,
    lit_ws: usize,
    comp: usize,
    amb: usize,
    r_write_to: usize,
    r_items: usize,
    spec0: usize,
    // spec groups (bit = index into SPECS)
    g_year: u64,
    g_isoyear: u64,
    g_u: u64,
    g_w: u64,
    g_v: u64,
    g_hour: u64,
    g_sec: u64,
    g_frac: u64,
    g_offmin: u64,
    g_off: u64,
    g_ts: u64,
}

fn mask(list: &[&str]) -> u64 {
    list.iter().fold(0u64, |m, t| m | 1u64 << spec_idx(t))
}

fn ix() -> Ix {
    let names = bucket_names();
    let bi = |n: &str| names.iter().position(|x| *x == n).unwrap_or_else(|| panic!("c12: bucket {}", n));
    assert!(SPECS.len() < 64);
    Ix {
        kind0: bi("kind_NaiveDate"),
        y_neg: bi("year_negative"),
        y_zero: bi("year_zero"),
        y_small: bi("year_1_to_999"),
        y5: bi("year_5_digits"),
        y6: bi("year_6_digits"),
        headroom: bi("wall_date_in_headroom"),
        iso_prev: bi("iso_year_is_previous"),
        iso_next: bi("iso_year_is_next"),
        u00: bi("week_U_00"),
        u53: bi("week_U_53"),
        w00: bi("week_W_00"),
        w53: bi("week_W_53"),
        v53: bi("iso_week_53"),
        v01: bi("iso_week_01"),
        h0: bi("hour_0"),
        h11: bi("hour_11"),
        h12: bi("hour_12"),
        h13: bi("hour_13"),
        h23: bi("hour_23"),
        leap: bi("leap_second"),
        leap_odd: bi("leap_second_not_on_59"),
        fr0: bi("frac_zero"),
        fr3: bi("frac_millis"),
        fr6: bi("frac_micros"),
        fr9: bi("frac_nanos"),
        off0: bi("offset_zero"),
        off_neg: bi("offset_negative"),
        off_secs: bi("offset_with_seconds"),
        off_lt: bi("offset_rem_lt_30"),
        off_eq: bi("offset_rem_eq_30"),
        off_gt: bi("offset_rem_gt_30"),
        off_negzero: bi("offset_negative_prints_zero"),
        off_24: bi("offset_rounds_to_24h"),
        ts_neg: bi("timestamp_negative"),
        md_dash: bi("mod_dash"),
        md_under: bi("mod_underscore"),
        md_zero: bi("mod_zero"),
        f_unknown: bi("fail_unknown_specifier"),
        f_modfixed: bi("fail_modifier_on_non_numeric"),
        f_modcomp: bi("fail_modifier_on_composite"),
        f_trunc: bi("fail_truncated"),
        f_parseonly: bi("fail_parse_only"),
        f_nodate: bi("fail_no_date"),
        f_notime: bi("fail_no_time"),
        f_nooff: bi("fail_no_offset"),
        lit_mb: bi("literal_multibyte"),
        lit_ws: bi("literal_whitespace"),
        comp: bi("composite"),
        amb: bi("several_renderings_accepted"),
        r_write_to: bi("route_write_to"),
        r_items: bi("route_items"),
        spec0: bi("spec_%Y"),
        g_year: mask(&["Y", "C", "y", "D", "x", "F", "v", "c", "+"]),
        g_isoyear: mask(&["G", "g", "V"]),
        g_u: mask(&["U"]),
        g_w: mask(&["W"]),
        g_v: mask(&["V", "G", "g"]),
        g_hour: mask(&["H", "k", "I", "l", "P", "p", "R", "T", "X", "r", "c", "+"]),
        g_sec: mask(&["S", "T", "X", "r", "c", "+", "s"]),
        g_frac: mask(&["f", ".f", ".3f", ".6f", ".9f", "3f", "6f", "9f", "+"]),
        g_offmin: mask(&["z", ":z", "Z", "+"]),
        g_off: mask(&["z", ":z", "::z", ":::z", "Z", "+"]),
        g_ts: mask(&["s"]),
    }
}

// ------------------------------------------------------------------------------------------------
// One case
// ------------------------------------------------------------------------------------------------

const R_WRITE_TO: u8 = 1;
const R_ITEMS: u8 = 2;

fn value_class(spec: &str, f: &Fields, x: &Ix) -> &'static str {
    let si = spec_idx(spec);
    let bit = 1u64 << si;
    if bit & (x.g_year | x.g_isoyear) != 0 {
        let y = if bit & x.g_isoyear != 0 { f.iso_year } else { f.year };
        if y < 0 {
            return "/year-negative";
        }
        if y >= 10_000 {
            return "/year-ge-10000";
        }
    }
    if bit & x.g_off != 0 && f.has & NEED_O != 0 && f.off % 60 != 0 {
        return "/offset-with-seconds";
    }
    if bit & x.g_sec != 0 && f.leap {
        return "/leap-second";
    }
    if SPECS[si].need & NEED_D != 0 && f.headroom {
        return "/wall-date-outside-NaiveDate-range";
    }
    ""
}

/// Signature fragment for a wrong rendering of token `ti`: the specifier, for a composite also the
/// piece of its documented expansion that is wrong (judged on the token rendered alone), and the
/// class of the value with respect to that specifier.
fn wrong_text_sig(toks: &[Tok], ti: usize, parts: &[Part], alone: Option<&str>, f: &Fields, x: &Ix) -> String {
    let Tok::Sp(si, _) = &toks[ti] else { return "literal/wrong-text".to_string() };
    let t = SPECS[*si].t;
    if let (Some(exp), Some(text)) = (expansion(t), alone) {
        let own: Vec<&Part> = parts.iter().filter(|p| p.tok == ti).collect();
        let mut rest = text;
        for (k, p) in own.iter().enumerate() {
            match p.alts.iter().find_map(|a| rest.strip_prefix(a.as_str())) {
                Some(r) => rest = r,
                None => {
                    return match exp.get(k).and_then(|piece| piece.strip_prefix('%')) {
                        Some(sub) => format!("{}/wrong-text-in-{}-of-expansion{}", toks[ti].text(), exp[k], value_class(sub, f, x)),
                        None => format!("{}/wrong-text-in-literal-of-expansion", toks[ti].text()),
                    };
                }
            }
        }
        return format!("{}/wrong-text-after-expansion", toks[ti].text());
    }
    format!("{}/wrong-text{}", toks[ti].text(), value_class(t, f, x))
}

fn tok_sig(t: &Tok) -> String {
    match t {
        Tok::Lit(_) => "literal".to_string(),
        _ => t.text(),
    }
}

/// Returns false if the case could not be built (harness problem).
fn check_case(loc: &mut Local, x: &Ix, v: &V, toks: &[Tok], phase: usize, routes: u8) {
    let f = fields_of(v);
    let fmt = fmt_string(toks);
    let Some(cv) = to_chrono(v) else {
        loc.rep.harness_error(format!("c12: value not constructible: {:?}", v));
        return;
    };
    let exp = expect(toks, &f);
    loc.eval();
    loc.bucket(phase);
    loc.bucket(x.kind0 + v.kind as usize);
    let case_hash = h2(hstr(&fmt), v.hash());
    let mut nontrivial = false;

    // token-level buckets
    let mut present = 0u64;
    for t in toks {
        match t {
            Tok::Sp(si, md) => {
                present |= 1u64 << *si;
                loc.bucket(x.spec0 + *si);
                match md {
                    Md::No => {}
                    Md::Dash => loc.bucket(x.md_dash),
                    Md::Under => loc.bucket(x.md_under),
                    Md::Zero => loc.bucket(x.md_zero),
                }
                nontrivial |= *md != Md::No;
                if SPECS[*si].cl == Cl::Comp || SPECS[*si].t == "+" {
                    loc.bucket(x.comp);
                }
            }
            Tok::Lit(s) => {
                if !s.is_ascii() {
                    loc.bucket(x.lit_mb);
                }
                if s.chars().any(|c| c.is_whitespace()) {
                    loc.bucket(x.lit_ws);
                }
            }
            Tok::Bad(..) => {}
        }
    }

    let got = match guard(|| fmt_display(&cv, &fmt)) {
        Ok(r) => r,
        Err(p) => {
            loc.violation(
                &format!("C12/format/panic@{}", p.site()),
                json!({"value": v.j(), "format": fmt, "panic": p.to_json()}),
            );
            return;
        }
    };

    match &exp {
        Exp::Fail(reason, ti) => {
            nontrivial = true;
            loc.bucket(match *reason {
                "unknown-specifier" => x.f_unknown,
                "padding-modifier-on-non-numeric-specifier" => x.f_modfixed,
                "padding-modifier-on-composite-specifier" => x.f_modcomp,
                "truncated-specifier-at-end" => x.f_trunc,
                "parse-only-specifier" => x.f_parseonly,
                "value-has-no-date" => x.f_nodate,
                "value-has-no-time" => x.f_notime,
                _ => x.f_nooff,
            });
            if let Ok(text) = &got {
                loc.violation(
                    &format!("C12/format/{}/printed-text-instead-of-failing/{}", tok_sig(&toks[*ti]), reason),
                    json!({"value": v.j(), "format": fmt, "expected": "fmt::Error", "why": reason, "observed": text}),
                );
            }
        }
        Exp::Text(parts) => {
            // value-level buckets, counted when a specifier that shows the field is present
            if f.has & NEED_D != 0 {
                if present & x.g_year != 0 {
                    let y = f.year;
                    let b = if y < 0 {
                        Some(x.y_neg)
                    } else if y == 0 {
                        Some(x.y_zero)
                    } else if y < 1000 {
                        Some(x.y_small)
                    } else if (10_000..100_000).contains(&y) {
                        Some(x.y5)
                    } else if y >= 100_000 {
                        Some(x.y6)
                    } else {
                        None
                    };
                    if let Some(b) = b {
                        loc.bucket(b);
                        nontrivial = true;
                    }
                    if y <= -10_000 {
                        loc.bucket(if y <= -100_000 { x.y6 } else { x.y5 });
                    }
                }
                if f.headroom {
                    loc.bucket(x.headroom);
                    nontrivial = true;
                }
                if present & x.g_v != 0 {
                    if f.iso_year < f.year {
                        loc.bucket(x.iso_prev);
                        nontrivial = true;
                    } else if f.iso_year > f.year {
                        loc.bucket(x.iso_next);
                        nontrivial = true;
                    }
                    if f.iso_week == 53 {
                        loc.bucket(x.v53);
                        nontrivial = true;
                    } else if f.iso_week == 1 {
                        loc.bucket(x.v01);
                    }
                }
                if present & x.g_u != 0 {
                    match week_from(&f, 6) {
                        0 => {
                            loc.bucket(x.u00);
                            nontrivial = true;
                        }
                        53 => {
                            loc.bucket(x.u53);
                            nontrivial = true;
                        }
                        _ => {}
                    }
                }
                if present & x.g_w != 0 {
                    match week_from(&f, 0) {
                        0 => {
                            loc.bucket(x.w00);
                            nontrivial = true;
                        }
                        53 => {
                            loc.bucket(x.w53);
                            nontrivial = true;
                        }
                        _ => {}
                    }
                }
            }
            if f.has & NEED_T != 0 {
                if present & x.g_hour != 0 {
                    let b = match f.hour {
                        0 => Some(x.h0),
                        11 => Some(x.h11),
                        12 => Some(x.h12),
                        13 => Some(x.h13),
                        23 => Some(x.h23),
                        _ => None,
                    };
                    if let Some(b) = b {
                        loc.bucket(b);
                        nontrivial = true;
                    }
                }
                if present & x.g_sec != 0 && f.leap {
                    loc.bucket(x.leap);
                    if f.second != 59 {
                        loc.bucket(x.leap_odd);
                    }
                    nontrivial = true;
                }
                if present & x.g_frac != 0 {
                    loc.bucket(if f.nano == 0 {
                        x.fr0
                    } else if f.nano % 1_000_000 == 0 {
                        x.fr3
                    } else if f.nano % 1000 == 0 {
                        x.fr6
                    } else {
                        x.fr9
                    });
                }
            }
            if f.has & NEED_O != 0 && present & x.g_off != 0 {
                let a = f.off.abs();
                if f.off == 0 {
                    loc.bucket(x.off0);
                }
                if f.off < 0 {
                    loc.bucket(x.off_neg);
                }
                if a % 60 != 0 {
                    loc.bucket(x.off_secs);
                    nontrivial = true;
                    if present & x.g_offmin != 0 {
                        loc.bucket(match (a % 60).cmp(&30) {
                            std::cmp::Ordering::Less => x.off_lt,
                            std::cmp::Ordering::Equal => x.off_eq,
                            std::cmp::Ordering::Greater => x.off_gt,
                        });
                        if a >= 86_370 {
                            loc.bucket(x.off_24);
                        }
                    }
                }
                if f.off < 0 && a < 3600 {
                    loc.bucket(x.off_negzero);
                    nontrivial = true;
                }
            }
            if present & x.g_ts != 0 && f.ts < 0 {
                loc.bucket(x.ts_neg);
                nontrivial = true;
            }
            if parts.iter().any(|p| p.alts.len() > 1) {
                loc.bucket(x.amb);
            }

            match &got {
                Err(()) => {
                    // find the token that fails on its own (only on this rare path)
                    let culprit = toks
                        .iter()
                        .find(|t| matches!(guard(|| fmt_display(&cv, &t.text())), Ok(Err(())) | Err(_)))
                        .unwrap_or(&toks[0]);
                    loc.violation(
                        &format!(
                            "C12/format/{}/failed-for-valid-format{}",
                            tok_sig(culprit),
                            match culprit {
                                Tok::Sp(si, _) => value_class(SPECS[*si].t, &f, x),
                                _ => "",
                            }
                        ),
                        json!({"value": v.j(), "format": fmt, "expected": show_expected(parts), "observed": "fmt::Error"}),
                    );
                }
                Ok(text) => {
                    if !matches(parts, text) {
                        // blame: the first token that is wrong when rendered on its own; else the greedy walk
                        let mut alone: Option<(usize, Option<String>)> = None;
                        for (i, t) in toks.iter().enumerate() {
                            let own: Vec<&Part> = parts.iter().filter(|p| p.tok == i).collect();
                            match guard(|| fmt_display(&cv, &t.text())) {
                                Ok(Ok(s)) if matches_refs(&own, &s) => {}
                                Ok(Ok(s)) => {
                                    alone = Some((i, Some(s)));
                                    break;
                                }
                                _ => {
                                    alone = Some((i, None));
                                    break;
                                }
                            }
                        }
                        let sig = match (&alone, blame(parts, text)) {
                            (Some((ti, s)), _) => format!("C12/format/{}", wrong_text_sig(toks, *ti, parts, s.as_deref(), &f, x)),
                            (None, Some(ti)) => format!("C12/format/{}", wrong_text_sig(toks, ti, parts, None, &f, x)),
                            (None, None) => "C12/format/whole-format-string/wrong-text".to_string(),
                        };
                        loc.violation(&sig, json!({"value": v.j(), "format": fmt, "expected": show_expected(parts), "observed": text}));
                    }
                }
            }
        }
    }

    // the other routes must agree with the primary one
    if routes & R_WRITE_TO != 0 {
        loc.eval();
        loc.bucket(x.r_write_to);
        match guard(|| fmt_write_to(&cv, &fmt)) {
            Ok(r) => {
                let same = match (&r, &got) {
                    (Ok(a), Ok(b)) => a == b,
                    (Err(()), Err(())) => true,
                    _ => false,
                };
                if !same {
                    loc.violation(
                        "C12/DelayedFormat::write_to/differs-from-Display",
                        json!({"value": v.j(), "format": fmt, "display": format!("{:?}", got), "write_to": format!("{:?}", r)}),
                    );
                }
            }
            Err(p) => loc.violation(
                &format!("C12/DelayedFormat::write_to/panic@{}", p.site()),
                json!({"value": v.j(), "format": fmt, "panic": p.to_json()}),
            ),
        }
    }
    if routes & R_ITEMS != 0 {
        loc.eval();
        loc.bucket(x.r_items);
        // borrowed items (`parse`) and owned items (`parse_to_owned`) must print what `format` prints
        for owned in [false, true] {
            match guard(|| fmt_items(&cv, &fmt, owned)) {
                Ok(r) => {
                    if r != got {
                        loc.violation(
                            if owned { "C12/format_with_items(StrftimeItems::parse_to_owned)/differs-from-format" } else { "C12/format_with_items(StrftimeItems::parse)/differs-from-format" },
                            json!({"value": v.j(), "format": fmt, "format()": format!("{:?}", got), "format_with_items": format!("{:?}", r)}),
                        );
                    }
                }
                Err(p) => loc.violation(
                    &format!("C12/format_with_items/panic@{}", p.site()),
                    json!({"value": v.j(), "format": fmt, "panic": p.to_json()}),
                ),
            }
        }
    }

    if nontrivial {
        loc.nontrivial(case_hash);
    }
    loc.sample(|| json!({"value": v.j(), "format": fmt, "observed": format!("{:?}", got)}));
}

// ------------------------------------------------------------------------------------------------
// Token catalogues
// ------------------------------------------------------------------------------------------------

fn sp(t: &str, md: Md) -> Tok {
    Tok::Sp(spec_idx(t), md)
}
fn lit(s: &str) -> Tok {
    Tok::Lit(s.to_string())
}

/// Every documented specifier with every padding modifier that the documentation allows for it.
fn all_valid_tokens() -> Vec<Tok> {
    let mut v = Vec::new();
    for (i, s) in SPECS.iter().enumerate() {
        v.push(Tok::Sp(i, Md::No));
        if s.cl == Cl::Num {
            for md in [Md::Dash, Md::Under, Md::Zero] {
                v.push(Tok::Sp(i, md));
            }
        }
    }
    v
}

/// Invalid specifiers that stay invalid whatever follows them.
fn bad_tokens() -> Vec<Tok> {
    let mut v = Vec::new();
    for s in [
        "%Q", "%E", "%O", "%N", "%L", "%J", "%K", "%i", "%o", "%1", "%2f", "%.1f", "%.2", "%.x", "%3x", "%6 ", "%9d", "%:y", "%:x", "%:: ",
        "%é", "%😽", "% ", "%\n", "%#Y", "%#m", "%#%", "%-é", "%-#z", "%#-z", "%--d", "%-_d", "%00d", "%.3F", "%:Z", "%.Z", "%.j",
    ] {
        v.push(Tok::Bad(s.to_string(), BadKind::Unknown));
    }
    for s in [
        "%-A", "%_B", "%0Z", "%-Z", "%_Z", "%-z", "%_a", "%0b", "%-h", "%-p", "%_P", "%-%", "%_n", "%0t", "%-+", "%-:z", "%_.f", "%-.3f", "%-3f",
        "%0.9f", "%_::z", "%0:::z", "%_6f", "%0.6f",
    ] {
        v.push(Tok::Bad(s.to_string(), BadKind::ModOnNonNumeric));
    }
    for s in ["%-D", "%_F", "%0T", "%-c", "%_r", "%0x", "%-X", "%_v", "%0R", "%-R", "%_T"] {
        v.push(Tok::Bad(s.to_string(), BadKind::ModOnComposite));
    }
    // the `#` flag exists for `%#z` only (and that one is for parsing): every other letter after it is unknown
    for c in ('a'..='z').chain('A'..='Z') {
        if c != 'z' && !matches!(c, 'Y' | 'm') {
            v.push(Tok::Bad(format!("%#{}", c), BadKind::Unknown));
        }
    }
    v.push(Tok::Bad("%#z".to_string(), BadKind::ParseOnly));
    v
}

/// Incomplete specifiers: invalid only at the very end of the format string.
fn truncated_tokens() -> Vec<Tok> {
    ["%", "%-", "%_", "%0", "%#", "%.", "%.3", "%.6", "%.9", "%3", "%6", "%9", "%:", "%::", "%:::", "%-:"]
        .iter()
        .map(|s| Tok::Bad(s.to_string(), BadKind::Truncated))
        .collect()
}

const LITERALS: &[&str] = &[
    "-", "/", ":", " ", "T", "abc", ", ", "[", "]", "é", "日本", "😽", "\u{a0}", "\t", "  ", "x y", "12", "0", "+", ".", "z", "f", "_", "\n",
    " \t\n\r ", "ハンバーガー", "Z", "#", "--", "1970",
];

/// The property leaves %y / %g (and the composites containing %y) undefined for negative years.
fn allowed(toks: &[Tok], f: &Fields) -> bool {
    toks.iter().all(|t| match t {
        Tok::Sp(si, _) => match uses_two_digit_year(SPECS[*si].t) {
            Some(false) => f.has & NEED_D == 0 || f.year >= 0,
            Some(true) => f.has & NEED_D == 0 || f.iso_year >= 0,
            None => true,
        },
        _ => true,
    })
}

struct Cat {
    valid: Vec<Tok>,
    /// valid tokens whose fields the kind has, per kind
    for_kind: [Vec<Tok>; 5],
    bad: Vec<Tok>,
    trunc: Vec<Tok>,
    days: Vec<i64>,
    offs: Vec<i64>,
}

fn cat() -> Cat {
    let valid = all_valid_tokens();
    let fk = |k: Kind| -> Vec<Tok> {
        valid.iter().filter(|t| matches!(t, Tok::Sp(i, _) if SPECS[*i].need & !k.has() == 0)).cloned().collect()
    };
    Cat {
        for_kind: [fk(Kind::Date), fk(Kind::Time), fk(Kind::Naive), fk(Kind::Fixed), fk(Kind::Utc)],
        valid,
        bad: bad_tokens(),
        trunc: truncated_tokens(),
        days: gen::catalogue_days(),
        offs: gen::catalogue_offsets(),
    }
}

const KINDS: [Kind; 5] = [Kind::Date, Kind::Time, Kind::Naive, Kind::Fixed, Kind::Utc];

fn random_value(rng: &mut Rng, kind: Kind, c: &Cat) -> V {
    let mut day = gen::random_day(rng, &c.days);
    let mut secs = gen::random_secs(rng);
    let mut frac = gen::random_frac(rng);
    if rng.chance(1, 16) {
        secs = *rng.pick(&[0i64, 39_600, 43_199, 43_200, 46_800, 82_800, 86_399]) + rng.range(0, 59);
        secs = secs.min(86_399);
    }
    if rng.chance(1, 8) {
        // chrono's constructors accept a leap-second representation only on second 59 (of the UTC
        // value; with an offset that has seconds the wall clock shows it on another second)
        secs = secs - secs % 60 + 59;
        frac += 1_000_000_000;
    }
    let mut off = 0;
    if kind == Kind::Fixed {
        off = gen::random_offset(rng, &c.offs);
        if rng.chance(1, 12) {
            // wall clock in the one-day headroom beyond NaiveDate's range
            frac %= 1_000_000_000;
            if rng.chance(1, 2) {
                day = rc::max_day();
                off = rng.range(1, 86_399);
                secs = rng.range(86_400 - off, 86_399);
            } else {
                day = rc::min_day();
                off = -rng.range(1, 86_399);
                secs = rng.range(0, -off - 1);
            }
        }
    }
    if kind == Kind::Time {
        day = 1;
    }
    if kind == Kind::Date {
        secs = 0;
        frac = 0;
    }
    V { kind, day, secs, frac, off }
}

// ------------------------------------------------------------------------------------------------
// Oracle self-test: the examples of the rustdoc table and of its footnotes
// ------------------------------------------------------------------------------------------------

fn self_test() -> Result<(), String> {
    // 2001-07-08T00:34:60.026490+09:30
    let local_day = rc::day_number(2001, 7, 8);
    let v = V { kind: Kind::Fixed, day: local_day - 1, secs: 15 * 3600 + 4 * 60 + 59, frac: 1_026_490_000, off: 34_200 };
    let f = fields_of(&v);
    let t = |spec: &str, md: Md, fields: &Fields, want: &str| -> Result<(), String> {
        match expect(&[sp(spec, md)], fields) {
            Exp::Text(p) if matches(&p, want) => Ok(()),
            Exp::Text(p) => Err(format!("c12 oracle self-test: %{}{} gives {} but the documentation says {:?}", md.text(), spec, show_expected(&p), want)),
            Exp::Fail(r, _) => Err(format!("c12 oracle self-test: %{} fails ({})", spec, r)),
        }
    };
    for (s, want) in [
        ("Y", "2001"), ("C", "20"), ("y", "01"), ("q", "3"), ("m", "07"), ("b", "Jul"), ("B", "July"), ("h", "Jul"), ("d", "08"), ("e", " 8"),
        ("a", "Sun"), ("A", "Sunday"), ("w", "0"), ("u", "7"), ("U", "27"), ("W", "27"), ("G", "2001"), ("g", "01"), ("V", "27"), ("j", "189"),
        ("D", "07/08/01"), ("x", "07/08/01"), ("F", "2001-07-08"), ("v", " 8-Jul-2001"), ("H", "00"), ("k", " 0"), ("I", "12"), ("l", "12"),
        ("P", "am"), ("p", "AM"), ("M", "34"), ("S", "60"), ("f", "26490000"), ("f", "026490000"), (".f", ".026490"), (".3f", ".026"),
        (".6f", ".026490"), (".9f", ".026490000"), ("3f", "026"), ("6f", "026490"), ("9f", "026490000"), ("R", "00:34"), ("T", "00:34:60"),
        ("X", "00:34:60"), ("r", "12:34:60 AM"), ("z", "+0930"), (":z", "+09:30"), ("::z", "+09:30:00"), (":::z", "+09"), ("Z", "+09:30"),
        ("c", "Sun Jul  8 00:34:60 2001"), ("+", "2001-07-08T00:34:60.026490+09:30"), ("s", "994518299"), ("t", "\t"), ("n", "\n"), ("%", "%"),
    ] {
        t(s, Md::No, &f, want)?;
    }
    // footnotes and modifier table
    let d = |y: i64, m: i64, dd: i64| fields_of(&V { kind: Kind::Date, day: rc::day_number(y, m, dd), secs: 0, frac: 0, off: 0 });
    t("C", Md::No, &d(-99, 1, 1), "-1")?;
    t("j", Md::No, &d(2001, 1, 12), "012")?;
    t("j", Md::Dash, &d(2001, 1, 12), "12")?;
    t("j", Md::Under, &d(2001, 1, 12), " 12")?;
    t("e", Md::No, &d(2001, 1, 9), " 9")?;
    t("e", Md::Zero, &d(2001, 1, 9), "09")?;
    t("Y", Md::No, &d(12345, 1, 1), "+12345")?;
    t("Y", Md::No, &d(-1, 1, 1), "-0001")?;
    t("Y", Md::No, &d(123, 1, 1), "0123")?;
    t("Y", Md::No, &d(-12345, 1, 1), "-12345")?;
    // chrono's own corner cases: 2007-12-31 -> %G,%g,%U,%W,%V = 2008,08,52,53,01; 2010-01-03 -> 2009,09,01,00,53
    for (dt, want) in [(d(2007, 12, 31), ["2008", "08", "52", "53", "01"]), (d(2010, 1, 3), ["2009", "09", "01", "00", "53"]), (d(2012, 3, 4), ["2012", "12", "10", "09", "09"])] {
        for (s, w) in ["G", "g", "U", "W", "V"].iter().zip(want.iter()) {
            t(s, Md::No, &dt, w)?;
        }
    }
    // footnote 7: 7 µs
    let us7 = fields_of(&V { kind: Kind::Time, day: 1, secs: 0, frac: 7000, off: 0 });
    t("f", Md::No, &us7, "7000")?;
    t(".f", Md::No, &us7, ".000007")?;
    t(".f", Md::No, &fields_of(&V { kind: Kind::Time, day: 1, secs: 0, frac: 0, off: 0 }), "")?;
    t("r", Md::No, &fields_of(&V { kind: Kind::Time, day: 1, secs: 13 * 3600 + 57 * 60 + 9, frac: 0, off: 0 }), "01:57:09 PM")?;
    // week-of-year by brute force: count the Sundays / Mondays so far, for all 14 year classes
    for y in 1990..2030 {
        let mut w = rc::Walker::at_day(rc::day_number(y, 1, 1));
        let (mut suns, mut mons) = (0, 0);
        while w.y == y {
            if w.wd == 6 {
                suns += 1;
            }
            if w.wd == 0 {
                mons += 1;
            }
            let ff = d(w.y, w.m, w.d);
            if week_from(&ff, 6) != suns || week_from(&ff, 0) != mons {
                return Err(format!("c12 oracle self-test: week_from at {}-{}-{}", w.y, w.m, w.d));
            }
            w.next();
        }
    }
    // the specifier table is prefix-free the way the generator needs it
    if !matches(&[Part { alts: vec!["ab".into(), "a".into()], tok: 0 }, Part { alts: vec!["bc".into()], tok: 1 }], "abc") {
        return Err("c12 oracle self-test: matcher backtracking".into());
    }
    Ok(())
}

// ------------------------------------------------------------------------------------------------
// Phases
// ------------------------------------------------------------------------------------------------

fn bidx(name: &str) -> usize {
    bucket_names().iter().position(|x| *x == name).unwrap()
}

/// catalogue values × every specifier × every modifier (one specifier per format string)
fn product(ctx: &Ctx, rep: &Report, x: &Ix, c: &Cat) {
    let phase = bidx("product");
    let mut vals: Vec<V> = Vec::new();
    for &day in &c.days {
        vals.push(V { kind: Kind::Date, day, secs: 0, frac: 0, off: 0 });
    }
    let mut secs_cat = gen::catalogue_secs();
    secs_cat.extend([39_600, 39_659, 40_000, 46_859]);
    for &secs in &secs_cat {
        for &frac in &gen::catalogue_fracs() {
            vals.push(V { kind: Kind::Time, day: 1, secs, frac, off: 0 });
            if secs % 60 == 59 {
                vals.push(V { kind: Kind::Time, day: 1, secs, frac: frac + 1_000_000_000, off: 0 });
            }
        }
    }
    for (i, &day) in c.days.iter().enumerate() {
        if i % 7 == 0 || day == rc::min_day() || day == rc::max_day() {
            for secs in [0, 43_200, 86_399] {
                for frac in [0, 123_456_789, 1_500_000_000] {
                    if frac >= 1_000_000_000 && secs % 60 != 59 {
                        continue;
                    }
                    vals.push(V { kind: Kind::Naive, day, secs, frac, off: 0 });
                }
            }
        }
    }
    let zdays = [
        rc::min_day(), rc::min_day() + 1, rc::max_day() - 1, rc::max_day(), rc::UNIX_EPOCH_DAY - 1, rc::UNIX_EPOCH_DAY, rc::UNIX_EPOCH_DAY + 1, 0, 1,
        -365, rc::day_number(2001, 7, 8), rc::day_number(9999, 12, 31), rc::day_number(10_000, 1, 1), rc::day_number(-1, 12, 31),
        rc::day_number(2024, 12, 30), rc::day_number(2021, 1, 3),
    ];
    for &day in &zdays {
        for secs in [0, 1, 43_199, 43_200, 86_340, 86_399] {
            for frac in [0, 500_000_000, 1_999_999_999] {
                if frac >= 1_000_000_000 && secs % 60 != 59 {
                    continue;
                }
                for &off in &c.offs {
                    vals.push(V { kind: Kind::Fixed, day, secs, frac, off });
                }
                vals.push(V { kind: Kind::Utc, day, secs, frac, off: 0 });
            }
        }
    }
    let n_shards = 256usize;
    let per = vals.len().div_ceil(n_shards);
    let vals = &vals;
    par_shards(rep, ctx.threads, n_shards, |shard| {
        let mut loc = rep.local();
        let lo = shard * per;
        let hi = ((shard + 1) * per).min(vals.len());
        for (k, v) in vals[lo.min(hi)..hi].iter().enumerate() {
            let f = fields_of(v);
            for (ti, tok) in c.for_kind[v.kind as usize].iter().enumerate() {
                let toks = [tok.clone()];
                if !allowed(&toks, &f) {
                    continue;
                }
                let routes = if (k + ti) % 16 == 0 { R_WRITE_TO | R_ITEMS } else { 0 };
                check_case(&mut loc, x, v, &toks, phase, routes);
            }
            // negative space on a thinned set of values: fields the value does not have, invalid and truncated specifiers
            if (lo + k) % 23 == 0 {
                for tok in c.valid.iter().filter(|t| matches!(t, Tok::Sp(i, _) if SPECS[*i].need & !v.kind.has() != 0)) {
                    check_case(&mut loc, x, v, &[tok.clone()], phase, R_WRITE_TO);
                    check_case(&mut loc, x, v, &[lit("at "), tok.clone(), lit(".")], phase, 0);
                }
                for tok in c.bad.iter() {
                    check_case(&mut loc, x, v, &[tok.clone()], phase, R_ITEMS);
                    check_case(&mut loc, x, v, &[lit("["), tok.clone(), lit("]")], phase, R_WRITE_TO);
                }
                for tok in c.trunc.iter() {
                    check_case(&mut loc, x, v, &[tok.clone()], phase, R_ITEMS);
                    check_case(&mut loc, x, v, &[lit("100"), tok.clone()], phase, R_WRITE_TO);
                }
            }
        }
    });
}

/// One format string holding all the given specifiers, separated by '|'; the modifier of the
/// numeric ones is chosen by `variant`.
fn combined(specs: &[&str], variant: usize) -> Vec<Tok> {
    let mut toks = Vec::new();
    for (i, s) in specs.iter().enumerate() {
        if i > 0 {
            toks.push(lit("|"));
        }
        let md = if SPECS[spec_idx(s)].cl == Cl::Num { [Md::No, Md::Dash, Md::Under, Md::Zero][variant % 4] } else { Md::No };
        toks.push(sp(s, md));
    }
    toks
}

const DATE_SPECS: &[&str] = &["Y", "C", "q", "m", "b", "B", "h", "d", "e", "a", "A", "w", "u", "U", "W", "G", "V", "j", "F", "v"];
const DATE_SPECS_2DIGIT: &[&str] = &["y", "D", "x"];
const TIME_SPECS: &[&str] = &["H", "k", "I", "l", "P", "p", "M", "S", "f", ".f", ".3f", ".6f", ".9f", "3f", "6f", "9f", "R", "T", "X", "r"];
const OFF_SPECS: &[&str] = &["z", ":z", "::z", ":::z", "Z", "+", "s"];

/// every date of whole year ranges × all date specifiers
fn walk_dates(ctx: &Ctx, rep: &Report, x: &Ix) {
    let phase = bidx("walk_dates");
    let mut ranges: Vec<(i64, i64)> = vec![
        (rc::MIN_YEAR, rc::MIN_YEAR + 4), (-100_003, -99_997), (-10_003, -9_997), (-1_003, -997), (-103, 103), (997, 1_003),
        (9_997, 10_003), (99_997, 100_003), (rc::MAX_YEAR - 4, rc::MAX_YEAR),
    ];
    match ctx.tier {
        Tier::Quick => ranges.extend([(-420, -104), (104, 420), (1_580, 2_420)]),
        Tier::Thorough => ranges.extend([(-2_000, -104), (104, 996), (1_004, 2_800)]),
    }
    let mut years: Vec<i64> = ranges.iter().flat_map(|(a, b)| *a..=*b).collect();
    years.sort();
    years.dedup();
    let years = &years;
    let n_years = std::sync::atomic::AtomicU64::new(0);
    let fmts: Vec<[Vec<Tok>; 2]> = (0..4)
        .map(|variant| {
            let mut with2: Vec<&str> = DATE_SPECS.to_vec();
            with2.extend(DATE_SPECS_2DIGIT);
            with2.push("g");
            [combined(DATE_SPECS, variant), combined(&with2, variant)]
        })
        .collect();
    let fmts = &fmts;
    par_shards(rep, ctx.threads, years.len(), |i| {
        let y = years[i];
        let mut loc = rep.local();
        let mut w = rc::Walker::at_day(rc::day_number(y, 1, 1));
        while w.y == y {
            let kind = [Kind::Date, Kind::Naive, Kind::Utc][(w.n.rem_euclid(3)) as usize];
            let v = V { kind, day: w.n, secs: if kind == Kind::Date { 0 } else { 45_296 }, frac: 0, off: 0 };
            let f = fields_of(&v);
            if (f.year, f.month, f.day, f.ordinal, f.wd) != (w.y, w.m, w.d, w.o, w.wd) {
                rep.harness_error(format!("c12: walker and closed form disagree at day {}", w.n));
                return;
            }
            let pair = &fmts[(w.n.rem_euclid(4)) as usize];
            let toks = if f.year >= 0 && f.iso_year >= 0 { &pair[1] } else { &pair[0] };
            check_case(&mut loc, x, &v, toks, phase, if w.d == 1 { R_WRITE_TO | R_ITEMS } else { 0 });
            w.next();
        }
        n_years.fetch_add(1, std::sync::atomic::Ordering::Relaxed);
    });
    rep.set_extra("years_walked_completely", json!(n_years.load(std::sync::atomic::Ordering::Relaxed)));
}

/// every second of the day × fractions × all time specifiers
fn walk_seconds(ctx: &Ctx, rep: &Report, x: &Ix) {
    let phase = bidx("walk_seconds");
    let fracs: &[i64] = &[0, 1, 7_000, 123_000_000, 123_456_000, 999_999_999, 1_000_000_000, 1_026_490_000, 1_999_999_999];
    let fmts: Vec<Vec<Tok>> = (0..4).map(|variant| combined(TIME_SPECS, variant)).collect();
    let fmts = &fmts;
    let n_shards = 96usize;
    par_shards(rep, ctx.threads, n_shards, |shard| {
        let mut loc = rep.local();
        for secs in (shard as i64 * 900)..((shard as i64 + 1) * 900) {
            for (k, &frac) in fracs.iter().enumerate() {
                // quick: three of the nine fractions per second (rotating), thorough: all
                if ctx.tier == Tier::Quick && (secs as usize + k) % 3 != 0 {
                    continue;
                }
                // chrono's constructors accept a leap-second representation only on second 59
                if frac >= 1_000_000_000 && secs % 60 != 59 {
                    continue;
                }
                let kind = if (secs + k as i64) % 2 == 0 { Kind::Time } else { Kind::Naive };
                let v = V { kind, day: if kind == Kind::Time { 1 } else { 738_000 + secs % 1000 }, secs, frac, off: 0 };
                check_case(&mut loc, x, &v, &fmts[(secs as usize + k) % 4], phase, if secs % 60 == 0 { R_WRITE_TO } else { 0 });
            }
        }
    });
}

/// every one-second offset × all offset specifiers (and %+ / %s, which depend on the offset)
fn walk_offsets(ctx: &Ctx, rep: &Report, x: &Ix) {
    let phase = bidx("walk_offsets");
    let instants: &[(i64, i64, i64)] = &[
        (rc::day_number(2001, 7, 7), 15 * 3600 + 4 * 60 + 59, 1_026_490_000),
        (rc::UNIX_EPOCH_DAY, 0, 0),
        (rc::UNIX_EPOCH_DAY - 1, 86_399, 999_999_999),
        (rc::max_day(), 86_399, 0),
        (rc::min_day(), 0, 500_000_000),
    ];
    let n_inst = ctx.tier.pick(2, instants.len());
    let fmts: Vec<Vec<Tok>> = (0..4).map(|variant| combined(OFF_SPECS, variant)).collect();
    let fmts = &fmts;
    let n_shards = 128usize;
    let total = 2 * 86_399 + 1;
    let per = (total + n_shards as i64 - 1) / n_shards as i64;
    par_shards(rep, ctx.threads, n_shards, |shard| {
        let mut loc = rep.local();
        let lo = -86_399 + per * shard as i64;
        let hi = (lo + per - 1).min(86_399);
        for off in lo..=hi {
            for (k, &(day, secs, frac)) in instants[..n_inst].iter().enumerate() {
                let v = V { kind: Kind::Fixed, day, secs, frac, off };
                check_case(&mut loc, x, &v, &fmts[(off.rem_euclid(4) as usize + k) % 4], phase, if off % 64 == 0 { R_WRITE_TO | R_ITEMS } else { 0 });
            }
        }
    });
}

/// random values × one random specifier (with modifier), alone or between literals
fn random_single(ctx: &Ctx, rep: &Report, x: &Ix, c: &Cat) {
    let phase = bidx("random_single");
    let total = ctx.n(8_000_000, 300_000_000);
    let n_shards = 256usize;
    let per = (total / n_shards as u64).max(1);
    par_shards(rep, ctx.threads, n_shards, |shard| {
        let mut rng = Rng::new(ctx.seed, "C12/single", shard as u64);
        let mut loc = rep.local();
        let mut toks: Vec<Tok> = Vec::with_capacity(3);
        for _ in 0..per {
            let kind = KINDS[rng.below(5) as usize];
            let v = random_value(&mut rng, kind, c);
            let tok = match rng.below(100) {
                0..=87 => rng.pick(&c.for_kind[kind as usize]).clone(),
                88..=93 => rng.pick(&c.valid).clone(),
                94..=97 => rng.pick(&c.bad).clone(),
                _ => rng.pick(&c.trunc).clone(),
            };
            let truncated = matches!(tok, Tok::Bad(_, BadKind::Truncated));
            toks.clear();
            match rng.below(10) {
                0..=6 => toks.push(tok),
                7 => {
                    toks.push(lit(*rng.pick(LITERALS)));
                    toks.push(tok);
                }
                _ => {
                    toks.push(lit(*rng.pick(LITERALS)));
                    toks.push(tok);
                    if !truncated {
                        toks.push(lit(*rng.pick(LITERALS)));
                    }
                }
            }
            if !allowed(&toks, &fields_of(&v)) {
                continue;
            }
            let routes = match rng.below(16) {
                0 => R_WRITE_TO,
                1 => R_ITEMS,
                _ => 0,
            };
            check_case(&mut loc, x, &v, &toks, phase, routes);
        }
    });
}

/// random values × random format strings of 2..=12 items
fn random_strings(ctx: &Ctx, rep: &Report, x: &Ix, c: &Cat) {
    let phase = bidx("random_string");
    let total = ctx.n(2_000_000, 50_000_000);
    let n_shards = 256usize;
    let per = (total / n_shards as u64).max(1);
    par_shards(rep, ctx.threads, n_shards, |shard| {
        let mut rng = Rng::new(ctx.seed, "C12/strings", shard as u64);
        let mut loc = rep.local();
        let mut toks: Vec<Tok> = Vec::with_capacity(13);
        for _ in 0..per {
            let kind = KINDS[rng.below(5) as usize];
            let v = random_value(&mut rng, kind, c);
            let f = fields_of(&v);
            let n = rng.range(2, 12) as usize;
            // 10 % of the strings contain one invalid item, 5 % may ask for a field the value lacks
            let flavour = rng.below(100);
            let bad_at = if flavour < 10 { rng.below(n as u64) as usize } else { usize::MAX };
            toks.clear();
            for i in 0..n {
                if i == bad_at {
                    if i == n - 1 && rng.chance(1, 2) {
                        toks.push(rng.pick(&c.trunc).clone());
                    } else {
                        toks.push(rng.pick(&c.bad).clone());
                    }
                    continue;
                }
                match rng.below(10) {
                    0..=5 => {
                        let pool = if (10..15).contains(&flavour) { &c.valid } else { &c.for_kind[kind as usize] };
                        let t = rng.pick(pool).clone();
                        if allowed(std::slice::from_ref(&t), &f) {
                            toks.push(t);
                        } else {
                            toks.push(sp("%", Md::No));
                        }
                    }
                    _ => toks.push(lit(*rng.pick(LITERALS))),
                }
            }
            let routes = match rng.below(8) {
                0 => R_WRITE_TO,
                1 => R_ITEMS,
                _ => 0,
            };
            check_case(&mut loc, x, &v, &toks, phase, routes);
        }
    });
}


// ------------------------------------------------------------------------------------------------
// Other carriers: a user-defined zone whose offset displays a name, and the deprecated `Date<Tz>`.
// (Lenient items, `StrftimeItems::new_lenient`, are deliberately not judged here: the property says
// an unknown specifier makes formatting fail, lenient mode is the documented opt-out and its output
// text is not described by the property; C15 drives it for panic-freedom.)
// ------------------------------------------------------------------------------------------------

fn compare_text(loc: &mut Local, sig: &str, v: &V, fmt: &str, exp: &Exp, got: Result<Result<String, ()>, crate::mon::PanicInfo>) {
    match got {
        Err(p) => loc.violation(&format!("C12/{}/panic@{}", sig, p.site()), json!({"value": v.j(), "format": fmt, "panic": p.to_json()})),
        Ok(r) => match (exp, r) {
            (Exp::Fail(reason, _), Ok(text)) => loc.violation(&format!("C12/{}/printed-text-instead-of-failing/{}", sig, reason), json!({"value": v.j(), "format": fmt, "observed": text})),
            (Exp::Fail(..), Err(())) => {}
            (Exp::Text(parts), Ok(text)) => {
                if !matches(parts, &text) {
                    loc.violation(&format!("C12/{}/wrong-text", sig), json!({"value": v.j(), "format": fmt, "expected": show_expected(parts), "observed": text}));
                }
            }
            (Exp::Text(parts), Err(())) => loc.violation(&format!("C12/{}/failed-though-all-fields-present", sig), json!({"value": v.j(), "format": fmt, "expected": show_expected(parts)})),
        },
    }
}

#[allow(deprecated)]
fn alt_carriers(ctx: &Ctx, rep: &Report, c: &Cat) {
    let (b_named, b_dfix, b_dutc, b_dnamed) = (
        bidx("carrier_user_zone_with_name"),
        bidx("carrier_deprecated_Date_FixedOffset"),
        bidx("carrier_deprecated_Date_Utc"),
        bidx("carrier_deprecated_Date_user_zone"),
    );
    let total = ctx.n(600_000, 20_000_000);
    let n_shards = 128usize;
    let per = (total / n_shards as u64).max(1);
    let date_off_toks: Vec<Tok> = c.for_kind[Kind::Fixed as usize].iter().filter(|t| matches!(t, Tok::Sp(i, _) if SPECS[*i].need & NEED_T == 0)).cloned().collect();
    par_shards(rep, ctx.threads, n_shards, |shard| {
        let mut rng = Rng::new(ctx.seed, "C12/carriers", shard as u64);
        let mut loc = rep.local();
        let mut toks: Vec<Tok> = Vec::with_capacity(10);
        for _ in 0..per {
            let which = rng.below(2);
            let kind = if rng.chance(1, 4) { Kind::Utc } else { Kind::Fixed };
            let v = random_value(&mut rng, kind, c);
            let f = fields_of(&v);
            let Some(cv) = to_chrono(&v) else { continue };
            let n = rng.range(1, 8) as usize;
            toks.clear();
            match which {
                // --- DateTime in a user-defined zone whose offset displays a name
                0 => {
                    for _ in 0..n {
                        toks.push(if rng.chance(1, 3) { sp("Z", Md::No) } else if rng.chance(1, 4) { lit(*rng.pick(LITERALS)) } else { rng.pick(&c.for_kind[Kind::Fixed as usize]).clone() });
                    }
                    if !allowed(&toks, &f) {
                        continue;
                    }
                    let fmt = fmt_string(&toks);
                    let (CV::F(_) | CV::U(_)) = &cv else { continue };
                    let utc = match &cv {
                        CV::F(d) => d.naive_utc(),
                        CV::U(d) => d.naive_utc(),
                        _ => continue,
                    };
                    let dn = NamedTz(v.off as i32).from_utc_datetime(&utc);
                    let fz = Fields { zname: Some(ZONE_NAME), is_utc: false, ..f };
                    loc.eval();
                    loc.bucket(b_named);
                    let got = guard(|| {
                        let mut s = String::new();
                        write!(&mut s, "{}", dn.format(&fmt)).map(|_| s).map_err(|_| ())
                    });
                    compare_text(&mut loc, "DateTime<user zone with named offset>::format", &v, &fmt, &expect(&toks, &fz), got);
                    loc.nontrivial(h2(hstr(&fmt), v.hash()));
                }
                // --- deprecated Date<Tz>: date and offset specifiers only
                1 => {
                    if f.headroom {
                        continue;
                    }
                    for _ in 0..n {
                        toks.push(if rng.chance(1, 3) { sp("Z", Md::No) } else if rng.chance(1, 4) { lit(*rng.pick(LITERALS)) } else { rng.pick(&date_off_toks).clone() });
                    }
                    if rng.chance(1, 12) {
                        // a time specifier must fail: a Date has no time of day
                        toks.push(sp(*rng.pick(&["H", "M", "S", "T", "s", "+", ".3f"]), Md::No));
                    }
                    if !allowed(&toks, &f) {
                        continue;
                    }
                    let fmt = fmt_string(&toks);
                    let fd = Fields { has: NEED_D | NEED_O, ..f };
                    let run = |s: &mut String, r: std::fmt::Result| r.map(|_| std::mem::take(s)).map_err(|_| ());
                    loc.eval();
                    match &cv {
                        CV::F(d) => {
                            loc.bucket(b_dfix);
                            let got = guard(|| {
                                let mut s = String::new();
                                let r = write!(&mut s, "{}", d.date().format(&fmt));
                                run(&mut s, r)
                            });
                            compare_text(&mut loc, "Date<FixedOffset>::format", &v, &fmt, &expect(&toks, &fd), got);
                            loc.eval();
                            loc.bucket(b_dnamed);
                            let dn = NamedTz(v.off as i32).from_utc_datetime(&d.naive_utc());
                            let fz = Fields { zname: Some(ZONE_NAME), ..fd };
                            let got = guard(|| {
                                let mut s = String::new();
                                let r = write!(&mut s, "{}", dn.date().format(&fmt));
                                run(&mut s, r)
                            });
                            compare_text(&mut loc, "Date<user zone with named offset>::format", &v, &fmt, &expect(&toks, &fz), got);
                        }
                        CV::U(d) => {
                            loc.bucket(b_dutc);
                            let got = guard(|| {
                                let mut s = String::new();
                                let r = write!(&mut s, "{}", d.date().format(&fmt));
                                run(&mut s, r)
                            });
                            compare_text(&mut loc, "Date<Utc>::format", &v, &fmt, &expect(&toks, &fd), got);
                        }
                        _ => continue,
                    }
                    loc.nontrivial(h2(hstr(&fmt), v.hash() ^ 1));
                }
                _ => continue,
            }
        }
    });
}

pub fn run(ctx: &Ctx) -> Outcome {
    let names = bucket_names();
    let floor: Vec<&'static str> = names.iter().copied().filter(|n| !NOT_FLOOR.contains(n)).collect();
    let rep = Report::with_bitmap_bits("C12", names, &floor, 28);
    if let Err(e) = rc::self_test().and_then(|_| ri::self_test()).and_then(|_| self_test()) {
        rep.harness_error(e);
        return rep.finish(ctx, "self-test failed", &[]);
    }
    let x = ix();
    let c = cat();
    rep.set_extra("specifiers", json!(SPECS.iter().map(|s| format!("%{}", s.t)).collect::<Vec<_>>()));
    rep.set_extra("valid_specifier_modifier_pairs", json!(c.valid.len()));
    rep.set_extra("invalid_specifier_forms", json!(c.bad.len() + c.trunc.len()));
    product(ctx, &rep, &x, &c);
    walk_dates(ctx, &rep, &x);
    walk_seconds(ctx, &rep, &x);
    walk_offsets(ctx, &rep, &x);
    random_single(ctx, &rep, &x, &c);
    random_strings(ctx, &rep, &x, &c);
    alt_carriers(ctx, &rep, &c);
    let _ = RDt::new(0, 0, 0);
    rep.finish(
        ctx,
        "format strings are generated from token lists (documented specifier + allowed padding modifier | literal | white space | invalid or truncated specifier), so their meaning is known without chrono's parser; each is rendered for a NaiveDate / NaiveTime / NaiveDateTime / DateTime<FixedOffset> / DateTime<Utc> through write!(String, \"{}\", v.format(f)) (sampled: DelayedFormat::write_to and StrftimeItems::parse + format_with_items) and compared with the reference renderer (exact text, or a set of accepted renderings where the ambiguity table applies; fmt::Error expected for invalid specifiers and for fields the value lacks). Phases: catalogue values x every specifier x every modifier; every date of whole year ranges x all date specifiers; every second of the day x fractions (incl. leap-second representations) x all time specifiers; every one-second offset x all offset specifiers; random values x one specifier; random values x random strings of 2..=12 items. A case is non-trivial if it shows a negative / <1000 / >9999 year, an ISO-year spill, week 00 or 53, hour 0/11/12/13/23, a leap second, an offset with seconds or a negative sub-hour offset, a negative timestamp, a wall date outside NaiveDate's range, uses a padding modifier, or must fail; distinct = distinct (format string, value) (hashed bitmap, collisions under-count)",
        &[
            "R-cal (self-tested each run) and the R-fmt renderer in this module (self-tested against the examples of the rustdoc table, its footnotes and chrono's own corner-case tests)",
            "where rustdoc, chrono's tests and behaviour disagree only the common part is asserted (ambiguity table at the top of props/c12.rs)",
            "%y, %g, %D, %x are not generated for negative (ISO) years (property text)",
            "a leap second whose wall-clock second is not :59 (offset with seconds) is expected to print second+1",
        ],
    )
}
