//! C02 — Unix timestamps and UTC date-times correspond one-to-one. Oracle: R-inst (i128).

use crate::gen;
use crate::mon::{guard, h2, par_shards, Ctx, Local, Outcome, Report};
use crate::refcal as rc;
use crate::refinst::{self as ri, RDt};
use crate::rng::Rng;
use chrono::{DateTime, Datelike, MappedLocalTime, TimeZone, Timelike, Utc};
use serde_json::json;
use std::time::{Duration, SystemTime, UNIX_EPOCH};

const B: &[&str] = &[
    "secs_in_range", "secs_below_range", "secs_above_range", "range_min_exact", "range_min_minus1", "range_max_exact",
    "range_max_plus1", "leap_accepted", "leap_rejected_not59", "nsec_rejected_ge_2e9", "nsec_rejected_ge_1e9",
    "neg_subsec_millis", "neg_subsec_micros", "neg_subsec_nanos", "millis_out_of_range", "micros_out_of_range",
    "nanos_opt_none_below", "nanos_opt_none_above", "nanos_opt_edge_some", "systemtime_pre_epoch", "systemtime_post_epoch",
    "reverse_from_civil", "exhaustive_day_seconds", "exhaustive_millis_around_epoch", "pre_epoch", "i64_extreme",
    "systemtime_local_zone_not_utc", "deprecated_twins",
];
const FLOOR: &[&str] = B;

fn bi(n: &str) -> usize {
    B.iter().position(|x| *x == n).unwrap()
}

struct Ix {
    inr: usize, below: usize, above: usize, min_exact: usize, min_m1: usize, max_exact: usize, max_p1: usize,
    leap_ok: usize, leap_not59: usize, ge2e9: usize, ge1e9: usize, neg_ms: usize, neg_us: usize, neg_ns: usize,
    ms_oor: usize, us_oor: usize, nn_below: usize, nn_above: usize, nn_edge: usize, st_pre: usize, st_post: usize,
    reverse: usize, ex_day: usize, ex_ms: usize, pre_epoch: usize, extreme: usize,
}

fn ix() -> Ix {
    Ix {
        inr: bi("secs_in_range"), below: bi("secs_below_range"), above: bi("secs_above_range"), min_exact: bi("range_min_exact"),
        min_m1: bi("range_min_minus1"), max_exact: bi("range_max_exact"), max_p1: bi("range_max_plus1"), leap_ok: bi("leap_accepted"),
        leap_not59: bi("leap_rejected_not59"), ge2e9: bi("nsec_rejected_ge_2e9"), ge1e9: bi("nsec_rejected_ge_1e9"),
        neg_ms: bi("neg_subsec_millis"), neg_us: bi("neg_subsec_micros"), neg_ns: bi("neg_subsec_nanos"), ms_oor: bi("millis_out_of_range"),
        us_oor: bi("micros_out_of_range"), nn_below: bi("nanos_opt_none_below"), nn_above: bi("nanos_opt_none_above"),
        nn_edge: bi("nanos_opt_edge_some"), st_pre: bi("systemtime_pre_epoch"), st_post: bi("systemtime_post_epoch"),
        reverse: bi("reverse_from_civil"), ex_day: bi("exhaustive_day_seconds"), ex_ms: bi("exhaustive_millis_around_epoch"),
        pre_epoch: bi("pre_epoch"), extreme: bi("i64_extreme"),
    }
}

fn min_secs() -> i64 {
    (rc::min_day() - rc::UNIX_EPOCH_DAY) * 86_400
}
fn max_secs() -> i64 {
    (rc::max_day() - rc::UNIX_EPOCH_DAY) * 86_400 + 86_399
}

/// Oracle: the date-time denoted by (s, ns), or None.
fn exp_from_ts(s: i64, ns: i64) -> Option<RDt> {
    let day = s.div_euclid(86_400) as i128 + rc::UNIX_EPOCH_DAY as i128;
    if day < rc::min_day() as i128 || day > rc::max_day() as i128 {
        return None;
    }
    let ok_ns = ns < 1_000_000_000 || (ns < 2_000_000_000 && s.rem_euclid(60) == 59);
    if !ok_ns {
        return None;
    }
    Some(RDt::new(day as i64, s.rem_euclid(86_400), ns))
}

fn show(dt: &Option<DateTime<Utc>>) -> String {
    format!("{:?}", dt.map(|d| d.naive_utc()))
}

/// Compare a constructed value with the expected RDt, and check all read-back accessors.
fn check_value(loc: &mut Local, x: &Ix, entry: &str, input: serde_json::Value, got: Option<DateTime<Utc>>, exp: Option<RDt>) {
    loc.eval();
    match (got, exp) {
        (None, None) => {}
        (Some(_), None) => loc.violation(&format!("C02/{}/some-for-unrepresentable", entry), json!({"input": input, "observed": show(&got)})),
        (None, Some(e)) => loc.violation(&format!("C02/{}/none-for-representable", entry), json!({"input": input, "expected": format!("{:?}", e)})),
        (Some(dt), Some(e)) => {
            let n = dt.naive_utc();
            let r = RDt::of(&n);
            if r != e {
                loc.violation(&format!("C02/{}/wrong-datetime", entry), json!({"input": input, "expected": format!("{:?}", e), "observed": format!("{:?}", r), "chrono": show(&got)}));
                return;
            }
            // fields through Datelike/Timelike of the DateTime<Utc>
            let (y, m, d) = rc::civil_from_days(e.day);
            let (hh, mm, ss) = e.hms();
            if (dt.year() as i64, dt.month() as i64, dt.day() as i64) != (y, m, d)
                || (dt.hour() as i64, dt.minute() as i64, dt.second() as i64) != (hh, mm, ss)
                || dt.nanosecond() as i64 != e.frac
                || dt.weekday().num_days_from_monday() as i64 != rc::weekday(e.day)
            {
                loc.violation(&format!("C02/{}/wrong-fields", entry), json!({"input": input, "expected": [y, m, d, hh, mm, ss, e.frac], "chrono": show(&got)}));
            }
            check_readback(loc, x, entry, &input, &dt, &e);
        }
    }
}

/// Accessors of a value whose reference reading is `e`.
fn check_readback(loc: &mut Local, x: &Ix, entry: &str, input: &serde_json::Value, dt: &DateTime<Utc>, e: &RDt) {
    let s = e.unix_secs();
    if s < 0 {
        loc.bucket(x.pre_epoch);
    }
    if dt.timestamp() != s || dt.timestamp_subsec_nanos() as i64 != e.frac {
        loc.violation(&format!("C02/{}/timestamp-readback", entry), json!({"input": input, "expected": [s, e.frac], "observed": [dt.timestamp(), dt.timestamp_subsec_nanos()]}));
    }
    if dt.timestamp_subsec_millis() as i64 != e.frac / 1_000_000 || dt.timestamp_subsec_micros() as i64 != e.frac / 1000 {
        loc.violation(&format!("C02/{}/subsec-readback", entry), json!({"input": input, "frac": e.frac, "observed": [dt.timestamp_subsec_millis(), dt.timestamp_subsec_micros()]}));
    }
    // from_timestamp(ts, subsec) round-trips (also for leap representations)
    let back = DateTime::from_timestamp(dt.timestamp(), dt.timestamp_subsec_nanos());
    if back != Some(*dt) || back.map(|b| b.naive_utc()) != Some(dt.naive_utc()) {
        loc.violation(&format!("C02/{}/from_timestamp-roundtrip", entry), json!({"input": input, "value": format!("{:?}", dt.naive_utc()), "back": show(&back)}));
    }
    // (a leap-second representation reads as its second plus a fraction of 1.0 .. 2.0 s, as the
    // accessors' rustdoc says: "in event of a leap second this may exceed 999[_999_999]")
    let total: i128 = s as i128 * 1_000_000_000 + e.frac as i128;
    if e.is_leap() && (total - 4_000_000_000 < i64::MIN as i128 || total + 4_000_000_000 > i64::MAX as i128) {
        // at the very edge of the i64-nanosecond window the count of a leap representation is not
        // judged (whether the intermediate whole-second product must fit is not the property's business)
        return;
    }
    let ms = total.div_euclid(1_000_000);
    let us = total.div_euclid(1000);
    if dt.timestamp_millis() as i128 != ms || dt.timestamp_micros() as i128 != us {
        loc.violation(&format!("C02/{}/millis-micros-readback", entry), json!({"input": input, "expected": [ms.to_string(), us.to_string()], "observed": [dt.timestamp_millis(), dt.timestamp_micros()]}));
    }
    let exp_ns = if total >= i64::MIN as i128 && total <= i64::MAX as i128 { Some(total as i64) } else { None };
    let got_ns = dt.timestamp_nanos_opt();
    if got_ns != exp_ns {
        loc.violation(&format!("C02/{}/timestamp_nanos_opt", entry), json!({"input": input, "value": format!("{:?}", dt.naive_utc()), "expected": exp_ns, "observed": got_ns}));
    }
    match exp_ns {
        None => loc.bucket(if total < 0 { x.nn_below } else { x.nn_above }),
        Some(v) => {
            if v.checked_sub(2_000_000_000).is_none() || v.checked_add(2_000_000_000).is_none() {
                loc.bucket(x.nn_edge)
            }
        }
    }
}

fn mlt<T>(m: MappedLocalTime<T>) -> Option<T> {
    match m {
        MappedLocalTime::Single(v) => Some(v),
        _ => None,
    }
}

fn case_secs(loc: &mut Local, x: &Ix, s: i64, ns: i64) {
    let exp = exp_from_ts(s, ns);
    let input = json!([s, ns]);
    let got = match guard(|| DateTime::from_timestamp(s, ns as u32)) {
        Ok(g) => g,
        Err(p) => {
            loc.violation(&format!("C02/from_timestamp/panic@{}", p.site()), json!({"input": input, "panic": p.to_json()}));
            return;
        }
    };
    check_value(loc, x, "from_timestamp", input.clone(), got, exp);
    match guard(|| mlt(Utc.timestamp_opt(s, ns as u32))) {
        Ok(g2) => {
            if g2 != got || g2.map(|d| d.naive_utc()) != got.map(|d| d.naive_utc()) {
                loc.violation("C02/Utc.timestamp_opt/differs-from-from_timestamp", json!({"input": input, "a": show(&got), "b": show(&g2)}));
            }
        }
        Err(p) => loc.violation(&format!("C02/Utc.timestamp_opt/panic@{}", p.site()), json!({"input": input, "panic": p.to_json()})),
    }
    #[allow(deprecated)]
    {
        match guard(|| chrono::NaiveDateTime::from_timestamp_opt(s, ns as u32)) {
            Ok(g3) => {
                if g3 != got.map(|d| d.naive_utc()) {
                    loc.violation("C02/NaiveDateTime::from_timestamp_opt/differs", json!({"input": input, "a": show(&got), "b": format!("{:?}", g3)}));
                }
            }
            Err(p) => loc.violation(&format!("C02/NaiveDateTime::from_timestamp_opt/panic@{}", p.site()), json!({"input": input, "panic": p.to_json()})),
        }
    }
    // the zone-generic wrappers on a non-UTC zone must denote the same instant (they are separate code)
    if (s ^ ns) & 7 == 0 {
        let off = [3600, -16_200, 86_399, -86_399, 1][((s as u64 ^ ns as u64) >> 3) as usize % 5];
        let fo = chrono::FixedOffset::east_opt(off).unwrap();
        match guard(|| mlt(fo.timestamp_opt(s, ns as u32))) {
            Ok(g) => {
                if g.map(|d| (d.naive_utc(), d.offset().local_minus_utc())) != got.map(|d| (d.naive_utc(), off)) {
                    loc.violation("C02/FixedOffset.timestamp_opt/differs-from-from_timestamp", json!({"input": input, "offset": off, "utc": show(&got), "observed": format!("{:?}", g.map(|d| d.naive_utc()))}));
                }
            }
            Err(p) => loc.violation(&format!("C02/FixedOffset.timestamp_opt/panic@{}", p.site()), json!({"input": input, "offset": off, "panic": p.to_json()})),
        }
    }
    // buckets
    let (lo, hi) = (min_secs(), max_secs());
    if s < lo {
        loc.bucket(x.below)
    } else if s > hi {
        loc.bucket(x.above)
    } else {
        loc.bucket(x.inr)
    }
    if s == lo {
        loc.bucket(x.min_exact)
    }
    if s == lo - 1 {
        loc.bucket(x.min_m1)
    }
    if s == hi {
        loc.bucket(x.max_exact)
    }
    if s == hi + 1 {
        loc.bucket(x.max_p1)
    }
    if s == i64::MIN || s == i64::MAX {
        loc.bucket(x.extreme)
    }
    if (lo..=hi).contains(&s) {
        if ns >= 2_000_000_000 {
            loc.bucket(x.ge2e9)
        } else if ns >= 1_000_000_000 {
            if s.rem_euclid(60) == 59 {
                loc.bucket(x.leap_ok)
            } else {
                loc.bucket(x.leap_not59);
                loc.bucket(x.ge1e9)
            }
        }
    }
    let nontrivial = ns >= 999_999_999 || ns <= 1 || s <= lo + 2 || s >= hi - 2 || s.rem_euclid(86_400) <= 1 || s.rem_euclid(86_400) >= 86_398 || s.abs() <= 2;
    if nontrivial {
        loc.nontrivial(h2(1, h2(s as u64, ns as u64)));
    }
    loc.sample(|| json!({"from_timestamp": [s, ns], "result": show(&got)}));

    // a leap-second representation converts to the system clock as seconds + fraction (one way only)
    if let (Some(dt), true) = (got, ns >= 1_000_000_000) {
        let total: i128 = s as i128 * 1_000_000_000 + ns as i128;
        let st = if total >= 0 {
            UNIX_EPOCH.checked_add(Duration::new((total / 1_000_000_000) as u64, (total % 1_000_000_000) as u32))
        } else {
            let back = -total;
            UNIX_EPOCH.checked_sub(Duration::new((back / 1_000_000_000) as u64, (back % 1_000_000_000) as u32))
        };
        if let Some(st) = st {
            loc.eval();
            match guard(|| SystemTime::from(dt)) {
                Ok(st2) => {
                    if st2 != st {
                        loc.violation("C02/Into<SystemTime>/wrong-instant/leap-second-representation", json!({"input": input, "value": show(&got)}));
                    }
                }
                Err(p) => loc.violation(&format!("C02/Into<SystemTime>/panic@{}/leap-second-representation", p.site()), json!({"input": input, "panic": p.to_json()})),
            }
        }
    }
    // SystemTime both ways (instants both sides can hold, non-leap)
    if let (Some(dt), true) = (got, ns < 1_000_000_000) {
        let st = if s >= 0 {
            UNIX_EPOCH.checked_add(Duration::new(s as u64, ns as u32))
        } else {
            UNIX_EPOCH.checked_sub(Duration::new(s.unsigned_abs(), 0)).and_then(|t| t.checked_add(Duration::new(0, ns as u32)))
        };
        if let Some(st) = st {
            loc.eval();
            loc.bucket(if s < 0 { x.st_pre } else { x.st_post });
            match guard(|| DateTime::<Utc>::from(st)) {
                Ok(d2) => {
                    if d2 != dt || d2.naive_utc() != dt.naive_utc() {
                        loc.violation("C02/From<SystemTime>/wrong-instant", json!({"input": input, "expected": show(&got), "observed": format!("{:?}", d2.naive_utc())}));
                    }
                }
                Err(p) => loc.violation(&format!("C02/From<SystemTime>/panic@{}", p.site()), json!({"input": input, "panic": p.to_json()})),
            }
            match guard(|| SystemTime::from(dt)) {
                Ok(st2) => {
                    if st2 != st {
                        loc.violation("C02/Into<SystemTime>/wrong-instant", json!({"input": input, "value": show(&got)}));
                    }
                }
                Err(p) => loc.violation(&format!("C02/Into<SystemTime>/panic@{}", p.site()), json!({"input": input, "panic": p.to_json()})),
            }
        }
    }
}

/// unit: 0 = millis, 1 = micros, 2 = nanos
/// The zone-generic wrappers `timestamp_millis_opt`, `timestamp_micros`, `timestamp_nanos` on a
/// non-UTC zone: same instant as the UTC constructors, offset of the zone.
fn case_unit_zone(loc: &mut Local, unit: u32, v: i64, exp: Option<DateTime<Utc>>) {
    let off = [3600, -16_200, 86_399, -86_399, 1][(v as u64 % 5) as usize];
    let fo = chrono::FixedOffset::east_opt(off).unwrap();
    let name = ["FixedOffset.timestamp_millis_opt", "FixedOffset.timestamp_micros", "FixedOffset.timestamp_nanos"][unit as usize];
    let r = guard(|| match unit {
        0 => mlt(fo.timestamp_millis_opt(v)),
        1 => mlt(fo.timestamp_micros(v)),
        _ => Some(fo.timestamp_nanos(v)),
    });
    match r {
        Ok(g) => {
            if g.map(|d| (d.naive_utc(), d.offset().local_minus_utc())) != exp.map(|d| (d.naive_utc(), off)) {
                loc.violation(&format!("C02/{}/differs-from-utc-constructor", name), json!({"input": v, "offset": off, "expected_utc": show(&exp), "observed_utc": format!("{:?}", g.map(|d| d.naive_utc()))}));
            }
        }
        Err(p) => {
            // timestamp_nanos cannot fail; the other two report failure by value
            loc.violation(&format!("C02/{}/panic@{}", name, p.site()), json!({"input": v, "offset": off, "panic": p.to_json()}));
        }
    }
}

fn case_unit(loc: &mut Local, x: &Ix, unit: u32, v: i64) {
    let k: i64 = [1000, 1_000_000, 1_000_000_000][unit as usize];
    let per: i64 = 1_000_000_000 / k;
    let s = v.div_euclid(k);
    let ns = v.rem_euclid(k) * per;
    let exp = exp_from_ts(s, ns);
    let input = json!(v);
    if v < 0 && v.rem_euclid(k) != 0 {
        loc.bucket([x.neg_ms, x.neg_us, x.neg_ns][unit as usize]);
    }
    if v == i64::MIN || v == i64::MAX {
        loc.bucket(x.extreme)
    }
    let nontrivial = v.rem_euclid(k) <= 1 || v.rem_euclid(k) == k - 1 || exp.is_none() || v.unsigned_abs() < 3;
    if nontrivial {
        loc.nontrivial(h2(2 + unit as u64, v as u64));
    }
    match unit {
        0 => {
            let got = match guard(|| DateTime::from_timestamp_millis(v)) {
                Ok(g) => g,
                Err(p) => return loc.violation(&format!("C02/from_timestamp_millis/panic@{}", p.site()), json!({"input": v, "panic": p.to_json()})),
            };
            check_value(loc, x, "from_timestamp_millis", input.clone(), got, exp);
            case_unit_zone(loc, 0, v, got);
            if exp.is_none() {
                loc.bucket(x.ms_oor)
            }
            if let Some(dt) = got {
                if dt.timestamp_millis() != v {
                    loc.violation("C02/from_timestamp_millis/readback", json!({"input": v, "observed": dt.timestamp_millis()}));
                }
            }
            match guard(|| mlt(Utc.timestamp_millis_opt(v))) {
                Ok(g2) if g2 == got => {}
                Ok(g2) => loc.violation("C02/Utc.timestamp_millis_opt/differs", json!({"input": v, "a": show(&got), "b": show(&g2)})),
                Err(p) => loc.violation(&format!("C02/Utc.timestamp_millis_opt/panic@{}", p.site()), json!({"input": v, "panic": p.to_json()})),
            }
            #[allow(deprecated)]
            if let Ok(g3) = guard(|| chrono::NaiveDateTime::from_timestamp_millis(v)) {
                if g3 != got.map(|d| d.naive_utc()) {
                    loc.violation("C02/NaiveDateTime::from_timestamp_millis/differs", json!({"input": v}));
                }
            }
        }
        1 => {
            let got = match guard(|| DateTime::from_timestamp_micros(v)) {
                Ok(g) => g,
                Err(p) => return loc.violation(&format!("C02/from_timestamp_micros/panic@{}", p.site()), json!({"input": v, "panic": p.to_json()})),
            };
            check_value(loc, x, "from_timestamp_micros", input.clone(), got, exp);
            case_unit_zone(loc, 1, v, got);
            if exp.is_none() {
                loc.bucket(x.us_oor)
            }
            if let Some(dt) = got {
                if dt.timestamp_micros() != v {
                    loc.violation("C02/from_timestamp_micros/readback", json!({"input": v, "observed": dt.timestamp_micros()}));
                }
            }
            match guard(|| mlt(Utc.timestamp_micros(v))) {
                Ok(g2) if g2 == got => {}
                Ok(g2) => loc.violation("C02/Utc.timestamp_micros/differs", json!({"input": v, "a": show(&got), "b": show(&g2)})),
                Err(p) => loc.violation(&format!("C02/Utc.timestamp_micros/panic@{}", p.site()), json!({"input": v, "panic": p.to_json()})),
            }
            #[allow(deprecated)]
            if let Ok(g3) = guard(|| chrono::NaiveDateTime::from_timestamp_micros(v)) {
                if g3 != got.map(|d| d.naive_utc()) {
                    loc.violation("C02/NaiveDateTime::from_timestamp_micros/differs", json!({"input": v}));
                }
            }
        }
        _ => {
            // every i64 nanosecond count is representable: must never fail
            let got = match guard(|| DateTime::from_timestamp_nanos(v)) {
                Ok(g) => Some(g),
                Err(p) => return loc.violation(&format!("C02/from_timestamp_nanos/panic@{}", p.site()), json!({"input": v, "panic": p.to_json()})),
            };
            check_value(loc, x, "from_timestamp_nanos", input.clone(), got, exp);
            case_unit_zone(loc, 2, v, got);
            if let Some(dt) = got {
                if dt.timestamp_nanos_opt() != Some(v) {
                    loc.violation("C02/from_timestamp_nanos/readback", json!({"input": v, "observed": dt.timestamp_nanos_opt()}));
                }
            }
            match guard(|| Utc.timestamp_nanos(v)) {
                Ok(g2) if Some(g2) == got => {}
                Ok(g2) => loc.violation("C02/Utc.timestamp_nanos/differs", json!({"input": v, "a": show(&got), "b": format!("{:?}", g2.naive_utc())})),
                Err(p) => loc.violation(&format!("C02/Utc.timestamp_nanos/panic@{}", p.site()), json!({"input": v, "panic": p.to_json()})),
            }
            #[allow(deprecated)]
            if let Ok(g3) = guard(|| chrono::NaiveDateTime::from_timestamp_nanos(v)) {
                if g3 != got.map(|d| d.naive_utc()) {
                    loc.violation("C02/NaiveDateTime::from_timestamp_nanos/differs", json!({"input": v}));
                }
            }
        }
    }
}

fn case_reverse(loc: &mut Local, x: &Ix, r: RDt) {
    loc.eval();
    loc.bucket(x.reverse);
    let Some(n) = r.to_chrono() else {
        loc.rep.harness_error(format!("C02 reverse: cannot build {:?}", r));
        return;
    };
    let dt = n.and_utc();
    let input = json!({"civil": format!("{:?}", n)});
    let res = guard(|| check_readback(loc, x, "reverse", &input, &dt, &r));
    if let Err(p) = res {
        loc.violation(&format!("C02/reverse/panic@{}", p.site()), json!({"input": input, "panic": p.to_json()}));
    }
    if r.frac <= 1 || r.frac % 1_000_000_000 >= 999_999_999 || r.secs <= 1 || r.secs >= 86_398 {
        loc.nontrivial(h2(9, h2(r.day as u64, h2(r.secs as u64, r.frac as u64))));
    }
}

const NS_CAT: [i64; 16] = [
    0, 1, 2, 999_999, 1_000_000, 999_999_998, 999_999_999, 1_000_000_000, 1_000_000_001, 1_500_000_000, 1_999_999_998, 1_999_999_999,
    2_000_000_000, 2_000_000_001, u32::MAX as i64 - 1, u32::MAX as i64,
];

fn sec_catalogue() -> Vec<i64> {
    let mut v = gen::catalogue_i64();
    let (lo, hi) = (min_secs(), max_secs());
    for k in -3..=3 {
        v.push(lo.saturating_add(k));
        v.push(hi.saturating_add(k));
        v.push(9_223_372_036 + k);
        v.push(-9_223_372_036 + k);
        v.push(-9_223_372_037 + k);
    }
    for d in gen::catalogue_days() {
        let base = (d - rc::UNIX_EPOCH_DAY) * 86_400;
        for k in [-61, -60, -59, -2, -1, 0, 1, 2, 59, 60, 86_339, 86_399] {
            v.push(base + k);
        }
    }
    v.sort();
    v.dedup();
    v
}

fn unit_catalogue(unit: u32) -> Vec<i64> {
    let k: i128 = [1000, 1_000_000, 1_000_000_000][unit as usize];
    let mut v = gen::catalogue_i64();
    let (lo, hi) = (min_secs() as i128 * k, max_secs() as i128 * k + (k - 1));
    for base in [lo, hi, 0, 86_400 * k, -86_400 * k, 951_868_800 * k] {
        for d in [-k - 1, -k, -k + 1, -2, -1, 0, 1, 2, k - 1, k, k + 1] {
            let c = base + d;
            if c >= i64::MIN as i128 && c <= i64::MAX as i128 {
                v.push(c as i64);
            }
        }
    }
    v.sort();
    v.dedup();
    v
}

pub fn run(ctx: &Ctx) -> Outcome {
    let rep = Report::new("C02", B, FLOOR);
    if let Err(e) = rc::self_test().and_then(|_| ri::self_test()) {
        rep.harness_error(e);
        return rep.finish(ctx, "self-test failed", &[]);
    }
    let x = ix();
    // 1. catalogue product seconds x nanos, unit catalogues
    {
        let secs = sec_catalogue();
        let chunks: Vec<&[i64]> = secs.chunks(256).collect();
        par_shards(&rep, ctx.threads, chunks.len(), |i| {
            let mut loc = rep.local();
            for &s in chunks[i] {
                for &ns in &NS_CAT {
                    case_secs(&mut loc, &x, s, ns);
                }
            }
        });
        let mut loc = rep.local();
        for unit in 0..3 {
            for v in unit_catalogue(unit) {
                case_unit(&mut loc, &x, unit, v);
            }
        }
    }
    // 2. exhaustive slices: every second of six days; every millisecond of seconds around the epoch
    {
        let days = [rc::min_day(), rc::day_number(1969, 12, 31), rc::UNIX_EPOCH_DAY, rc::day_number(2016, 12, 31), rc::day_number(-1, 2, 28), rc::max_day()];
        par_shards(&rep, ctx.threads, days.len(), |i| {
            let mut loc = rep.local();
            let base = (days[i] - rc::UNIX_EPOCH_DAY) * 86_400;
            for sod in 0..86_400 {
                for ns in [0, 999_999_999, 1_000_000_000, 1_999_999_999] {
                    case_secs(&mut loc, &x, base + sod, ns);
                    loc.bucket(x.ex_day);
                }
            }
        });
        let mut loc = rep.local();
        for v in -3000..=3000 {
            case_unit(&mut loc, &x, 0, v);
            loc.bucket(x.ex_ms);
        }
        for v in -3000..=3000 {
            case_unit(&mut loc, &x, 1, v * 997);
            case_unit(&mut loc, &x, 2, v * 999_983);
        }
    }
    // 3. random
    let total = ctx.n(3_000_000, 300_000_000);
    let n_shards = 128usize;
    let per = total / n_shards as u64;
    let cat_days = gen::catalogue_days();
    let sec_cat = sec_catalogue();
    par_shards(&rep, ctx.threads, n_shards, |shard| {
        let mut rng = Rng::new(ctx.seed, "C02/random", shard as u64);
        let mut loc = rep.local();
        let (lo, hi) = (min_secs(), max_secs());
        for _ in 0..per {
            match rng.below(8) {
                0..=2 => {
                    let s = match rng.below(8) {
                        0 => rng.pick(&sec_cat).saturating_add(rng.range(-3, 3)),
                        1..=3 => rng.range(lo, hi),
                        4 => rng.range(-9_300_000_000, 9_300_000_000),
                        5 => rng.next() as i64,
                        6 => rng.log_i64(63),
                        _ => rng.range(lo - 200_000, hi + 200_000),
                    };
                    // bias to second-of-minute 59 now and then, to hit leap acceptance
                    let s = if rng.chance(1, 4) && (lo..=hi - 60).contains(&s) { s - s.rem_euclid(60) + 59 } else { s };
                    let ns = match rng.below(6) {
                        0 => *rng.pick(&NS_CAT),
                        1..=2 => rng.range(0, 999_999_999),
                        3 => rng.range(1_000_000_000, 1_999_999_999),
                        4 => rng.range(0, u32::MAX as i64),
                        _ => gen::random_frac(&mut rng),
                    };
                    case_secs(&mut loc, &x, s, ns);
                }
                3..=5 => {
                    let unit = rng.below(3) as u32;
                    let k: i128 = [1000, 1_000_000, 1_000_000_000][unit as usize];
                    let v = match rng.below(6) {
                        0 => rng.next() as i64,
                        1 => rng.log_i64(63),
                        2..=3 => {
                            let s = rng.range(lo, hi) as i128 * k + rng.range(0, k as i64 - 1) as i128;
                            s.clamp(i64::MIN as i128, i64::MAX as i128) as i64
                        }
                        4 => {
                            // around the range ends in this unit
                            let e = if rng.chance(1, 2) { lo as i128 * k } else { hi as i128 * k + k - 1 };
                            (e + rng.range(-5000, 5000) as i128).clamp(i64::MIN as i128, i64::MAX as i128) as i64
                        }
                        _ => rng.range(-5_000_000_000, 5_000_000_000),
                    };
                    case_unit(&mut loc, &x, unit, v);
                }
                _ => {
                    let mut r = gen::random_rdt(&mut rng, &cat_days);
                    if rng.chance(1, 10) {
                        // near the i64-nanosecond window edges
                        let edge = if rng.chance(1, 2) { i64::MIN as i128 } else { i64::MAX as i128 };
                        r = RDt::from_ns(ri::epoch_ns() + edge + rng.range(-3_000_000_000, 3_000_000_000) as i128);
                    }
                    case_reverse(&mut loc, &x, r);
                }
            }
        }
    });
    // 4. the clock itself: Utc::now() / Local::now() lie between two readings of the system clock,
    //    and SystemTime -> DateTime<Local> keeps the instant
    {
        let mut loc = rep.local();
        for _ in 0..200 {
            loc.eval();
            let t0 = SystemTime::now();
            let r = guard(|| (Utc::now(), chrono::Local::now()));
            let t1 = SystemTime::now();
            match r {
                Ok((u, l)) => {
                    let (su, sl) = (SystemTime::from(u), SystemTime::from(l));
                    // the system clock may step backwards between two readings; only judge when it did not
                    if t1 >= t0 && (su < t0 || su > t1 || sl < t0 || sl > t1) {
                        loc.violation("C02/now/not-between-two-system-clock-readings", json!({"utc_now": format!("{:?}", u.naive_utc())}));
                    }
                    let back = DateTime::<chrono::Local>::from(t0);
                    if SystemTime::from(back) != t0 || DateTime::<Utc>::from(t0).naive_utc() != back.naive_utc() {
                        loc.violation("C02/From<SystemTime>-for-DateTime<Local>/wrong-instant", json!({"value": format!("{:?}", back.naive_utc())}));
                    }
                }
                Err(p) => loc.violation(&format!("C02/now/panic@{}", p.site()), json!({"panic": p.to_json()})),
            }
        }
    }
    crate::props::twins::c02(ctx, &rep, bi("deprecated_twins"));
    // the system clock type and DateTime<Local> in a process whose local zone is not UTC (child
    // processes with TZ set): the conversion must keep the instant and show the zone's offset there
    {
        use crate::props::tzchild::{self, Ans};
        let mut loc = rep.local();
        let bk = bi("systemtime_local_zone_not_utc");
        for (zi, tz) in ["JST-9", "NST3:30NDT,M3.2.0,M11.1.0", "<+1245>-12:45<+1345>,M9.5.0,M4.1.0/3"].iter().enumerate() {
            let mut rng = Rng::new(ctx.seed, "C02/local-child", zi as u64);
            let q: Vec<(char, i64)> = (0..ctx.n(200, 10_000))
                .map(|_| {
                    ('U', match rng.below(3) {
                        0 => rng.range(1_600_000_000, 1_700_000_000),
                        1 => rng.range(-2_000_000_000, 4_000_000_000),
                        _ => *rng.pick(&[1_615_705_200i64, 1_636_264_800, 1_632_578_400, 1_617_458_400, 0, -1]) + rng.range(-90_000, 90_000),
                    })
                })
                .collect();
            match tzchild::run_child(&ctx.work_dir, &format!("c02-{}", zi), Some(tz), &q) {
                Ok(ans) => {
                    for ((_, u), a) in q.iter().zip(ans.iter()) {
                        loc.eval();
                        loc.bucket(bk);
                        match a {
                            Ans::Single(_) => {}
                            Ans::Panic(msg) if msg.starts_with(tzchild::GLUE) => loc.violation("C02/Local-child/conversion-changes-the-instant-or-shows-a-wrong-offset", json!({"TZ": tz, "unix": u, "message": msg})),
                            other => loc.violation("C02/Local-child/panic-or-error", json!({"TZ": tz, "unix": u, "observed": other.print()})),
                        }
                        loc.nontrivial(h2(94, h2(zi as u64, *u as u64)));
                    }
                }
                Err(e) => rep.harness_error(format!("C02 local-zone child: {}", e)),
            }
        }
    }
    rep.finish(
        ctx,
        "seconds catalogue (i64 extremes, range ends ±3, day boundaries of catalogue dates, ±2^63 ns window) × 16 nanosecond fields; per-unit catalogues; every second of six days × 4 ns fields; every ms of ±3 s around the epoch; random counts (uniform in range, raw i64, log-uniform, near range ends) in the four units; reverse direction from random/boundary civil date-times. Non-trivial: count or ns field at a unit/day/range boundary or rejected; distinct = distinct (unit, count, ns) triples (hashed bitmap)",
        &["R-cal/R-inst oracles (self-tested each run)", "SystemTime on this platform holds every instant chrono can represent"],
    )
}
